// C04 harness: polyline routes are Euclidean shortest paths (penalties 0), resp. minimise
// length + segmentPenalty * bends.
// One case = one scene of separated convex obstacles (gap >= 1 between cells' shapes, integer grid or
// jittered into general position, coordinates multiples of 1/64), 2..8 polyline connectors, one
// segment penalty in {0, 5, 50}.  Inputs first, then libavoid's routes, then an (untrusted) oracle
// certificate per connector computed here with exact integer visibility tests and a double Dijkstra:
//   cert <conn> <V> pi_0 .. pi_{V-1}   potential over the vertices (corners in shape order, then src, dst)
//                                      (penalty 0 only; scaled by (1 - 1e-10) so that it is exactly feasible)
//   wit  <conn> <m> i_0 .. i_{m-1}     witness path (vertex indices) of the oracle optimum
//   oracle <conn> <cost>               oracle optimum (length + penalty * bends), double, unverified
// The Lean driver rebuilds the spec visibility graph itself and verifies potential and witness.
#include "avoid_scene.h"
#include <queue>
#include <limits>
using namespace Avoid;

typedef long long i64;
struct LPt { i64 x, y; };       // coordinates * 64

static i64 area2L(const LPt &a, const LPt &b, const LPt &c) { return (b.x - a.x) * (c.y - a.y) - (c.x - a.x) * (b.y - a.y); }

// exact: does the closed segment pq contain a point strictly inside the CCW convex polygon?
static bool segHitsInteriorL(const std::vector<LPt> &poly, const LPt &p, const LPt &q) {
    size_t n = poly.size();
    std::vector<i64> c(n), d(n);
    bool inP = true, inQ = true;
    for (size_t i = 0; i < n; ++i) {
        c[i] = area2L(poly[i], poly[(i + 1) % n], p);
        i64 cq = area2L(poly[i], poly[(i + 1) % n], q);
        d[i] = cq - c[i];
        if (c[i] <= 0) inP = false;
        if (cq <= 0) inQ = false;
        if (c[i] <= 0 && cq <= 0) return false;
    }
    if (inP || inQ) return true;
    // open interval (lo, hi) as fractions ln/ld, hn/hd with positive denominators
    __int128 ln = 0, ld = 1, hn = 1, hd = 1;
    for (size_t i = 0; i < n; ++i) {
        if (d[i] > 0) { __int128 bn = -c[i], bd = d[i]; if (ln * bd < bn * ld) { ln = bn; ld = bd; } }       // t > -c/d
        else if (d[i] < 0) { __int128 bn = c[i], bd = -d[i]; if (bn * hd < hn * bd) { hn = bn; hd = bd; } }   // t < c/(-d)
        else if (c[i] <= 0) return false;
    }
    return ln * hd < hn * ld;
}

struct ConnSpec { unsigned id; double sx, sy, dx, dy; };

static LPt toL(double x, double y) { return LPt{(i64) llround(x * 64), (i64) llround(y * 64)}; }

// oracle (untrusted): exact visibility, Dijkstra in doubles, on the given (current) shapes
static void emitOracle(const std::vector<vs::DPoly> &shapesNow, const std::vector<ConnSpec> &cs, double penalty) {
    std::vector<std::vector<LPt> > polys;
    std::vector<LPt> V; std::vector<Point> VD;
    for (auto &p : shapesNow) { std::vector<LPt> q; for (auto &v : p) { q.push_back(toL(v.x, v.y)); V.push_back(q.back()); VD.push_back(v); } polys.push_back(q); }
    size_t C = V.size(), N = C + 2;
    V.resize(N); VD.resize(N);
    auto visible = [&](size_t i, size_t j) {
        for (auto &q : polys) if (segHitsInteriorL(q, V[i], V[j])) return false;
        return true;
    };
    std::vector<std::vector<char> > vis(N, std::vector<char>(N, 0));
    for (size_t i = 0; i < C; ++i) for (size_t j = i + 1; j < C; ++j) vis[i][j] = vis[j][i] = visible(i, j);
    auto len = [&](size_t i, size_t j) { double dx = VD[i].x - VD[j].x, dy = VD[i].y - VD[j].y; return std::sqrt(dx * dx + dy * dy); };
    const double INF = std::numeric_limits<double>::infinity();
    for (auto &c : cs) {
        V[C] = toL(c.sx, c.sy); VD[C] = Point(c.sx, c.sy); V[C + 1] = toL(c.dx, c.dy); VD[C + 1] = Point(c.dx, c.dy);
        for (size_t e = C; e < N; ++e) for (size_t j = 0; j < N; ++j) if (j != e) vis[e][j] = vis[j][e] = visible(e, j);
        std::vector<size_t> path;
        double best = INF;
        if (penalty == 0) {
            std::vector<double> dist(N, INF); std::vector<long> prev(N, -1); std::vector<char> done(N, 0);
            dist[C] = 0;
            for (size_t it = 0; it < N; ++it) {
                size_t u = N; for (size_t i = 0; i < N; ++i) if (!done[i] && dist[i] < INF && (u == N || dist[i] < dist[u])) u = i;
                if (u == N) break;
                done[u] = 1;
                for (size_t w = 0; w < N; ++w) if (w != u && vis[u][w]) { double nd = dist[u] + len(u, w); if (nd < dist[w]) { dist[w] = nd; prev[w] = (long) u; } }
            }
            best = dist[C + 1];
            printf("cert %u %zu", c.id, N);
            for (size_t i = 0; i < N; ++i) printf(" %s", vh::hx(dist[i] < INF ? dist[i] * (1.0 - 1e-10) : 0.0).c_str());
            printf("\n");
            if (best < INF) for (long v = (long) C + 1; v >= 0; v = prev[v]) path.push_back((size_t) v);
            std::reverse(path.begin(), path.end());
        } else {
            // states (v, p): at v having arrived from p (p = N: start)
            size_t S = N * (N + 1);
            std::vector<double> dist(S, INF); std::vector<long> prev(S, -1);
            typedef std::pair<double, size_t> QE;
            std::priority_queue<QE, std::vector<QE>, std::greater<QE> > pq;
            dist[C * (N + 1) + N] = 0; pq.push(QE(0, C * (N + 1) + N));
            long goal = -1;
            while (!pq.empty()) {
                QE t = pq.top(); pq.pop();
                if (t.first > dist[t.second]) continue;
                size_t v = t.second / (N + 1), p = t.second % (N + 1);
                if (v == C + 1) { goal = (long) t.second; best = t.first; break; }
                for (size_t w = 0; w < N; ++w) if (w != v && vis[v][w]) {
                    double cst = len(v, w);
                    if (p != N && area2L(V[p], V[v], V[w]) != 0) cst += penalty;
                    else if (p != N) {      // collinear: straight on is free, doubling back is a bend
                        i64 dot = (V[v].x - V[p].x) * (V[w].x - V[v].x) + (V[v].y - V[p].y) * (V[w].y - V[v].y);
                        if (dot < 0) cst += penalty;
                    }
                    size_t ns = w * (N + 1) + v;
                    if (t.first + cst < dist[ns]) { dist[ns] = t.first + cst; prev[ns] = (long) t.second; pq.push(QE(dist[ns], ns)); }
                }
            }
            for (long st = goal; st >= 0; st = prev[st]) path.push_back((size_t) st / (N + 1));
            std::reverse(path.begin(), path.end());
        }
        printf("wit %u %zu", c.id, path.size());
        for (size_t i = 0; i < path.size(); ++i) printf(" %zu", path[i]);
        printf("\n");
        printf("oracle %u %s\n", c.id, vh::hx(best).c_str());
    }
}

// one case: inputs, libavoid run, oracle certificate
static void runCase(long k, const std::string &tag, const vs::Scene &s, const std::vector<ConnSpec> &cs, bool lee, double penalty, bool ignoreRegions) {
    vh::beginCase(k, tag.c_str());
    printf("cfg lee %d penalty %s ignoreRegions %d\n", (int) lee, vh::hx(penalty).c_str(), (int) ignoreRegions);
    for (size_t i = 0; i < s.shapes.size(); ++i) vs::printShape((unsigned) (i + 1), s.shapes[i]);
    for (auto &c : cs) printf("conn %u %s %s %s %s\n", c.id, vh::hx(c.sx).c_str(), vh::hx(c.sy).c_str(), vh::hx(c.dx).c_str(), vh::hx(c.dy).c_str());
    fflush(stdout);
    // ---- libavoid
    Router *router = new Router(PolyLineRouting);
    router->UseLeesAlgorithm = lee;
    router->IgnoreRegions = ignoreRegions;
    router->setRoutingParameter(segmentPenalty, penalty);       // every other penalty is 0 by default
    for (size_t i = 0; i < s.shapes.size(); ++i) { Polygon p = vs::toAvoid(s.shapes[i]); new ShapeRef(router, p, (unsigned) (i + 1)); }
    std::vector<ConnRef *> crs;
    for (auto &c : cs) crs.push_back(new ConnRef(router, ConnEnd(Point(c.sx, c.sy)), ConnEnd(Point(c.dx, c.dy)), c.id));
    router->processTransaction();
    for (size_t i = 0; i < crs.size(); ++i) {
        vs::printPts("route", cs[i].id, crs[i]->route().ps);
        vs::printPts("display", cs[i].id, crs[i]->displayRoute().ps);
    }
    delete router;
    emitOracle(s.shapes, cs, penalty);
    vh::endCase();
}

// ---- edit histories: the router stays alive over several transactions; one obstacle is deleted or moved
//      per transaction, and after EVERY transaction the routes are dumped together with an oracle
//      certificate for the *current* scene.  Each transaction is its own case (index kbase + step), so the
//      driver judges a snapshot exactly like a static scene; `--only K` re-runs the history up to that step.
struct EditOp {
    int kind;           // 0 deleteShape, 1 moveShape(dx, dy), 2 add a small rectangle across a segment of the current
                        // route of connector `conn`, 3 move shape `shape` across such a segment
    size_t shape; double dx, dy;
    size_t conn; int segsel;        // kinds 2/3: which segment: 0 first, 1 a middle one, 2 last, 3 any
};
static EditOp staticOp(int kind, size_t shape, double dx, double dy) { EditOp o; o.kind = kind; o.shape = shape; o.dx = dx; o.dy = dy; o.conn = 0; o.segsel = 3; return o; }
static EditOp acrossOp(int kind, size_t shape, size_t conn, int segsel) { EditOp o; o.kind = kind; o.shape = shape; o.dx = o.dy = 0; o.conn = conn; o.segsel = segsel; return o; }

static vs::DPoly rectD(double lx, double ly, double hx, double hy) {
    vs::DPoly q; q.push_back(Point(hx, ly)); q.push_back(Point(hx, hy)); q.push_back(Point(lx, hy)); q.push_back(Point(lx, ly)); return q;
}

// Find an axis-parallel rectangle (half sizes hw, hh; <= 0: random) that crosses exactly the chosen segment of
// `route`, keeps a gap >= 1 to every shape in `others`, and stays clear of every connector endpoint.
static bool placeAcross(vh::Rng &r, const std::vector<Point> &route, int segsel, const std::vector<vs::DPoly> &others,
                        const std::vector<ConnSpec> &cs, double hw0, double hh0, vs::DPoly &out, size_t &segOut) {
    if (route.size() < 2) return false;
    size_t n = route.size() - 1;
    const double sizes[] = {0.5, 1, 1.5, 2, 3};
    for (int t = 0; t < 80; ++t) {
        size_t seg = (segsel == 0) ? 0 : (segsel == 2) ? n - 1 : (segsel == 1 && n >= 3) ? (size_t) r.range(1, (long) n - 2) : (size_t) r.range(0, (long) n - 1);
        double hw = hw0 > 0 ? hw0 : sizes[r.range(0, 4)], hh = hh0 > 0 ? hh0 : sizes[r.range(0, 4)];
        const Point &p = route[seg], &q = route[seg + 1];
        double u = r.range(20, 80) / 100.0;
        double cx = std::floor((p.x + u * (q.x - p.x)) * 8 + 0.5) / 8 + r.range(-4, 4) / 8.0 * hw / 2;
        double cy = std::floor((p.y + u * (q.y - p.y)) * 8 + 0.5) / 8 + r.range(-4, 4) / 8.0 * hh / 2;
        cx = std::floor(cx * 8 + 0.5) / 8; cy = std::floor(cy * 8 + 0.5) / 8;
        vs::DPoly R = rectD(cx - hw, cy - hh, cx + hw, cy + hh), Rg = rectD(cx - hw - 1, cy - hh - 1, cx + hw + 1, cy + hh + 1);
        std::vector<LPt> RL; for (auto &v : R) RL.push_back(toL(v.x, v.y));
        bool ok = true;
        for (size_t i = 0; i < n && ok; ++i) {
            bool hit = segHitsInteriorL(RL, toL(route[i].x, route[i].y), toL(route[i + 1].x, route[i + 1].y));
            if (hit != (i == seg)) ok = false;
        }
        for (size_t i = 0; i < others.size() && ok; ++i) if (!vs::interiorDisjointD(Rg, others[i])) ok = false;
        for (auto &c : cs) if (ok && (vs::inClosedD(R, c.sx, c.sy, 0.5) || vs::inClosedD(R, c.dx, c.dy, 0.5))) ok = false;
        if (ok) { out = R; segOut = seg; return true; }
    }
    return false;
}

static void runHistory(vh::Rng &r, const vh::Args &a, long kbase, const std::string &tag, const vs::Scene &s0, const std::vector<ConnSpec> &cs,
                       bool lee, double penalty, bool ignoreRegions, bool invis, const std::vector<EditOp> &ops) {
    long last = kbase + (long) ops.size();
    if (a.only >= 0 && (a.only < kbase || a.only > last)) return;
    std::vector<vs::DPoly> cur = s0.shapes;
    std::vector<char> alive(cur.size(), 1);
    Router *router = new Router(PolyLineRouting);
    router->UseLeesAlgorithm = lee;
    router->IgnoreRegions = ignoreRegions;
    router->InvisibilityGrph = invis;
    router->setRoutingParameter(segmentPenalty, penalty);
    std::vector<ShapeRef *> refs;
    for (size_t i = 0; i < cur.size(); ++i) { Polygon p = vs::toAvoid(cur[i]); refs.push_back(new ShapeRef(router, p, (unsigned) (i + 1))); }
    std::vector<ConnRef *> crs;
    for (auto &c : cs) crs.push_back(new ConnRef(router, ConnEnd(Point(c.sx, c.sy)), ConnEnd(Point(c.dx, c.dy)), c.id));
    std::string histLine;
    for (size_t step = 0; step <= ops.size(); ++step) {
        long k = kbase + (long) step;
        EditOp op = staticOp(0, 0, 0, 0);
        vs::DPoly added;
        if (step > 0) {
            op = ops[step - 1];
            char buf[200];
            if (op.kind == 2 || op.kind == 3) {       // resolve against the current route of the connector
                std::vector<vs::DPoly> others;
                for (size_t i = 0; i < cur.size(); ++i) if (alive[i] && !(op.kind == 3 && i == op.shape)) others.push_back(cur[i]);
                double hw = 0, hh = 0, ocx = 0, ocy = 0;
                if (op.kind == 3) {
                    double lx = 1e300, hx = -1e300, ly = 1e300, hy = -1e300;
                    for (auto &v : cur[op.shape]) { lx = std::min(lx, v.x); hx = std::max(hx, v.x); ly = std::min(ly, v.y); hy = std::max(hy, v.y); }
                    hw = (hx - lx) / 2; hh = (hy - ly) / 2; ocx = (hx + lx) / 2; ocy = (hy + ly) / 2;
                }
                size_t seg = 0;
                const std::vector<Point> &rt = crs[op.conn]->route().ps;
                if (!placeAcross(r, rt, op.segsel, others, cs, hw, hh, added, seg)) break;     // no room: the history ends here
                if (op.kind == 2) {
                    op.shape = cur.size();
                    snprintf(buf, sizeof buf, " | add %zu across segment %zu/%zu of conn %u", op.shape + 1, seg + 1, rt.size() - 1, cs[op.conn].id);
                    cur.push_back(added); alive.push_back(1); refs.push_back(nullptr);
                } else {
                    op.dx = (added[0].x + added[2].x) / 2 - ocx; op.dy = (added[0].y + added[2].y) / 2 - ocy;
                    snprintf(buf, sizeof buf, " | move %zu %s %s across segment %zu/%zu of conn %u", op.shape + 1, vh::hx(op.dx).c_str(), vh::hx(op.dy).c_str(),
                             seg + 1, rt.size() - 1, cs[op.conn].id);
                    for (auto &v : cur[op.shape]) { v.x += op.dx; v.y += op.dy; }
                }
            }
            else if (op.kind == 0) { snprintf(buf, sizeof buf, " | delete %zu", op.shape + 1); alive[op.shape] = 0; }
            else { snprintf(buf, sizeof buf, " | move %zu %s %s", op.shape + 1, vh::hx(op.dx).c_str(), vh::hx(op.dy).c_str());
                   for (auto &v : cur[op.shape]) { v.x += op.dx; v.y += op.dy; } }
            histLine += buf;
        }
        bool emit = a.want(k);
        std::vector<vs::DPoly> now;
        for (size_t i = 0; i < cur.size(); ++i) if (alive[i]) now.push_back(cur[i]);
        if (emit) {     // inputs of this snapshot first
            std::string tg = tag;
            if (!tg.empty() && tg[tg.size() - 1] == '*') {      // per-snapshot tag: degenerate (collinear) scenes apart
                tg.erase(tg.size() - 1);
                std::vector<Point> eps; for (auto &c : cs) { eps.push_back(Point(c.sx, c.sy)); eps.push_back(Point(c.dx, c.dy)); }
                if (vs::hasCollinearTriple(now, eps)) tg += "-collinear";
                if (penalty > 0) tg += "-pen";
            }
            vh::beginCase(k, tg.c_str());
            printf("cfg lee %d penalty %s ignoreRegions %d invis %d\n", (int) lee, vh::hx(penalty).c_str(), (int) ignoreRegions, (int) invis);
            printf("hist step %zu of %zu : initial%s\n", step, ops.size(), histLine.c_str());
            for (size_t i = 0; i < cur.size(); ++i) if (alive[i]) vs::printShape((unsigned) (i + 1), cur[i]);
            for (auto &c : cs) printf("conn %u %s %s %s %s\n", c.id, vh::hx(c.sx).c_str(), vh::hx(c.sy).c_str(), vh::hx(c.dx).c_str(), vh::hx(c.dy).c_str());
            fflush(stdout);
        }
        if (step > 0) {
            if (op.kind == 0) router->deleteShape(refs[op.shape]);
            else if (op.kind == 2) { Polygon p = vs::toAvoid(cur[op.shape]); refs[op.shape] = new ShapeRef(router, p, (unsigned) (op.shape + 1)); }
            else router->moveShape(refs[op.shape], op.dx, op.dy);
        }
        router->processTransaction();
        if (emit) {
            for (size_t i = 0; i < crs.size(); ++i) {
                vs::printPts("route", cs[i].id, crs[i]->route().ps);
                vs::printPts("display", cs[i].id, crs[i]->displayRoute().ps);
            }
            emitOracle(now, cs, penalty);
            vh::endCase();
        }
    }
    delete router;
}

int main(int argc, char **argv) {
    vh::Args a = vh::parseArgs(argc, argv);
    bool thorough = (a.tier == "thorough");
    long nrand = (thorough ? 500 : 150) * a.scale;
    if (a.n >= 0) nrand = a.n;
    for (long k = 0; k < nrand; ++k) {
        if (!a.want(k)) continue;
        vh::Rng r = vh::caseRng(a.seed, k);
        bool generic = r.coin(1, 2);
        bool lee = r.coin(4, 5);
        // segment penalty: 0 (two-sided certified comparison), integers, and fractional values (a search that
        // rounds the per-bend charge would only show on those)
        double penalty = std::vector<double>{0, 0, 0, 0, 5, 50, 0.5, 1.5, 2.75, 11.5}[r.range(0, 9)];
        // IgnoreRegions (default true) prunes visibility edges that no *Euclidean* shortest path uses; with a
        // bend penalty such edges can be part of the optimum, so penalty > 0 is run with both settings
        bool ignoreRegions = (penalty == 0) ? r.coin(3, 4) : r.coin(1, 2);
        vs::SceneOpts so;
        so.nShapesMin = 1; so.nShapesMax = thorough ? (r.coin(1, 6) ? 20 : 10) : 8;
        so.margin = 1; so.rectPct = 50; so.fullCellPct = 25; so.jitter = generic;
        vs::Scene s = vs::genScene(r, so);
        std::vector<vs::DPoly> rp = vs::routingPolys(s, 0);
        int nconn = (int) r.range(2, thorough ? 8 : 5);
        std::vector<ConnSpec> cs;
        bool hug = r.coin(1, 3);
        for (int i = 0; i < nconn; ++i) {
            ConnSpec c; c.id = 101 + i;
            double clear = generic ? 0.25 : 0.0;
            if (hug && r.coin(2, 3)) { if (!vs::hugPoint(r, s, rp, clear, c.sx, c.sy) || !vs::hugPoint(r, s, rp, clear, c.dx, c.dy)) continue; }
            else if (!vs::freePoint(r, s, rp, clear, c.sx, c.sy, r.coin(1, 3)) || !vs::freePoint(r, s, rp, clear, c.dx, c.dy, r.coin(1, 3))) continue;
            if (generic) { c.sx += r.range(-7, 7) / 64.0; c.sy += r.range(-7, 7) / 64.0; c.dx += r.range(-7, 7) / 64.0; c.dy += r.range(-7, 7) / 64.0; }
            if (c.sx == c.dx && c.sy == c.dy) continue;
            cs.push_back(c);
        }
        if (cs.empty()) { vh::beginCase(k, "empty"); vh::endCase(); continue; }
        std::vector<Point> eps;
        for (auto &c : cs) { eps.push_back(Point(c.sx, c.sy)); eps.push_back(Point(c.dx, c.dy)); }
        bool degenerate = vs::hasCollinearTriple(rp, eps);
        std::string tag = degenerate ? (lee ? "lee-collinear" : "naive-vis-collinear") : (lee ? "generic-lee" : "generic-naive");
        if (penalty > 0) tag += ignoreRegions ? "-pen-pruned" : "-pen-full";
        runCase(k, tag, s, cs, lee, penalty, ignoreRegions);
    }
    // ---- aligned-sides class (strict): 2..4 separated rectangles in a row (or column) with one side on a
    //      common line, every insertion order, endpoints beyond both ends of the row and slightly on the
    //      obstacle side of the line, so that the optimum runs along the common line past all of them.
    long k = nrand;
    long nal = (thorough ? 120 : 40) * a.scale;
    for (long c = 0; c < nal; ++c, ++k) {
        if (!a.want(k)) continue;
        vh::Rng r = vh::caseRng(a.seed, k, 11);
        int nb = (int) r.range(2, 4);
        bool column = r.coin();             // boxes stacked along y (shared x line) instead of along x
        bool lowSide = r.coin();            // shared line is the low (min) side of the boxes, else the high side
        double penalty = std::vector<double>{0, 0, 0, 5, 50, 1.5, 11.5}[r.range(0, 6)];
        bool ignoreRegions = r.coin(4, 5);
        long U = r.range(1, 3);             // scale
        long line = r.range(0, 6);
        std::vector<vs::IPoly> boxes;
        long pos = r.range(0, 4), minExt = 1000;
        for (int i = 0; i < nb; ++i) {
            long w = r.range(3, 12), h = r.range(5, 12);
            minExt = std::min(minExt, h);
            long a0 = pos, a1 = pos + w, b0 = lowSide ? line : line - h, b1 = lowSide ? line + h : line;
            boxes.push_back(column ? vs::rectPoly(b0 * U, a0 * U, b1 * U, a1 * U) : vs::rectPoly(a0 * U, b0 * U, a1 * U, b1 * U));
            pos = a1 + r.range(1, 12);      // gap >= 1
        }
        long endPos = pos;                  // beyond the last box
        long t = r.range(1, std::min(3L, minExt - 2));          // offset of the endpoints from the line, towards the boxes
        long off = lowSide ? line + t : line - t;
        long s0 = -r.range(2, 8), s1 = endPos + r.range(1, 7);
        ConnSpec cn; cn.id = 101;
        bool flip = r.coin();
        double ax = (double) ((flip ? s1 : s0) * U), bx = (double) ((flip ? s0 : s1) * U), o = (double) (off * U);
        if (column) { cn.sx = o; cn.sy = ax; cn.dx = o; cn.dy = bx; } else { cn.sx = ax; cn.sy = o; cn.dx = bx; cn.dy = o; }
        std::vector<size_t> order; for (int i = 0; i < nb; ++i) order.push_back((size_t) i);
        r.shuffle(order);
        vs::Scene s; s.W = endPos * U; s.H = 20 * U;
        for (size_t i = 0; i < order.size(); ++i) { s.shapes.push_back(vs::toD(boxes[order[i]])); s.isRect.push_back(true); }
        std::vector<ConnSpec> cs; cs.push_back(cn);
        if (r.coin(1, 3)) {                 // a second connector in the other direction / other offset
            ConnSpec c2 = cn; c2.id = 102; std::swap(c2.sx, c2.dx); std::swap(c2.sy, c2.dy); cs.push_back(c2);
        }
        runCase(k, penalty > 0 ? "aligned-sides-pen" : "aligned-sides", s, cs, true, penalty, ignoreRegions);
    }
    // ---- fractional-onebox class (strict): one rectangle, two competing routes: over the box with 1 bend
    //      (length L1) and under it with 2 bends (length L2 < L1); the box bottom is tuned so that
    //      floor(p) < L1 - L2 < p for a fractional segment penalty p, i.e. the 1-bend route is the optimum
    //      of length + p*bends while the 2-bend route would win with the per-bend charge rounded down.
    long nfr = (thorough ? 100 : 30) * a.scale;
    for (long c = 0; c < nfr; ++c, ++k) {
        if (!a.want(k)) continue;
        vh::Rng r = vh::caseRng(a.seed, k, 13);
        double pen = std::vector<double>{0.5, 0.9, 1.5, 2.75, 11.5}[r.range(0, 4)];
        double fl = std::floor(pen), fr = pen - fl;
        bool found = false;
        double bx0 = 0, bx1 = 0, T = 0, B = 0, dx = 0, dy = 0;
        for (int tries = 0; tries < 200 && !found; ++tries) {
            bx0 = (double) r.range(20, 60); bx1 = bx0 + (double) r.range(10, 40); T = (double) r.range(15, 70);
            dx = bx1 + (double) r.range(60, 160); dy = T + (double) r.range(5, 25);
            double L1 = std::hypot(bx0, T) + std::hypot(dx - bx0, dy - T);
            std::vector<double> ok;
            for (int q = 1; q < 1600; ++q) {
                double b = -q / 8.0;
                double L2 = std::hypot(bx0, b) + (bx1 - bx0) + std::hypot(dx - bx1, dy - b);
                double d = L1 - L2;
                if (d > fl + 0.15 * fr && d < pen - 0.15 * fr) ok.push_back(b);
                if (d < fl) break;
            }
            if (!ok.empty()) { B = r.pick(ok); found = true; }
        }
        if (!found) { vh::beginCase(k, "empty"); vh::endCase(); continue; }
        bool mx = r.coin(), my = r.coin(), tr = r.coin();
        auto X = [&](double x, double y, double &ox, double &oy) { if (mx) x = -x; if (my) y = -y; if (tr) std::swap(x, y); ox = x; oy = y; };
        double x0, y0, x1, y1; X(bx0, B, x0, y0); X(bx1, T, x1, y1);
        vs::Scene s; s.W = 300; s.H = 300;
        vs::DPoly box;      // counter-clockwise, Avoid::Rectangle vertex order
        double lx = std::min(x0, x1), hx = std::max(x0, x1), ly = std::min(y0, y1), hy = std::max(y0, y1);
        box.push_back(Point(hx, ly)); box.push_back(Point(hx, hy)); box.push_back(Point(lx, hy)); box.push_back(Point(lx, ly));
        s.shapes.push_back(box); s.isRect.push_back(true);
        ConnSpec cn; cn.id = 101; X(0, 0, cn.sx, cn.sy); X(dx, dy, cn.dx, cn.dy);
        if (r.coin()) { std::swap(cn.sx, cn.dx); std::swap(cn.sy, cn.dy); }
        std::vector<ConnSpec> cs; cs.push_back(cn);
        runCase(k, "fractional-onebox", s, cs, true, pen, r.coin(3, 4));
    }
    // ---- edit-history classes.  Every history reserves HSLOT case indices (one per transaction).
    const long HSLOT = 6;
    long nhA = (thorough ? 100 : 28) * a.scale, nhB = (thorough ? 60 : 14) * a.scale;
    // family A ("edit-history"): source and target on a line; 2..3 blockers across that line and 1..3
    // bystanders beside it, every shape in its own slot along the line; the blockers are taken out of the
    // way one per transaction (deleted, moved far away, or moved aside), in random order.
    for (long h = 0; h < nhA; ++h, k += HSLOT) {
        if (a.only >= 0 && (a.only < k || a.only >= k + HSLOT)) continue;
        vh::Rng r = vh::caseRng(a.seed, k, 17);
        bool generic = r.coin(1, 2);
        double penalty = std::vector<double>{0, 0, 0, 5, 50, 1.5}[r.range(0, 5)];
        bool invis = r.coin(5, 6), ignoreRegions = r.coin(4, 5);
        int nBlock = (int) r.range(2, 3), nBy = (int) r.range(1, 3);
        std::vector<int> role; for (int i = 0; i < nBlock; ++i) role.push_back(1); for (int i = 0; i < nBy; ++i) role.push_back(0);
        r.shuffle(role);
        auto J = [&]() { return generic ? r.range(-15, 15) / 64.0 : 0.0; };
        struct Box { double x0, y0, x1, y1; };
        std::vector<Box> boxes; std::vector<size_t> blockers;
        double x = (double) r.range(4, 12);
        for (size_t i = 0; i < role.size(); ++i) {
            double w = (double) r.range(6, 20);
            Box b; b.x0 = x + J(); b.x1 = x + w + J();
            if (role[i]) { b.y0 = -(double) r.range(3, 30) + J(); b.y1 = (double) r.range(3, 30) + J(); blockers.push_back(i); }
            else { double c0 = (double) r.range(4, 40), hh = (double) r.range(4, 30); if (r.coin()) { b.y0 = c0 + J(); b.y1 = c0 + hh + J(); } else { b.y1 = -c0 + J(); b.y0 = -c0 - hh + J(); } }
            boxes.push_back(b);
            x += w + (double) r.range(2, 15);
        }
        double L = x + (double) r.range(2, 10);
        bool mx = r.coin(), my = r.coin(), tr = r.coin();
        auto X = [&](double px, double py, double &ox, double &oy) { if (mx) px = L - px; if (my) py = -py; if (tr) std::swap(px, py); ox = px; oy = py; };
        vs::Scene s; s.W = (long) L; s.H = 100;
        for (auto &b : boxes) {
            double ax, ay, bx, by; X(b.x0, b.y0, ax, ay); X(b.x1, b.y1, bx, by);
            double lx = std::min(ax, bx), hx = std::max(ax, bx), ly = std::min(ay, by), hy = std::max(ay, by);
            vs::DPoly q; q.push_back(Point(hx, ly)); q.push_back(Point(hx, hy)); q.push_back(Point(lx, hy)); q.push_back(Point(lx, ly));
            s.shapes.push_back(q); s.isRect.push_back(true);
        }
        ConnSpec cn; cn.id = 101; X(0, J() / 2, cn.sx, cn.sy); X(L, J() / 2, cn.dx, cn.dy);
        if (r.coin()) { std::swap(cn.sx, cn.dx); std::swap(cn.sy, cn.dy); }
        std::vector<ConnSpec> cs; cs.push_back(cn);
        // operations: each blocker leaves the line, one per transaction
        r.shuffle(blockers);
        std::vector<EditOp> ops;
        for (size_t q = 0; q < blockers.size(); ++q) {
            size_t bi = blockers[q]; const Box &b = boxes[bi];
            int how = (int) r.range(0, 2);
            EditOp op = staticOp(0, bi, 0, 0);
            if (how == 0) op.kind = 0;
            else {
                op.kind = 1;
                double py = (how == 1) ? (double) (1000 + 500 * (long) q) * (r.coin() ? 1 : -1)             // far away
                                       : (r.coin() ? (-b.y0 + (double) r.range(1, 10)) : (-b.y1 - (double) r.range(1, 10)));   // just aside
                double ox, oy; double zx, zy; X(0, py, ox, oy); X(0, 0, zx, zy); op.dx = ox - zx; op.dy = oy - zy;
            }
            ops.push_back(op);
        }
        if (nBy >= 2 && r.coin(1, 3)) {     // finally remove one bystander too
            for (size_t i = 0; i < role.size(); ++i) if (!role[i]) { ops.push_back(staticOp(0, i, 0, 0)); break; }
        }
        // then put something back across the (by now usually straight) route: a new small rectangle, or a bystander
        if (r.coin(1, 2)) {
            ops.push_back(acrossOp(2, 0, 0, (int) r.range(0, 3)));
            if (r.coin(1, 3)) ops.push_back(acrossOp(2, 0, 0, (int) r.range(0, 3)));
        }
        while ((long) ops.size() > HSLOT - 1) ops.pop_back();
        runHistory(r, a, k, penalty > 0 ? "edit-history-pen" : "edit-history", s, cs, true, penalty, ignoreRegions, invis, ops);
    }
    // family B ("edit-history-random"): separated grid scenes (integer or jittered), 1..3 connectors; 2..4
    // transactions each deleting or moving far away one remaining shape, preferably one that crosses the
    // straight line of a connector.
    for (long h = 0; h < nhB; ++h, k += HSLOT) {
        if (a.only >= 0 && (a.only < k || a.only >= k + HSLOT)) continue;
        vh::Rng r = vh::caseRng(a.seed, k, 19);
        bool generic = r.coin(1, 2);
        double penalty = std::vector<double>{0, 0, 0, 5, 50}[r.range(0, 4)];
        bool invis = r.coin(5, 6), ignoreRegions = r.coin(4, 5);
        vs::SceneOpts so; so.nShapesMin = 3; so.nShapesMax = thorough ? 10 : 7; so.margin = 1; so.rectPct = 60; so.jitter = generic;
        vs::Scene s = vs::genScene(r, so);
        std::vector<vs::DPoly> rp = vs::routingPolys(s, 0);
        std::vector<ConnSpec> cs;
        int nconn = (int) r.range(1, 3);
        for (int i = 0; i < nconn; ++i) {
            ConnSpec c; c.id = 101 + i; double clear = generic ? 0.25 : 0.0;
            if (!vs::freePoint(r, s, rp, clear, c.sx, c.sy, false) || !vs::freePoint(r, s, rp, clear, c.dx, c.dy, false)) continue;
            if (generic) { c.sx += r.range(-7, 7) / 64.0; c.sy += r.range(-7, 7) / 64.0; c.dx += r.range(-7, 7) / 64.0; c.dy += r.range(-7, 7) / 64.0; }
            if (c.sx == c.dx && c.sy == c.dy) continue;
            cs.push_back(c);
        }
        if (cs.empty() || s.shapes.size() < 3) continue;
        std::vector<char> gone(s.shapes.size(), 0);
        std::vector<EditOp> ops;
        int nops = (int) r.range(2, 4);
        for (int q = 0; q < nops; ++q) {
            std::vector<size_t> rem, crossing;
            for (size_t i = 0; i < s.shapes.size(); ++i) if (!gone[i]) {
                rem.push_back(i);
                std::vector<LPt> poly; for (auto &v : s.shapes[i]) poly.push_back(toL(v.x, v.y));
                for (auto &c : cs) if (segHitsInteriorL(poly, toL(c.sx, c.sy), toL(c.dx, c.dy))) { crossing.push_back(i); break; }
            }
            if (rem.size() <= 1) break;
            size_t pick = (!crossing.empty() && r.coin(3, 4)) ? r.pick(crossing) : r.pick(rem);
            EditOp op = staticOp((int) r.range(0, 1), pick, 0, 0); op.dy = (op.kind == 1) ? (double) (1000 + 300 * q) : 0;
            gone[pick] = 1;
            ops.push_back(op);
        }
        bool degenerate = false;
        { std::vector<Point> eps; for (auto &c : cs) { eps.push_back(Point(c.sx, c.sy)); eps.push_back(Point(c.dx, c.dy)); } degenerate = vs::hasCollinearTriple(rp, eps); }
        std::string tag = std::string("edit-history-random") + (degenerate ? "-collinear" : "") + (penalty > 0 ? "-pen" : "");
        runHistory(r, a, k, tag, s, cs, true, penalty, ignoreRegions, invis, ops);
    }
    // family C ("edit-history-add"): sparse separated scenes; after the initial routing 1..4 transactions each ADD a small
    // rectangle, or MOVE an existing rectangle, across exactly one chosen segment of the current route of a connector
    // (first / middle / last / the only segment of a straight route).
    long nhC = (thorough ? 120 : 30) * a.scale;
    for (long h = 0; h < nhC; ++h, k += HSLOT) {
        if (a.only >= 0 && (a.only < k || a.only >= k + HSLOT)) continue;
        vh::Rng r = vh::caseRng(a.seed, k, 23);
        bool generic = r.coin(1, 2);
        double penalty = std::vector<double>{0, 0, 0, 0, 5, 50, 1.5}[r.range(0, 6)];
        bool invis = r.coin(7, 8), ignoreRegions = r.coin(4, 5);
        vs::SceneOpts so; so.nShapesMin = 1; so.nShapesMax = 5; so.margin = 2; so.rectPct = 75; so.jitter = generic; so.fullCellPct = 10;
        vs::Scene g = vs::genScene(r, so);
        vs::Scene s; s.W = g.W * 3; s.H = g.H * 3;
        for (size_t i = 0; i < g.shapes.size(); ++i) { vs::DPoly q = g.shapes[i]; for (auto &v : q) { v.x *= 3; v.y *= 3; } s.shapes.push_back(q); s.isRect.push_back(g.isRect[i]); }
        std::vector<vs::DPoly> rp = vs::routingPolys(s, 0);
        std::vector<ConnSpec> cs;
        int nconn = (int) r.range(1, 2);
        for (int i = 0; i < nconn; ++i) {
            ConnSpec c; c.id = 101 + i;
            if (!vs::freePoint(r, s, rp, 1.0, c.sx, c.sy, false) || !vs::freePoint(r, s, rp, 1.0, c.dx, c.dy, false)) continue;
            if (generic) { c.sx += r.range(-7, 7) / 64.0; c.sy += r.range(-7, 7) / 64.0; c.dx += r.range(-7, 7) / 64.0; c.dy += r.range(-7, 7) / 64.0; }
            if (std::fabs(c.sx - c.dx) + std::fabs(c.sy - c.dy) < 8) continue;
            cs.push_back(c);
        }
        if (cs.empty()) continue;
        std::vector<size_t> rects; for (size_t i = 0; i < s.shapes.size(); ++i) if (s.isRect[i] && !generic) rects.push_back(i);
        std::vector<EditOp> ops;
        int nops = (int) r.range(1, 4);
        for (int q = 0; q < nops; ++q) {
            size_t conn = (size_t) r.range(0, (long) cs.size() - 1);
            int segsel = (int) r.range(0, 3);
            if (!rects.empty() && r.coin(1, 3)) { size_t pick = r.pick(rects); ops.push_back(acrossOp(3, pick, conn, segsel)); }
            else ops.push_back(acrossOp(2, 0, conn, segsel));
        }
        runHistory(r, a, k, "edit-history-add*", s, cs, true, penalty, ignoreRegions, invis, ops);
    }
    return 0;
}
