// C04 harness: polyline routes are Euclidean shortest paths (penalties 0), resp. minimise
// length + segmentPenalty * bends.
// One case = one scene of separated convex obstacles (gap >= 1 between cells' shapes, integer grid or
// jittered into general position, coordinates multiples of 1/64), 2..8 polyline connectors, one
// segment penalty in {0, 5, 50}.  Inputs first, then libavoid's routes, then an (untrusted) oracle
// certificate per connector computed here with exact integer visibility tests and a double Dijkstra:
//   cert <conn> <V> pi_0 .. pi_{V-1}   potential over the vertices (corners in shape order, then src, dst)
//                                      (penalty 0 only; scaled by (1 - 1e-10) so that it is exactly feasible)
//   wit  <conn> <m> i_0 .. i_{m-1}     witness path (vertex indices) of the oracle optimum
//   oracle <conn> <cost>               oracle optimum (length + penalty * bends), double, unverified
// The Lean driver rebuilds the spec visibility graph itself and verifies potential and witness.
#include "avoid_scene.h"
#include "c04_own.h"
#include <queue>
#include <limits>
using namespace Avoid;

typedef long long i64;
struct LPt { i64 x, y; };       // coordinates * 64

static i64 area2L(const LPt &a, const LPt &b, const LPt &c) { return (b.x - a.x) * (c.y - a.y) - (c.x - a.x) * (b.y - a.y); }

// exact: does the closed segment pq contain a point strictly inside the CCW convex polygon?
static bool segHitsInteriorL(const std::vector<LPt> &poly, const LPt &p, const LPt &q) {
    size_t n = poly.size();
    std::vector<i64> c(n), d(n);
    bool inP = true, inQ = true;
    for (size_t i = 0; i < n; ++i) {
        c[i] = area2L(poly[i], poly[(i + 1) % n], p);
        i64 cq = area2L(poly[i], poly[(i + 1) % n], q);
        d[i] = cq - c[i];
        if (c[i] <= 0) inP = false;
        if (cq <= 0) inQ = false;
        if (c[i] <= 0 && cq <= 0) return false;
    }
    if (inP || inQ) return true;
    // open interval (lo, hi) as fractions ln/ld, hn/hd with positive denominators
    __int128 ln = 0, ld = 1, hn = 1, hd = 1;
    for (size_t i = 0; i < n; ++i) {
        if (d[i] > 0) { __int128 bn = -c[i], bd = d[i]; if (ln * bd < bn * ld) { ln = bn; ld = bd; } }       // t > -c/d
        else if (d[i] < 0) { __int128 bn = c[i], bd = -d[i]; if (bn * hd < hn * bd) { hn = bn; hd = bd; } }   // t < c/(-d)
        else if (c[i] <= 0) return false;
    }
    return ln * hd < hn * ld;
}

struct ConnSpec { unsigned id; double sx, sy, dx, dy; };

static LPt toL(double x, double y) { return LPt{(i64) llround(x * 64), (i64) llround(y * 64)}; }

// oracle (untrusted): exact visibility, Dijkstra in doubles, on the given (current) shapes
struct OracleRes { double best; std::vector<size_t> path; bool throughCorner; };
static std::vector<OracleRes> emitOracle(const std::vector<vs::DPoly> &shapesNow, const std::vector<ConnSpec> &cs, double penalty, bool emit = true) {
    std::vector<OracleRes> results;
    std::vector<std::vector<LPt> > polys;
    std::vector<LPt> V; std::vector<Point> VD;
    for (auto &p : shapesNow) { std::vector<LPt> q; for (auto &v : p) { q.push_back(toL(v.x, v.y)); V.push_back(q.back()); VD.push_back(v); } polys.push_back(q); }
    size_t C = V.size(), N = C + 2;
    V.resize(N); VD.resize(N);
    auto visible = [&](size_t i, size_t j) {
        for (auto &q : polys) if (segHitsInteriorL(q, V[i], V[j])) return false;
        return true;
    };
    std::vector<std::vector<char> > vis(N, std::vector<char>(N, 0));
    for (size_t i = 0; i < C; ++i) for (size_t j = i + 1; j < C; ++j) vis[i][j] = vis[j][i] = visible(i, j);
    auto len = [&](size_t i, size_t j) { double dx = VD[i].x - VD[j].x, dy = VD[i].y - VD[j].y; return std::sqrt(dx * dx + dy * dy); };
    const double INF = std::numeric_limits<double>::infinity();
    for (auto &c : cs) {
        V[C] = toL(c.sx, c.sy); VD[C] = Point(c.sx, c.sy); V[C + 1] = toL(c.dx, c.dy); VD[C + 1] = Point(c.dx, c.dy);
        for (size_t e = C; e < N; ++e) for (size_t j = 0; j < N; ++j) if (j != e) vis[e][j] = vis[j][e] = visible(e, j);
        std::vector<size_t> path;
        double best = INF;
        if (penalty == 0) {
            std::vector<double> dist(N, INF); std::vector<long> prev(N, -1); std::vector<char> done(N, 0);
            dist[C] = 0;
            for (size_t it = 0; it < N; ++it) {
                size_t u = N; for (size_t i = 0; i < N; ++i) if (!done[i] && dist[i] < INF && (u == N || dist[i] < dist[u])) u = i;
                if (u == N) break;
                done[u] = 1;
                for (size_t w = 0; w < N; ++w) if (w != u && vis[u][w]) { double nd = dist[u] + len(u, w); if (nd < dist[w]) { dist[w] = nd; prev[w] = (long) u; } }
            }
            best = dist[C + 1];
            if (emit) {
                printf("cert %u %zu", c.id, N);
                for (size_t i = 0; i < N; ++i) printf(" %s", vh::hx(dist[i] < INF ? dist[i] * (1.0 - 1e-10) : 0.0).c_str());
                printf("\n");
            }
            if (best < INF) for (long v = (long) C + 1; v >= 0; v = prev[v]) path.push_back((size_t) v);
            std::reverse(path.begin(), path.end());
        } else {
            // states (v, p): at v having arrived from p (p = N: start)
            size_t S = N * (N + 1);
            std::vector<double> dist(S, INF); std::vector<long> prev(S, -1);
            typedef std::pair<double, size_t> QE;
            std::priority_queue<QE, std::vector<QE>, std::greater<QE> > pq;
            dist[C * (N + 1) + N] = 0; pq.push(QE(0, C * (N + 1) + N));
            long goal = -1;
            while (!pq.empty()) {
                QE t = pq.top(); pq.pop();
                if (t.first > dist[t.second]) continue;
                size_t v = t.second / (N + 1), p = t.second % (N + 1);
                if (v == C + 1) { goal = (long) t.second; best = t.first; break; }
                for (size_t w = 0; w < N; ++w) if (w != v && vis[v][w]) {
                    double cst = len(v, w);
                    if (p != N && area2L(V[p], V[v], V[w]) != 0) cst += penalty;
                    else if (p != N) {      // collinear: straight on is free, doubling back is a bend
                        i64 dot = (V[v].x - V[p].x) * (V[w].x - V[v].x) + (V[v].y - V[p].y) * (V[w].y - V[v].y);
                        if (dot < 0) cst += penalty;
                    }
                    size_t ns = w * (N + 1) + v;
                    if (t.first + cst < dist[ns]) { dist[ns] = t.first + cst; prev[ns] = (long) t.second; pq.push(QE(dist[ns], ns)); }
                }
            }
            for (long st = goal; st >= 0; st = prev[st]) path.push_back((size_t) st / (N + 1));
            std::reverse(path.begin(), path.end());
        }
        if (emit) {
            printf("wit %u %zu", c.id, path.size());
            for (size_t i = 0; i < path.size(); ++i) printf(" %zu", path[i]);
            printf("\n");
            printf("oracle %u %s\n", c.id, vh::hx(best).c_str());
        }
        OracleRes res; res.best = best; res.path = path; res.throughCorner = false;
        for (size_t i = 1; i + 1 < path.size(); ++i) if (area2L(V[path[i - 1]], V[path[i]], V[path[i + 1]]) == 0) res.throughCorner = true;
        results.push_back(res);
    }
    return results;
}

// own-graph certificates for the connectors whose route is dearer than the oracle optimum (penalty > 0)
static void emitOwn(const own::Graph &g, const std::vector<std::pair<long, long> > &ends, const std::vector<ConnSpec> &cs,
                    const std::vector<double> &implCost, const std::vector<OracleRes> &orc, double penalty, bool dumped = false) {
    if (penalty <= 0) return;
    bool any = false;
    for (size_t i = 0; i < cs.size(); ++i) if (implCost[i] > orc[i].best + 1e-7) any = true;
    if (!any) return;
    if (!dumped) own::dump(g);
    for (size_t i = 0; i < cs.size(); ++i) if (implCost[i] > orc[i].best + 1e-7) own::emitCert(g, cs[i].id, ends[i].first, ends[i].second, penalty);
}

// one case: inputs, libavoid run, oracle certificate
static void runCase(long k, const std::string &tag, const vs::Scene &s, const std::vector<ConnSpec> &cs, bool lee, double penalty, bool ignoreRegions, bool astar = false) {
    vh::beginCase(k, tag.c_str());
    printf("cfg lee %d penalty %s ignoreRegions %d\n", (int) lee, vh::hx(penalty).c_str(), (int) ignoreRegions);
    for (size_t i = 0; i < s.shapes.size(); ++i) vs::printShape((unsigned) (i + 1), s.shapes[i]);
    for (auto &c : cs) printf("conn %u %s %s %s %s\n", c.id, vh::hx(c.sx).c_str(), vh::hx(c.sy).c_str(), vh::hx(c.dx).c_str(), vh::hx(c.dy).c_str());
    fflush(stdout);
    // ---- libavoid
    Router *router = new Router(PolyLineRouting);
    router->UseLeesAlgorithm = lee;
    router->IgnoreRegions = ignoreRegions;
    router->setRoutingParameter(segmentPenalty, penalty);       // every other penalty is 0 by default
    for (size_t i = 0; i < s.shapes.size(); ++i) { Polygon p = vs::toAvoid(s.shapes[i]); new ShapeRef(router, p, (unsigned) (i + 1)); }
    std::vector<ConnRef *> crs;
    for (auto &c : cs) crs.push_back(new ConnRef(router, ConnEnd(Point(c.sx, c.sy)), ConnEnd(Point(c.dx, c.dy)), c.id));
    own::PopTap tap;
    if (astar) router->setDebugHandler(&tap);
    router->processTransaction();
    if (astar) router->setDebugHandler(nullptr);
    std::vector<double> implCost; std::vector<std::pair<long, long> > ends;
    for (size_t i = 0; i < crs.size(); ++i) {
        vs::printPts("route", cs[i].id, crs[i]->route().ps);
        vs::printPts("display", cs[i].id, crs[i]->displayRoute().ps);
        implCost.push_back(own::routeCost(crs[i]->displayRoute().ps, penalty));
    }
    own::Graph g;
    if (penalty > 0 || astar) { g = own::read(router); for (size_t i = 0; i < crs.size(); ++i) ends.push_back(std::make_pair(g.idx[crs[i]->src()], g.idx[crs[i]->dst()])); }
    delete router;
    std::vector<OracleRes> orc = emitOracle(s.shapes, cs, penalty);
    bool dumped = false;
    if (astar) {
        own::dump(g); own::dumpAdj(g); dumped = true;
        for (size_t i = 0; i < cs.size(); ++i) own::emitAStar(g, tap, cs[i].id, ends[i].first, ends[i].second);
    }
    emitOwn(g, ends, cs, implCost, orc, penalty, dumped);
    vh::endCase();
}

// ---- edit histories: the router stays alive over several transactions; one obstacle is deleted or moved
//      per transaction, and after EVERY transaction the routes are dumped together with an oracle
//      certificate for the *current* scene.  Each transaction is its own case (index kbase + step), so the
//      driver judges a snapshot exactly like a static scene; `--only K` re-runs the history up to that step.
struct EditOp {
    int kind;           // 0 deleteShape, 1 moveShape(dx, dy), 2 add a small rectangle across a segment of the current
                        // route of connector `conn`, 3 move shape `shape` across such a segment
    size_t shape; double dx, dy;
    size_t conn; int segsel;        // kinds 2/3: which segment: 0 first, 1 a middle one, 2 last, 3 any
};
static EditOp staticOp(int kind, size_t shape, double dx, double dy) { EditOp o; o.kind = kind; o.shape = shape; o.dx = dx; o.dy = dy; o.conn = 0; o.segsel = 3; return o; }
static EditOp acrossOp(int kind, size_t shape, size_t conn, int segsel) { EditOp o; o.kind = kind; o.shape = shape; o.dx = o.dy = 0; o.conn = conn; o.segsel = segsel; return o; }

static vs::DPoly rectD(double lx, double ly, double hx, double hy) {
    vs::DPoly q; q.push_back(Point(hx, ly)); q.push_back(Point(hx, hy)); q.push_back(Point(lx, hy)); q.push_back(Point(lx, ly)); return q;
}

// Find an axis-parallel rectangle (half sizes hw, hh; <= 0: random) that crosses exactly the chosen segment of
// `route`, keeps a gap >= 1 to every shape in `others`, and stays clear of every connector endpoint.
static bool placeAcross(vh::Rng &r, const std::vector<Point> &route, int segsel, const std::vector<vs::DPoly> &others,
                        const std::vector<ConnSpec> &cs, double hw0, double hh0, vs::DPoly &out, size_t &segOut) {
    if (route.size() < 2) return false;
    size_t n = route.size() - 1;
    const double sizes[] = {0.5, 1, 1.5, 2, 3};
    for (int t = 0; t < 80; ++t) {
        size_t seg = (segsel == 0) ? 0 : (segsel == 2) ? n - 1 : (segsel == 1 && n >= 3) ? (size_t) r.range(1, (long) n - 2) : (size_t) r.range(0, (long) n - 1);
        double hw = hw0 > 0 ? hw0 : sizes[r.range(0, 4)], hh = hh0 > 0 ? hh0 : sizes[r.range(0, 4)];
        const Point &p = route[seg], &q = route[seg + 1];
        double u = r.range(20, 80) / 100.0;
        double cx = std::floor((p.x + u * (q.x - p.x)) * 8 + 0.5) / 8 + r.range(-4, 4) / 8.0 * hw / 2;
        double cy = std::floor((p.y + u * (q.y - p.y)) * 8 + 0.5) / 8 + r.range(-4, 4) / 8.0 * hh / 2;
        cx = std::floor(cx * 8 + 0.5) / 8; cy = std::floor(cy * 8 + 0.5) / 8;
        vs::DPoly R = rectD(cx - hw, cy - hh, cx + hw, cy + hh), Rg = rectD(cx - hw - 1, cy - hh - 1, cx + hw + 1, cy + hh + 1);
        std::vector<LPt> RL; for (auto &v : R) RL.push_back(toL(v.x, v.y));
        bool ok = true;
        for (size_t i = 0; i < n && ok; ++i) {
            bool hit = segHitsInteriorL(RL, toL(route[i].x, route[i].y), toL(route[i + 1].x, route[i + 1].y));
            if (hit != (i == seg)) ok = false;
        }
        for (size_t i = 0; i < others.size() && ok; ++i) if (!vs::interiorDisjointD(Rg, others[i])) ok = false;
        for (auto &c : cs) if (ok && (vs::inClosedD(R, c.sx, c.sy, 0.5) || vs::inClosedD(R, c.dx, c.dy, 0.5))) ok = false;
        if (ok) { out = R; segOut = seg; return true; }
    }
    return false;
}

static void runHistory(vh::Rng &r, const vh::Args &a, long kbase, const std::string &tag, const vs::Scene &s0, const std::vector<ConnSpec> &cs,
                       bool lee, double penalty, bool ignoreRegions, bool invis, const std::vector<EditOp> &ops) {
    long last = kbase + (long) ops.size();
    if (a.only >= 0 && (a.only < kbase || a.only > last)) return;
    std::vector<vs::DPoly> cur = s0.shapes;
    std::vector<char> alive(cur.size(), 1);
    Router *router = new Router(PolyLineRouting);
    router->UseLeesAlgorithm = lee;
    router->IgnoreRegions = ignoreRegions;
    router->InvisibilityGrph = invis;
    router->setRoutingParameter(segmentPenalty, penalty);
    std::vector<ShapeRef *> refs;
    for (size_t i = 0; i < cur.size(); ++i) { Polygon p = vs::toAvoid(cur[i]); refs.push_back(new ShapeRef(router, p, (unsigned) (i + 1))); }
    std::vector<ConnRef *> crs;
    for (auto &c : cs) crs.push_back(new ConnRef(router, ConnEnd(Point(c.sx, c.sy)), ConnEnd(Point(c.dx, c.dy)), c.id));
    std::string histLine;
    for (size_t step = 0; step <= ops.size(); ++step) {
        long k = kbase + (long) step;
        EditOp op = staticOp(0, 0, 0, 0);
        vs::DPoly added;
        if (step > 0) {
            op = ops[step - 1];
            char buf[200];
            if (op.kind == 2 || op.kind == 3) {       // resolve against the current route of the connector
                std::vector<vs::DPoly> others;
                for (size_t i = 0; i < cur.size(); ++i) if (alive[i] && !(op.kind == 3 && i == op.shape)) others.push_back(cur[i]);
                double hw = 0, hh = 0, ocx = 0, ocy = 0;
                if (op.kind == 3) {
                    double lx = 1e300, hx = -1e300, ly = 1e300, hy = -1e300;
                    for (auto &v : cur[op.shape]) { lx = std::min(lx, v.x); hx = std::max(hx, v.x); ly = std::min(ly, v.y); hy = std::max(hy, v.y); }
                    hw = (hx - lx) / 2; hh = (hy - ly) / 2; ocx = (hx + lx) / 2; ocy = (hy + ly) / 2;
                }
                size_t seg = 0;
                const std::vector<Point> &rt = crs[op.conn]->route().ps;
                if (!placeAcross(r, rt, op.segsel, others, cs, hw, hh, added, seg)) break;     // no room: the history ends here
                if (op.kind == 2) {
                    op.shape = cur.size();
                    snprintf(buf, sizeof buf, " | add %zu across segment %zu/%zu of conn %u", op.shape + 1, seg + 1, rt.size() - 1, cs[op.conn].id);
                    cur.push_back(added); alive.push_back(1); refs.push_back(nullptr);
                } else {
                    op.dx = (added[0].x + added[2].x) / 2 - ocx; op.dy = (added[0].y + added[2].y) / 2 - ocy;
                    snprintf(buf, sizeof buf, " | move %zu %s %s across segment %zu/%zu of conn %u", op.shape + 1, vh::hx(op.dx).c_str(), vh::hx(op.dy).c_str(),
                             seg + 1, rt.size() - 1, cs[op.conn].id);
                    for (auto &v : cur[op.shape]) { v.x += op.dx; v.y += op.dy; }
                }
            }
            else if (op.kind == 0) { snprintf(buf, sizeof buf, " | delete %zu", op.shape + 1); alive[op.shape] = 0; }
            else { snprintf(buf, sizeof buf, " | move %zu %s %s", op.shape + 1, vh::hx(op.dx).c_str(), vh::hx(op.dy).c_str());
                   for (auto &v : cur[op.shape]) { v.x += op.dx; v.y += op.dy; } }
            histLine += buf;
        }
        bool emit = a.want(k);
        std::vector<vs::DPoly> now;
        for (size_t i = 0; i < cur.size(); ++i) if (alive[i]) now.push_back(cur[i]);
        if (emit) {     // inputs of this snapshot first
            std::string tg = tag;
            if (!tg.empty() && tg[tg.size() - 1] == '*') {      // per-snapshot tag: degenerate (collinear) scenes apart
                tg.erase(tg.size() - 1);
                std::vector<Point> eps; for (auto &c : cs) { eps.push_back(Point(c.sx, c.sy)); eps.push_back(Point(c.dx, c.dy)); }
                if (vs::hasCollinearTriple(now, eps)) tg += "-collinear";
                if (penalty > 0) tg += "-pen";
            }
            vh::beginCase(k, tg.c_str());
            printf("cfg lee %d penalty %s ignoreRegions %d invis %d\n", (int) lee, vh::hx(penalty).c_str(), (int) ignoreRegions, (int) invis);
            printf("hist step %zu of %zu : initial%s\n", step, ops.size(), histLine.c_str());
            for (size_t i = 0; i < cur.size(); ++i) if (alive[i]) vs::printShape((unsigned) (i + 1), cur[i]);
            for (auto &c : cs) printf("conn %u %s %s %s %s\n", c.id, vh::hx(c.sx).c_str(), vh::hx(c.sy).c_str(), vh::hx(c.dx).c_str(), vh::hx(c.dy).c_str());
            fflush(stdout);
        }
        if (step > 0) {
            if (op.kind == 0) router->deleteShape(refs[op.shape]);
            else if (op.kind == 2) { Polygon p = vs::toAvoid(cur[op.shape]); refs[op.shape] = new ShapeRef(router, p, (unsigned) (op.shape + 1)); }
            else router->moveShape(refs[op.shape], op.dx, op.dy);
        }
        router->processTransaction();
        if (emit) {
            std::vector<double> implCost; std::vector<std::pair<long, long> > ends;
            for (size_t i = 0; i < crs.size(); ++i) {
                vs::printPts("route", cs[i].id, crs[i]->route().ps);
                vs::printPts("display", cs[i].id, crs[i]->displayRoute().ps);
                implCost.push_back(own::routeCost(crs[i]->displayRoute().ps, penalty));
            }
            own::Graph g;
            if (penalty > 0) { g = own::read(router); for (size_t i = 0; i < crs.size(); ++i) ends.push_back(std::make_pair(g.idx[crs[i]->src()], g.idx[crs[i]->dst()])); }
            std::vector<OracleRes> orc = emitOracle(now, cs, penalty);
            emitOwn(g, ends, cs, implCost, orc, penalty);
            vh::endCase();
        }
    }
    delete router;
}

// Does the line through two opposite corners of some 4-gon pass through another vertex of the scene (a corner of another
// shape or a connector endpoint)?  Then a visibility edge can run through the shape's interior along its diagonal, which
// libavoid accepts as visible also with Lee's sweep (known finding C03-lee-collinear: the route cuts through the shape).
// The corner classes leave this sub-family out.
static bool diagonalAligned(const std::vector<vs::DPoly> &shapes, const std::vector<ConnSpec> &cs) {
    std::vector<LPt> pts; std::vector<size_t> owner;
    for (size_t i = 0; i < shapes.size(); ++i) for (auto &v : shapes[i]) { pts.push_back(toL(v.x, v.y)); owner.push_back(i); }
    for (auto &c : cs) { pts.push_back(toL(c.sx, c.sy)); owner.push_back(shapes.size()); pts.push_back(toL(c.dx, c.dy)); owner.push_back(shapes.size()); }
    for (size_t i = 0; i < shapes.size(); ++i) {
        if (shapes[i].size() != 4) continue;
        for (int d = 0; d < 2; ++d) {
            LPt a = toL(shapes[i][d].x, shapes[i][d].y), b = toL(shapes[i][d + 2].x, shapes[i][d + 2].y);
            for (size_t q = 0; q < pts.size(); ++q) if (owner[q] != i && area2L(a, b, pts[q]) == 0) return true;
        }
    }
    return false;
}

int main(int argc, char **argv) {
    vh::Args a = vh::parseArgs(argc, argv);
    bool thorough = (a.tier == "thorough");
    long nrand = (thorough ? 500 : 150) * a.scale;
    if (a.n >= 0) nrand = a.n;
    for (long k = 0; k < nrand; ++k) {
        if (!a.want(k)) continue;
        vh::Rng r = vh::caseRng(a.seed, k);
        bool generic = r.coin(1, 2);
        bool lee = r.coin(4, 5);
        // segment penalty: 0 (two-sided certified comparison), integers, and fractional values (a search that
        // rounds the per-bend charge would only show on those)
        double penalty = std::vector<double>{0, 0, 0, 0, 5, 50, 0.5, 1.5, 2.75, 11.5}[r.range(0, 9)];
        // IgnoreRegions (default true) prunes visibility edges that no *Euclidean* shortest path uses; with a
        // bend penalty such edges can be part of the optimum, so penalty > 0 is run with both settings
        bool ignoreRegions = (penalty == 0) ? r.coin(3, 4) : r.coin(1, 2);
        vs::SceneOpts so;
        so.nShapesMin = 1; so.nShapesMax = thorough ? (r.coin(1, 6) ? 20 : 10) : 8;
        so.margin = 1; so.rectPct = 50; so.fullCellPct = 25; so.jitter = generic;
        vs::Scene s = vs::genScene(r, so);
        std::vector<vs::DPoly> rp = vs::routingPolys(s, 0);
        int nconn = (int) r.range(2, thorough ? 8 : 5);
        std::vector<ConnSpec> cs;
        bool hug = r.coin(1, 3);
        for (int i = 0; i < nconn; ++i) {
            ConnSpec c; c.id = 101 + i;
            double clear = generic ? 0.25 : 0.0;
            if (hug && r.coin(2, 3)) { if (!vs::hugPoint(r, s, rp, clear, c.sx, c.sy) || !vs::hugPoint(r, s, rp, clear, c.dx, c.dy)) continue; }
            else if (!vs::freePoint(r, s, rp, clear, c.sx, c.sy, r.coin(1, 3)) || !vs::freePoint(r, s, rp, clear, c.dx, c.dy, r.coin(1, 3))) continue;
            if (generic) { c.sx += r.range(-7, 7) / 64.0; c.sy += r.range(-7, 7) / 64.0; c.dx += r.range(-7, 7) / 64.0; c.dy += r.range(-7, 7) / 64.0; }
            if (c.sx == c.dx && c.sy == c.dy) continue;
            cs.push_back(c);
        }
        if (cs.empty()) { vh::beginCase(k, "empty"); vh::endCase(); continue; }
        std::vector<Point> eps;
        for (auto &c : cs) { eps.push_back(Point(c.sx, c.sy)); eps.push_back(Point(c.dx, c.dy)); }
        bool degenerate = vs::hasCollinearTriple(rp, eps);
        std::string tag = degenerate ? (lee ? "lee-collinear" : "naive-vis-collinear") : (lee ? "generic-lee" : "generic-naive");
        if (penalty > 0) tag += ignoreRegions ? "-pen-pruned" : "-pen-full";
        runCase(k, tag, s, cs, lee, penalty, ignoreRegions, true);
    }
    // ---- aligned-sides class (strict): 2..4 separated rectangles in a row (or column) with one side on a
    //      common line, every insertion order, endpoints beyond both ends of the row and slightly on the
    //      obstacle side of the line, so that the optimum runs along the common line past all of them.
    long k = nrand;
    long nal = (thorough ? 120 : 40) * a.scale;
    for (long c = 0; c < nal; ++c, ++k) {
        if (!a.want(k)) continue;
        vh::Rng r = vh::caseRng(a.seed, k, 11);
        int nb = (int) r.range(2, 4);
        bool column = r.coin();             // boxes stacked along y (shared x line) instead of along x
        bool lowSide = r.coin();            // shared line is the low (min) side of the boxes, else the high side
        double penalty = std::vector<double>{0, 0, 0, 5, 50, 1.5, 11.5}[r.range(0, 6)];
        bool ignoreRegions = r.coin(4, 5);
        long U = r.range(1, 3);             // scale
        long line = r.range(0, 6);
        std::vector<vs::IPoly> boxes;
        long pos = r.range(0, 4), minExt = 1000;
        for (int i = 0; i < nb; ++i) {
            long w = r.range(3, 12), h = r.range(5, 12);
            minExt = std::min(minExt, h);
            long a0 = pos, a1 = pos + w, b0 = lowSide ? line : line - h, b1 = lowSide ? line + h : line;
            boxes.push_back(column ? vs::rectPoly(b0 * U, a0 * U, b1 * U, a1 * U) : vs::rectPoly(a0 * U, b0 * U, a1 * U, b1 * U));
            pos = a1 + r.range(1, 12);      // gap >= 1
        }
        long endPos = pos;                  // beyond the last box
        long t = r.range(1, std::min(3L, minExt - 2));          // offset of the endpoints from the line, towards the boxes
        long off = lowSide ? line + t : line - t;
        long s0 = -r.range(2, 8), s1 = endPos + r.range(1, 7);
        ConnSpec cn; cn.id = 101;
        bool flip = r.coin();
        double ax = (double) ((flip ? s1 : s0) * U), bx = (double) ((flip ? s0 : s1) * U), o = (double) (off * U);
        if (column) { cn.sx = o; cn.sy = ax; cn.dx = o; cn.dy = bx; } else { cn.sx = ax; cn.sy = o; cn.dx = bx; cn.dy = o; }
        std::vector<size_t> order; for (int i = 0; i < nb; ++i) order.push_back((size_t) i);
        r.shuffle(order);
        vs::Scene s; s.W = endPos * U; s.H = 20 * U;
        for (size_t i = 0; i < order.size(); ++i) { s.shapes.push_back(vs::toD(boxes[order[i]])); s.isRect.push_back(true); }
        std::vector<ConnSpec> cs; cs.push_back(cn);
        if (r.coin(1, 3)) {                 // a second connector in the other direction / other offset
            ConnSpec c2 = cn; c2.id = 102; std::swap(c2.sx, c2.dx); std::swap(c2.sy, c2.dy); cs.push_back(c2);
        }
        runCase(k, penalty > 0 ? "aligned-sides-pen" : "aligned-sides", s, cs, true, penalty, ignoreRegions, true);
    }
    // ---- fractional-onebox class (strict): one rectangle, two competing routes: over the box with 1 bend
    //      (length L1) and under it with 2 bends (length L2 < L1); the box bottom is tuned so that
    //      floor(p) < L1 - L2 < p for a fractional segment penalty p, i.e. the 1-bend route is the optimum
    //      of length + p*bends while the 2-bend route would win with the per-bend charge rounded down.
    long nfr = (thorough ? 100 : 30) * a.scale;
    for (long c = 0; c < nfr; ++c, ++k) {
        if (!a.want(k)) continue;
        vh::Rng r = vh::caseRng(a.seed, k, 13);
        double pen = std::vector<double>{0.5, 0.9, 1.5, 2.75, 11.5}[r.range(0, 4)];
        double fl = std::floor(pen), fr = pen - fl;
        bool found = false;
        double bx0 = 0, bx1 = 0, T = 0, B = 0, dx = 0, dy = 0;
        for (int tries = 0; tries < 200 && !found; ++tries) {
            bx0 = (double) r.range(20, 60); bx1 = bx0 + (double) r.range(10, 40); T = (double) r.range(15, 70);
            dx = bx1 + (double) r.range(60, 160); dy = T + (double) r.range(5, 25);
            double L1 = std::hypot(bx0, T) + std::hypot(dx - bx0, dy - T);
            std::vector<double> ok;
            for (int q = 1; q < 1600; ++q) {
                double b = -q / 8.0;
                double L2 = std::hypot(bx0, b) + (bx1 - bx0) + std::hypot(dx - bx1, dy - b);
                double d = L1 - L2;
                if (d > fl + 0.15 * fr && d < pen - 0.15 * fr) ok.push_back(b);
                if (d < fl) break;
            }
            if (!ok.empty()) { B = r.pick(ok); found = true; }
        }
        if (!found) { vh::beginCase(k, "empty"); vh::endCase(); continue; }
        bool mx = r.coin(), my = r.coin(), tr = r.coin();
        auto X = [&](double x, double y, double &ox, double &oy) { if (mx) x = -x; if (my) y = -y; if (tr) std::swap(x, y); ox = x; oy = y; };
        double x0, y0, x1, y1; X(bx0, B, x0, y0); X(bx1, T, x1, y1);
        vs::Scene s; s.W = 300; s.H = 300;
        vs::DPoly box;      // counter-clockwise, Avoid::Rectangle vertex order
        double lx = std::min(x0, x1), hx = std::max(x0, x1), ly = std::min(y0, y1), hy = std::max(y0, y1);
        box.push_back(Point(hx, ly)); box.push_back(Point(hx, hy)); box.push_back(Point(lx, hy)); box.push_back(Point(lx, ly));
        s.shapes.push_back(box); s.isRect.push_back(true);
        ConnSpec cn; cn.id = 101; X(0, 0, cn.sx, cn.sy); X(dx, dy, cn.dx, cn.dy);
        if (r.coin()) { std::swap(cn.sx, cn.dx); std::swap(cn.sy, cn.dy); }
        std::vector<ConnSpec> cs; cs.push_back(cn);
        runCase(k, "fractional-onebox", s, cs, true, pen, r.coin(3, 4), true);
    }
    // ---- edit-history classes.  Every history reserves HSLOT case indices (one per transaction).
    const long HSLOT = 6;
    long nhA = (thorough ? 100 : 28) * a.scale, nhB = (thorough ? 60 : 14) * a.scale;
    // family A ("edit-history"): source and target on a line; 2..3 blockers across that line and 1..3
    // bystanders beside it, every shape in its own slot along the line; the blockers are taken out of the
    // way one per transaction (deleted, moved far away, or moved aside), in random order.
    for (long h = 0; h < nhA; ++h, k += HSLOT) {
        if (a.only >= 0 && (a.only < k || a.only >= k + HSLOT)) continue;
        vh::Rng r = vh::caseRng(a.seed, k, 17);
        bool generic = r.coin(1, 2);
        double penalty = std::vector<double>{0, 0, 0, 5, 50, 1.5}[r.range(0, 5)];
        bool invis = r.coin(5, 6), ignoreRegions = r.coin(4, 5);
        int nBlock = (int) r.range(2, 3), nBy = (int) r.range(1, 3);
        std::vector<int> role; for (int i = 0; i < nBlock; ++i) role.push_back(1); for (int i = 0; i < nBy; ++i) role.push_back(0);
        r.shuffle(role);
        auto J = [&]() { return generic ? r.range(-15, 15) / 64.0 : 0.0; };
        struct Box { double x0, y0, x1, y1; };
        std::vector<Box> boxes; std::vector<size_t> blockers;
        double x = (double) r.range(4, 12);
        for (size_t i = 0; i < role.size(); ++i) {
            double w = (double) r.range(6, 20);
            Box b; b.x0 = x + J(); b.x1 = x + w + J();
            if (role[i]) { b.y0 = -(double) r.range(3, 30) + J(); b.y1 = (double) r.range(3, 30) + J(); blockers.push_back(i); }
            else { double c0 = (double) r.range(4, 40), hh = (double) r.range(4, 30); if (r.coin()) { b.y0 = c0 + J(); b.y1 = c0 + hh + J(); } else { b.y1 = -c0 + J(); b.y0 = -c0 - hh + J(); } }
            boxes.push_back(b);
            x += w + (double) r.range(2, 15);
        }
        double L = x + (double) r.range(2, 10);
        bool mx = r.coin(), my = r.coin(), tr = r.coin();
        auto X = [&](double px, double py, double &ox, double &oy) { if (mx) px = L - px; if (my) py = -py; if (tr) std::swap(px, py); ox = px; oy = py; };
        vs::Scene s; s.W = (long) L; s.H = 100;
        for (auto &b : boxes) {
            double ax, ay, bx, by; X(b.x0, b.y0, ax, ay); X(b.x1, b.y1, bx, by);
            double lx = std::min(ax, bx), hx = std::max(ax, bx), ly = std::min(ay, by), hy = std::max(ay, by);
            vs::DPoly q; q.push_back(Point(hx, ly)); q.push_back(Point(hx, hy)); q.push_back(Point(lx, hy)); q.push_back(Point(lx, ly));
            s.shapes.push_back(q); s.isRect.push_back(true);
        }
        ConnSpec cn; cn.id = 101; X(0, J() / 2, cn.sx, cn.sy); X(L, J() / 2, cn.dx, cn.dy);
        if (r.coin()) { std::swap(cn.sx, cn.dx); std::swap(cn.sy, cn.dy); }
        std::vector<ConnSpec> cs; cs.push_back(cn);
        // operations: each blocker leaves the line, one per transaction
        r.shuffle(blockers);
        std::vector<EditOp> ops;
        for (size_t q = 0; q < blockers.size(); ++q) {
            size_t bi = blockers[q]; const Box &b = boxes[bi];
            int how = (int) r.range(0, 2);
            EditOp op = staticOp(0, bi, 0, 0);
            if (how == 0) op.kind = 0;
            else {
                op.kind = 1;
                double py = (how == 1) ? (double) (1000 + 500 * (long) q) * (r.coin() ? 1 : -1)             // far away
                                       : (r.coin() ? (-b.y0 + (double) r.range(1, 10)) : (-b.y1 - (double) r.range(1, 10)));   // just aside
                double ox, oy; double zx, zy; X(0, py, ox, oy); X(0, 0, zx, zy); op.dx = ox - zx; op.dy = oy - zy;
            }
            ops.push_back(op);
        }
        if (nBy >= 2 && r.coin(1, 3)) {     // finally remove one bystander too
            for (size_t i = 0; i < role.size(); ++i) if (!role[i]) { ops.push_back(staticOp(0, i, 0, 0)); break; }
        }
        // then put something back across the (by now usually straight) route: a new small rectangle, or a bystander
        if (r.coin(1, 2)) {
            ops.push_back(acrossOp(2, 0, 0, (int) r.range(0, 3)));
            if (r.coin(1, 3)) ops.push_back(acrossOp(2, 0, 0, (int) r.range(0, 3)));
        }
        while ((long) ops.size() > HSLOT - 1) ops.pop_back();
        runHistory(r, a, k, penalty > 0 ? "edit-history-pen" : "edit-history", s, cs, true, penalty, ignoreRegions, invis, ops);
    }
    // family B ("edit-history-random"): separated grid scenes (integer or jittered), 1..3 connectors; 2..4
    // transactions each deleting or moving far away one remaining shape, preferably one that crosses the
    // straight line of a connector.
    for (long h = 0; h < nhB; ++h, k += HSLOT) {
        if (a.only >= 0 && (a.only < k || a.only >= k + HSLOT)) continue;
        vh::Rng r = vh::caseRng(a.seed, k, 19);
        bool generic = r.coin(1, 2);
        double penalty = std::vector<double>{0, 0, 0, 5, 50}[r.range(0, 4)];
        bool invis = r.coin(5, 6), ignoreRegions = r.coin(4, 5);
        vs::SceneOpts so; so.nShapesMin = 3; so.nShapesMax = thorough ? 10 : 7; so.margin = 1; so.rectPct = 60; so.jitter = generic;
        vs::Scene s = vs::genScene(r, so);
        std::vector<vs::DPoly> rp = vs::routingPolys(s, 0);
        std::vector<ConnSpec> cs;
        int nconn = (int) r.range(1, 3);
        for (int i = 0; i < nconn; ++i) {
            ConnSpec c; c.id = 101 + i; double clear = generic ? 0.25 : 0.0;
            if (!vs::freePoint(r, s, rp, clear, c.sx, c.sy, false) || !vs::freePoint(r, s, rp, clear, c.dx, c.dy, false)) continue;
            if (generic) { c.sx += r.range(-7, 7) / 64.0; c.sy += r.range(-7, 7) / 64.0; c.dx += r.range(-7, 7) / 64.0; c.dy += r.range(-7, 7) / 64.0; }
            if (c.sx == c.dx && c.sy == c.dy) continue;
            cs.push_back(c);
        }
        if (cs.empty() || s.shapes.size() < 3) continue;
        std::vector<char> gone(s.shapes.size(), 0);
        std::vector<EditOp> ops;
        int nops = (int) r.range(2, 4);
        for (int q = 0; q < nops; ++q) {
            std::vector<size_t> rem, crossing;
            for (size_t i = 0; i < s.shapes.size(); ++i) if (!gone[i]) {
                rem.push_back(i);
                std::vector<LPt> poly; for (auto &v : s.shapes[i]) poly.push_back(toL(v.x, v.y));
                for (auto &c : cs) if (segHitsInteriorL(poly, toL(c.sx, c.sy), toL(c.dx, c.dy))) { crossing.push_back(i); break; }
            }
            if (rem.size() <= 1) break;
            size_t pick = (!crossing.empty() && r.coin(3, 4)) ? r.pick(crossing) : r.pick(rem);
            EditOp op = staticOp((int) r.range(0, 1), pick, 0, 0); op.dy = (op.kind == 1) ? (double) (1000 + 300 * q) : 0;
            gone[pick] = 1;
            ops.push_back(op);
        }
        bool degenerate = false;
        { std::vector<Point> eps; for (auto &c : cs) { eps.push_back(Point(c.sx, c.sy)); eps.push_back(Point(c.dx, c.dy)); } degenerate = vs::hasCollinearTriple(rp, eps); }
        std::string tag = std::string("edit-history-random") + (degenerate ? "-collinear" : "") + (penalty > 0 ? "-pen" : "");
        runHistory(r, a, k, tag, s, cs, true, penalty, ignoreRegions, invis, ops);
    }
    // family C ("edit-history-add"): sparse separated scenes; after the initial routing 1..4 transactions each ADD a small
    // rectangle, or MOVE an existing rectangle, across exactly one chosen segment of the current route of a connector
    // (first / middle / last / the only segment of a straight route).
    long nhC = (thorough ? 120 : 30) * a.scale;
    for (long h = 0; h < nhC; ++h, k += HSLOT) {
        if (a.only >= 0 && (a.only < k || a.only >= k + HSLOT)) continue;
        vh::Rng r = vh::caseRng(a.seed, k, 23);
        bool generic = r.coin(1, 2);
        double penalty = std::vector<double>{0, 0, 0, 0, 5, 50, 1.5}[r.range(0, 6)];
        bool invis = r.coin(7, 8), ignoreRegions = r.coin(4, 5);
        vs::SceneOpts so; so.nShapesMin = 1; so.nShapesMax = 5; so.margin = 2; so.rectPct = 75; so.jitter = generic; so.fullCellPct = 10;
        vs::Scene g = vs::genScene(r, so);
        vs::Scene s; s.W = g.W * 3; s.H = g.H * 3;
        for (size_t i = 0; i < g.shapes.size(); ++i) { vs::DPoly q = g.shapes[i]; for (auto &v : q) { v.x *= 3; v.y *= 3; } s.shapes.push_back(q); s.isRect.push_back(g.isRect[i]); }
        std::vector<vs::DPoly> rp = vs::routingPolys(s, 0);
        std::vector<ConnSpec> cs;
        int nconn = (int) r.range(1, 2);
        for (int i = 0; i < nconn; ++i) {
            ConnSpec c; c.id = 101 + i;
            if (!vs::freePoint(r, s, rp, 1.0, c.sx, c.sy, false) || !vs::freePoint(r, s, rp, 1.0, c.dx, c.dy, false)) continue;
            if (generic) { c.sx += r.range(-7, 7) / 64.0; c.sy += r.range(-7, 7) / 64.0; c.dx += r.range(-7, 7) / 64.0; c.dy += r.range(-7, 7) / 64.0; }
            if (std::fabs(c.sx - c.dx) + std::fabs(c.sy - c.dy) < 8) continue;
            cs.push_back(c);
        }
        if (cs.empty()) continue;
        std::vector<size_t> rects; for (size_t i = 0; i < s.shapes.size(); ++i) if (s.isRect[i] && !generic) rects.push_back(i);
        std::vector<EditOp> ops;
        int nops = (int) r.range(1, 4);
        for (int q = 0; q < nops; ++q) {
            size_t conn = (size_t) r.range(0, (long) cs.size() - 1);
            int segsel = (int) r.range(0, 3);
            if (!rects.empty() && r.coin(1, 3)) { size_t pick = r.pick(rects); ops.push_back(acrossOp(3, pick, conn, segsel)); }
            else ops.push_back(acrossOp(2, 0, conn, segsel));
        }
        runHistory(r, a, k, "edit-history-add*", s, cs, true, penalty, ignoreRegions, invis, ops);
    }
    // ---- corner-through class (penalty > 0, Lee visibility): separated rectangles with all corners and both endpoints on
    //      a coarse grid, so that exact alignments are frequent; a scene is kept only if the oracle's cheapest penalised
    //      route passes STRAIGHT THROUGH an obstacle corner (three visibility vertices collinear, no bend charged there).
    //      In such scenes a search state (vertex, previous vertex) is typically first reached with a bend and later again,
    //      cheaper, along the collinear leg: the open list has to be re-ordered after an in-place cost decrease.
    //      Both directions of the connector are routed.
    long nct = (thorough ? 150 : 40) * a.scale;
    for (long c = 0; c < nct; ++c, ++k) {
        if (!a.want(k)) continue;
        vh::Rng r0 = vh::caseRng(a.seed, k, 29);
        vh::Rng r(r0.next() * 0x2545F4914F6CDD1Dull ^ r0.next());     // re-seeded from mixed outputs: the streams of caseRng for k and k + 1 are shifts of each other
        vs::Scene s; std::vector<ConnSpec> cs; double penalty = 0; bool through = false;
        for (int tries = 0; tries < 80 && !through; ++tries) {
            long G = r.range(8, 14), U = std::vector<long>{1, 2, 4}[r.range(0, 2)];
            penalty = (double) U * std::vector<double>{0.5, 1, 2, 3, 6}[r.range(0, 4)];
            int want = (int) r.range(3, 7);
            s = vs::Scene(); s.W = G * U; s.H = G * U; cs.clear();
            std::vector<vs::DPoly> infl;
            for (int t = 0; t < 60 && (int) s.shapes.size() < want; ++t) {
                long x0 = r.range(1, G - 2), y0 = r.range(1, G - 2), w = r.range(1, 3), h = r.range(1, 3);
                if (x0 + w > G - 1 || y0 + h > G - 1) continue;
                vs::DPoly R = rectD((double) (x0 * U), (double) (y0 * U), (double) ((x0 + w) * U), (double) ((y0 + h) * U));
                vs::DPoly Rg = rectD((double) (x0 * U) - 0.5 * U, (double) (y0 * U) - 0.5 * U, (double) ((x0 + w) * U) + 0.5 * U, (double) ((y0 + h) * U) + 0.5 * U);
                bool ok = true;
                for (auto &o : infl) if (!vs::interiorDisjointD(Rg, o)) ok = false;
                if (!ok) continue;
                s.shapes.push_back(R); s.isRect.push_back(true); infl.push_back(Rg);
            }
            if (s.shapes.size() < 2) continue;
            ConnSpec cn; cn.id = 101; bool okp = false;
            for (int t = 0; t < 50 && !okp; ++t) {
                cn.sx = (double) (r.range(0, G) * U); cn.sy = (double) (r.range(0, G) * U); cn.dx = (double) (r.range(0, G) * U); cn.dy = (double) (r.range(0, G) * U);
                okp = std::fabs(cn.sx - cn.dx) + std::fabs(cn.sy - cn.dy) >= 4 * U;
                for (auto &q : s.shapes) if (vs::inClosedD(q, cn.sx, cn.sy, 0.25 * U) || vs::inClosedD(q, cn.dx, cn.dy, 0.25 * U)) okp = false;
            }
            if (!okp) continue;
            ConnSpec c2 = cn; c2.id = 102; std::swap(c2.sx, c2.dx); std::swap(c2.sy, c2.dy);
            cs.push_back(cn); cs.push_back(c2);
            if (diagonalAligned(s.shapes, cs)) { cs.clear(); continue; }
            std::vector<OracleRes> orc = emitOracle(s.shapes, cs, penalty, false);
            through = orc[0].throughCorner || orc[1].throughCorner;
        }
        if (cs.empty()) { vh::beginCase(k, "empty"); vh::endCase(); continue; }
        runCase(k, through ? "corner-through-pen" : "corner-grid-pen", s, cs, true, penalty, r.coin(1, 2), true);
    }
    // ---- corner-chain class (penalty > 0, Lee visibility; small scenes, hence small open lists): constructed around an exact
    //      alignment T - v - p on a grid line of direction (a, b): v is a corner of a rectangle Rv next to the target T, p a
    //      corner of a rectangle Rp further out, and the line only grazes Rv at v and Rp at p (or runs along their sides).
    //      libavoid's visibility graph then holds the collinear chain p - v - T (no edge p - T), the leg p -> v -> T costs
    //      no bend at v, while the other way round Rp (via another corner q of Rp) reaches v earlier but pays a bend at v:
    //      the state (T, via v) is queued first from (v, via q) and later improved in place from (v, via p).  The source
    //      lies beyond Rp; 0..3 further random rectangles supply competing routes.  Both directions are routed.
    long ncc = (thorough ? 1500 : 600) * a.scale;
    for (long c = 0; c < ncc; ++c, ++k) {
        if (!a.want(k)) continue;
        vh::Rng r0 = vh::caseRng(a.seed, k, 31);
        vh::Rng r(r0.next() * 0x2545F4914F6CDD1Dull ^ r0.next());     // re-seeded from mixed outputs: the streams of caseRng for k and k + 1 are shifts of each other
        vs::Scene s; std::vector<ConnSpec> cs; double penalty = 0; bool built = false;
        for (int tries = 0; tries < 200 && !built; ++tries) {
            static const long dirs[][2] = {{1, 1}, {1, 1}, {2, 1}, {1, 2}, {3, 1}, {1, 3}, {3, 2}, {2, 3}, {1, 0}, {0, 1}};
            long di = r.range(0, 9), da = dirs[di][0], db = dirs[di][1];
            long U = std::vector<long>{1, 2, 4, 10}[r.range(0, 3)];
            penalty = (double) U * std::vector<double>{0.5, 1, 2, 3, 4, 6, 10, 3, 6}[r.range(0, 8)];
            long i = r.range(1, 2), j = r.range(1, 5);
            long vx = i * da, vy = i * db, px = (i + j) * da, py = (i + j) * db;
            if (px > 14 || py > 14) continue;
            struct B { long x0, y0, x1, y1; };
            std::vector<B> bs;
            // a rectangle with a corner at (cx, cy) that the line through it with direction (da, db) only touches
            // (both rectangles on the same side of the line, or - one time in four - on opposite sides)
            int side = (int) r.range(0, 1), side2 = r.coin(3, 4) ? side : 1 - side;
            auto cornerBox = [&](long cx, long cy, int q, B &b) {
                long w = r.range(1, 3), h = r.range(1, 3);
                if (da > 0 && db > 0) { if (q) b = B{cx, cy - h, cx + w, cy}; else b = B{cx - w, cy, cx, cy + h}; }
                else if (db == 0) { long x0 = r.coin() ? cx : cx - w; if (q) b = B{x0, cy, x0 + w, cy + h}; else b = B{x0, cy - h, x0 + w, cy}; }
                else { long y0 = r.coin() ? cy : cy - h; if (q) b = B{cx, y0, cx + w, y0 + h}; else b = B{cx - w, y0, cx, y0 + h}; }
            };
            B bv, bp; cornerBox(vx, vy, side, bv); cornerBox(px, py, side2, bp);
            bs.push_back(bv); bs.push_back(bp);
            // target on the line beyond v; source in the shadow that Rp casts as seen from v (so that v is reached round Rp,
            // via p on the line or via the opposite silhouette corner q), preferably where the way via q is the shorter one
            // by less than the penalty
            long tx = 0, ty = 0;
            if (r.coin(1, 3)) { tx = -da * r.range(0, 1); ty = -db * r.range(0, 1); }
            // variant "two corners on the line" (every other time): a third rectangle Rw with a corner w on the line at the
            // origin, and the target in the shadow Rw casts as seen from v: the collinear chain is p - v - w, the state
            // improved in place is the inner state (w, via v), not a target state
            if (r.coin(1, 2)) {
                B bw; cornerBox(0, 0, side, bw);
                std::vector<LPt> rw; rw.push_back(LPt{bw.x1, bw.y0}); rw.push_back(LPt{bw.x1, bw.y1}); rw.push_back(LPt{bw.x0, bw.y1}); rw.push_back(LPt{bw.x0, bw.y0});
                std::vector<std::pair<long, long> > ct;
                for (long x = bw.x0 - 3; x <= bw.x1 + 3; ++x) for (long y = bw.y0 - 3; y <= bw.y1 + 3; ++y) {
                    if (x >= bw.x0 && x <= bw.x1 && y >= bw.y0 && y <= bw.y1) continue;
                    if (!segHitsInteriorL(rw, LPt{x, y}, LPt{vx, vy})) continue;
                    if (segHitsInteriorL(rw, LPt{x, y}, LPt{0, 0})) continue;
                    ct.push_back(std::make_pair(x, y));
                }
                if (ct.empty()) continue;
                std::pair<long, long> tp = r.pick(ct);
                tx = tp.first; ty = tp.second;
                bs.push_back(bw);
            }
            std::vector<LPt> rp; rp.push_back(LPt{bp.x1, bp.y0}); rp.push_back(LPt{bp.x1, bp.y1}); rp.push_back(LPt{bp.x0, bp.y1}); rp.push_back(LPt{bp.x0, bp.y0});
            std::vector<std::pair<long, long> > cand, good; std::vector<double> gap;
            for (long x = bp.x0 - 4; x <= bp.x1 + 6; ++x) for (long y = bp.y0 - 4; y <= bp.y1 + 6; ++y) {
                if (x >= bp.x0 && x <= bp.x1 && y >= bp.y0 && y <= bp.y1) continue;
                if (!segHitsInteriorL(rp, LPt{x, y}, LPt{vx, vy})) continue;
                cand.push_back(std::make_pair(x, y));
                double dp = std::hypot((double) (x - px), (double) (y - py)) + std::hypot((double) (px - vx), (double) (py - vy));
                double best = 1e300;
                for (auto &q : rp) if (!(q.x == px && q.y == py) && !segHitsInteriorL(rp, LPt{x, y}, q) && !segHitsInteriorL(rp, q, LPt{vx, vy}))
                    best = std::min(best, std::hypot((double) (x - q.x), (double) (y - q.y)) + std::hypot((double) (q.x - vx), (double) (q.y - vy)));
                if (best < dp && dp < best + penalty / (double) U) { good.push_back(std::make_pair(x, y)); gap.push_back(dp - best); }
            }
            if (cand.empty()) continue;
            if (good.size() > 3 && r.coin(2, 3)) {      // prefer the sources where the two ways round Rp are nearly equally long
                std::vector<size_t> ix; for (size_t x = 0; x < good.size(); ++x) ix.push_back(x);
                std::sort(ix.begin(), ix.end(), [&](size_t x, size_t y) { return gap[x] < gap[y] || (gap[x] == gap[y] && x < y); });
                std::vector<std::pair<long, long> > g3; for (size_t x = 0; x < 3; ++x) g3.push_back(good[ix[x]]);
                good = g3;
            }
            std::pair<long, long> sp = (!good.empty() && r.coin(5, 6)) ? r.pick(good) : r.pick(cand);
            long sx = sp.first, sy = sp.second;
            // a competing one-bend route s -> u -> T round a further rectangle Ru with a corner at u, its length between that
            // of the route via p and that of the route via q plus one penalty
            if (r.coin(4, 5)) {
                auto boxOf = [](const B &b) { std::vector<LPt> q; q.push_back(LPt{b.x1, b.y0}); q.push_back(LPt{b.x1, b.y1}); q.push_back(LPt{b.x0, b.y1}); q.push_back(LPt{b.x0, b.y0}); return q; };
                auto H = [](long x0, long y0, long x1, long y1) { return std::hypot((double) (x1 - x0), (double) (y1 - y0)); };
                double dp = H(sx, sy, px, py) + H(px, py, vx, vy) + H(vx, vy, tx, ty), dq = 1e300;
                for (auto &q : rp) if (!(q.x == px && q.y == py) && !segHitsInteriorL(rp, LPt{sx, sy}, q) && !segHitsInteriorL(rp, q, LPt{vx, vy}))
                    dq = std::min(dq, H(sx, sy, q.x, q.y) + H(q.x, q.y, vx, vy) + H(vx, vy, tx, ty));
                double wlo = dp, whi = std::max(dp, dq) + penalty / (double) U;
                std::vector<B> cu;
                std::vector<LPt> rv = boxOf(bv);
                for (long x = -6; x <= 18; ++x) for (long y = -6; y <= 18; ++y) {
                    double l = H(sx, sy, x, y) + H(x, y, tx, ty);
                    if (!(l > wlo && l < whi)) continue;
                    if (segHitsInteriorL(rp, LPt{sx, sy}, LPt{x, y}) || segHitsInteriorL(rp, LPt{x, y}, LPt{tx, ty}) ||
                        segHitsInteriorL(rv, LPt{sx, sy}, LPt{x, y}) || segHitsInteriorL(rv, LPt{x, y}, LPt{tx, ty})) continue;
                    for (int qd = 0; qd < 4; ++qd) {
                        long w = r.range(1, 3), h = r.range(1, 3);
                        B b = (qd == 0) ? B{x, y, x + w, y + h} : (qd == 1) ? B{x - w, y, x, y + h} : (qd == 2) ? B{x - w, y - h, x, y} : B{x, y - h, x + w, y};
                        std::vector<LPt> ru = boxOf(b);
                        // the rectangle lies inside the bend, the two legs do not enter it
                        {   // twice the centre of Ru lies strictly inside the wedge s - u - T
                            LPt c2 = LPt{b.x0 + b.x1, b.y0 + b.y1}, s2 = LPt{2 * sx, 2 * sy}, u2 = LPt{2 * x, 2 * y}, t2 = LPt{2 * tx, 2 * ty};
                            i64 turn = area2L(s2, u2, t2);
                            if (turn == 0) continue;
                            i64 a1 = area2L(s2, u2, c2), a2 = area2L(u2, t2, c2);
                            if (!((turn > 0 && a1 > 0 && a2 > 0) || (turn < 0 && a1 < 0 && a2 < 0))) continue;
                        }
                        if (segHitsInteriorL(ru, LPt{sx, sy}, LPt{x, y}) || segHitsInteriorL(ru, LPt{x, y}, LPt{tx, ty})) continue;
                        // it leaves the routes round Rp alone
                        if (segHitsInteriorL(ru, LPt{sx, sy}, LPt{px, py}) || segHitsInteriorL(ru, LPt{px, py}, LPt{vx, vy}) || segHitsInteriorL(ru, LPt{vx, vy}, LPt{tx, ty})) continue;
                        cu.push_back(b);
                    }
                }
                int ncomp = (int) r.range(1, 4);
                for (int e = 0; e < ncomp && !cu.empty(); ++e) {
                    B b = r.pick(cu);
                    bool sep = true;
                    for (auto &o : bs) if (!(b.x1 + 1 <= o.x0 || o.x1 + 1 <= b.x0 || b.y1 + 1 <= o.y0 || o.y1 + 1 <= b.y0)) sep = false;
                    if (sep) bs.push_back(b);
                }
            }
            int extra = (int) r.range(0, 2);
            for (int e = 0; e < extra; ++e) {
                long x0 = r.range(-4, 16), y0 = r.range(-4, 16); B b = B{x0, y0, x0 + r.range(1, 3), y0 + r.range(1, 3)};
                bool sep = true;
                for (auto &o : bs) if (!(b.x1 + 1 <= o.x0 || o.x1 + 1 <= b.x0 || b.y1 + 1 <= o.y0 || o.y1 + 1 <= b.y0)) sep = false;
                if (sep) bs.push_back(b);
            }
            bool ok = std::labs(sx - tx) + std::labs(sy - ty) >= 3;
            for (size_t x = 0; x < bs.size() && ok; ++x) {
                const B &b = bs[x];
                if (sx >= b.x0 && sx <= b.x1 && sy >= b.y0 && sy <= b.y1) ok = false;      // endpoints strictly outside the closed boxes
                if (tx >= b.x0 && tx <= b.x1 && ty >= b.y0 && ty <= b.y1) ok = false;
                for (size_t y = x + 1; y < bs.size() && ok; ++y) {                           // gap >= 1 between boxes
                    const B &o = bs[y];
                    if (!(b.x1 + 1 <= o.x0 || o.x1 + 1 <= b.x0 || b.y1 + 1 <= o.y0 || o.y1 + 1 <= b.y0)) ok = false;
                }
            }
            if (!ok) continue;
            bool mx = r.coin(), my = r.coin(), tr = r.coin();
            auto X = [&](long x, long y, double &ox, double &oy) { if (mx) x = -x; if (my) y = -y; if (tr) std::swap(x, y); ox = (double) (x * U); oy = (double) (y * U); };
            s = vs::Scene(); s.W = 20 * U; s.H = 20 * U; cs.clear();
            std::vector<size_t> order; for (size_t x = 0; x < bs.size(); ++x) order.push_back(x);
            r.shuffle(order);
            for (size_t x : order) {
                double ax, ay, bx, by; X(bs[x].x0, bs[x].y0, ax, ay); X(bs[x].x1, bs[x].y1, bx, by);
                s.shapes.push_back(rectD(std::min(ax, bx), std::min(ay, by), std::max(ax, bx), std::max(ay, by))); s.isRect.push_back(true);
            }
            ConnSpec cn; cn.id = 101; X(sx, sy, cn.sx, cn.sy); X(tx, ty, cn.dx, cn.dy);
            ConnSpec c2 = cn; c2.id = 102; std::swap(c2.sx, c2.dx); std::swap(c2.sy, c2.dy);
            cs.push_back(cn); cs.push_back(c2);
            if (diagonalAligned(s.shapes, cs)) continue;
            built = true;
        }
        if (!built) { vh::beginCase(k, "empty"); vh::endCase(); continue; }
        runCase(k, "corner-chain-pen", s, cs, true, penalty, r.coin(2, 3), true);
    }
    return 0;
}
