// C04 harness: polyline routes are Euclidean shortest paths (penalties 0), resp. minimise
// length + segmentPenalty * bends.
// One case = one scene of separated convex obstacles (gap >= 1 between cells' shapes, integer grid or
// jittered into general position, coordinates multiples of 1/64), 2..8 polyline connectors, one
// segment penalty in {0, 5, 50}.  Inputs first, then libavoid's routes, then an (untrusted) oracle
// certificate per connector computed here with exact integer visibility tests and a double Dijkstra:
//   cert <conn> <V> pi_0 .. pi_{V-1}   potential over the vertices (corners in shape order, then src, dst)
//                                      (penalty 0 only; scaled by (1 - 1e-10) so that it is exactly feasible)
//   wit  <conn> <m> i_0 .. i_{m-1}     witness path (vertex indices) of the oracle optimum
//   oracle <conn> <cost>               oracle optimum (length + penalty * bends), double, unverified
// The Lean driver rebuilds the spec visibility graph itself and verifies potential and witness.
#include "avoid_scene.h"
#include <queue>
#include <limits>
using namespace Avoid;

typedef long long i64;
struct LPt { i64 x, y; };       // coordinates * 64

static i64 area2L(const LPt &a, const LPt &b, const LPt &c) { return (b.x - a.x) * (c.y - a.y) - (c.x - a.x) * (b.y - a.y); }

// exact: does the closed segment pq contain a point strictly inside the CCW convex polygon?
static bool segHitsInteriorL(const std::vector<LPt> &poly, const LPt &p, const LPt &q) {
    size_t n = poly.size();
    std::vector<i64> c(n), d(n);
    bool inP = true, inQ = true;
    for (size_t i = 0; i < n; ++i) {
        c[i] = area2L(poly[i], poly[(i + 1) % n], p);
        i64 cq = area2L(poly[i], poly[(i + 1) % n], q);
        d[i] = cq - c[i];
        if (c[i] <= 0) inP = false;
        if (cq <= 0) inQ = false;
        if (c[i] <= 0 && cq <= 0) return false;
    }
    if (inP || inQ) return true;
    // open interval (lo, hi) as fractions ln/ld, hn/hd with positive denominators
    __int128 ln = 0, ld = 1, hn = 1, hd = 1;
    for (size_t i = 0; i < n; ++i) {
        if (d[i] > 0) { __int128 bn = -c[i], bd = d[i]; if (ln * bd < bn * ld) { ln = bn; ld = bd; } }       // t > -c/d
        else if (d[i] < 0) { __int128 bn = c[i], bd = -d[i]; if (bn * hd < hn * bd) { hn = bn; hd = bd; } }   // t < c/(-d)
        else if (c[i] <= 0) return false;
    }
    return ln * hd < hn * ld;
}

struct ConnSpec { unsigned id; double sx, sy, dx, dy; };

static LPt toL(double x, double y) { return LPt{(i64) llround(x * 64), (i64) llround(y * 64)}; }

// one case: inputs, libavoid run, oracle certificate
static void runCase(long k, const std::string &tag, const vs::Scene &s, const std::vector<ConnSpec> &cs, bool lee, double penalty, bool ignoreRegions) {
    vh::beginCase(k, tag.c_str());
    printf("cfg lee %d penalty %s ignoreRegions %d\n", (int) lee, vh::hx(penalty).c_str(), (int) ignoreRegions);
    for (size_t i = 0; i < s.shapes.size(); ++i) vs::printShape((unsigned) (i + 1), s.shapes[i]);
    for (auto &c : cs) printf("conn %u %s %s %s %s\n", c.id, vh::hx(c.sx).c_str(), vh::hx(c.sy).c_str(), vh::hx(c.dx).c_str(), vh::hx(c.dy).c_str());
    fflush(stdout);
    // ---- libavoid
    Router *router = new Router(PolyLineRouting);
    router->UseLeesAlgorithm = lee;
    router->IgnoreRegions = ignoreRegions;
    router->setRoutingParameter(segmentPenalty, penalty);       // every other penalty is 0 by default
    for (size_t i = 0; i < s.shapes.size(); ++i) { Polygon p = vs::toAvoid(s.shapes[i]); new ShapeRef(router, p, (unsigned) (i + 1)); }
    std::vector<ConnRef *> crs;
    for (auto &c : cs) crs.push_back(new ConnRef(router, ConnEnd(Point(c.sx, c.sy)), ConnEnd(Point(c.dx, c.dy)), c.id));
    router->processTransaction();
    for (size_t i = 0; i < crs.size(); ++i) {
        vs::printPts("route", cs[i].id, crs[i]->route().ps);
        vs::printPts("display", cs[i].id, crs[i]->displayRoute().ps);
    }
    delete router;
    // ---- oracle (untrusted): exact visibility, Dijkstra in doubles
    std::vector<std::vector<LPt> > polys;
    std::vector<LPt> V; std::vector<Point> VD;
    for (auto &p : s.shapes) { std::vector<LPt> q; for (auto &v : p) { q.push_back(toL(v.x, v.y)); V.push_back(q.back()); VD.push_back(v); } polys.push_back(q); }
    size_t C = V.size(), N = C + 2;
    V.resize(N); VD.resize(N);
    auto visible = [&](size_t i, size_t j) {
        for (auto &q : polys) if (segHitsInteriorL(q, V[i], V[j])) return false;
        return true;
    };
    std::vector<std::vector<char> > vis(N, std::vector<char>(N, 0));
    for (size_t i = 0; i < C; ++i) for (size_t j = i + 1; j < C; ++j) vis[i][j] = vis[j][i] = visible(i, j);
    auto len = [&](size_t i, size_t j) { double dx = VD[i].x - VD[j].x, dy = VD[i].y - VD[j].y; return std::sqrt(dx * dx + dy * dy); };
    const double INF = std::numeric_limits<double>::infinity();
    for (auto &c : cs) {
        V[C] = toL(c.sx, c.sy); VD[C] = Point(c.sx, c.sy); V[C + 1] = toL(c.dx, c.dy); VD[C + 1] = Point(c.dx, c.dy);
        for (size_t e = C; e < N; ++e) for (size_t j = 0; j < N; ++j) if (j != e) vis[e][j] = vis[j][e] = visible(e, j);
        std::vector<size_t> path;
        double best = INF;
        if (penalty == 0) {
            std::vector<double> dist(N, INF); std::vector<long> prev(N, -1); std::vector<char> done(N, 0);
            dist[C] = 0;
            for (size_t it = 0; it < N; ++it) {
                size_t u = N; for (size_t i = 0; i < N; ++i) if (!done[i] && dist[i] < INF && (u == N || dist[i] < dist[u])) u = i;
                if (u == N) break;
                done[u] = 1;
                for (size_t w = 0; w < N; ++w) if (w != u && vis[u][w]) { double nd = dist[u] + len(u, w); if (nd < dist[w]) { dist[w] = nd; prev[w] = (long) u; } }
            }
            best = dist[C + 1];
            printf("cert %u %zu", c.id, N);
            for (size_t i = 0; i < N; ++i) printf(" %s", vh::hx(dist[i] < INF ? dist[i] * (1.0 - 1e-10) : 0.0).c_str());
            printf("\n");
            if (best < INF) for (long v = (long) C + 1; v >= 0; v = prev[v]) path.push_back((size_t) v);
            std::reverse(path.begin(), path.end());
        } else {
            // states (v, p): at v having arrived from p (p = N: start)
            size_t S = N * (N + 1);
            std::vector<double> dist(S, INF); std::vector<long> prev(S, -1);
            typedef std::pair<double, size_t> QE;
            std::priority_queue<QE, std::vector<QE>, std::greater<QE> > pq;
            dist[C * (N + 1) + N] = 0; pq.push(QE(0, C * (N + 1) + N));
            long goal = -1;
            while (!pq.empty()) {
                QE t = pq.top(); pq.pop();
                if (t.first > dist[t.second]) continue;
                size_t v = t.second / (N + 1), p = t.second % (N + 1);
                if (v == C + 1) { goal = (long) t.second; best = t.first; break; }
                for (size_t w = 0; w < N; ++w) if (w != v && vis[v][w]) {
                    double cst = len(v, w);
                    if (p != N && area2L(V[p], V[v], V[w]) != 0) cst += penalty;
                    else if (p != N) {      // collinear: straight on is free, doubling back is a bend
                        i64 dot = (V[v].x - V[p].x) * (V[w].x - V[v].x) + (V[v].y - V[p].y) * (V[w].y - V[v].y);
                        if (dot < 0) cst += penalty;
                    }
                    size_t ns = w * (N + 1) + v;
                    if (t.first + cst < dist[ns]) { dist[ns] = t.first + cst; prev[ns] = (long) t.second; pq.push(QE(dist[ns], ns)); }
                }
            }
            for (long st = goal; st >= 0; st = prev[st]) path.push_back((size_t) st / (N + 1));
            std::reverse(path.begin(), path.end());
        }
        printf("wit %u %zu", c.id, path.size());
        for (size_t i = 0; i < path.size(); ++i) printf(" %zu", path[i]);
        printf("\n");
        printf("oracle %u %s\n", c.id, vh::hx(best).c_str());
    }
    vh::endCase();
}

int main(int argc, char **argv) {
    vh::Args a = vh::parseArgs(argc, argv);
    bool thorough = (a.tier == "thorough");
    long nrand = (thorough ? 500 : 150) * a.scale;
    if (a.n >= 0) nrand = a.n;
    for (long k = 0; k < nrand; ++k) {
        if (!a.want(k)) continue;
        vh::Rng r = vh::caseRng(a.seed, k);
        bool generic = r.coin(1, 2);
        bool lee = r.coin(4, 5);
        // segment penalty: 0 (two-sided certified comparison), integers, and fractional values (a search that
        // rounds the per-bend charge would only show on those)
        double penalty = std::vector<double>{0, 0, 0, 0, 5, 50, 0.5, 1.5, 2.75, 11.5}[r.range(0, 9)];
        // IgnoreRegions (default true) prunes visibility edges that no *Euclidean* shortest path uses; with a
        // bend penalty such edges can be part of the optimum, so penalty > 0 is run with both settings
        bool ignoreRegions = (penalty == 0) ? r.coin(3, 4) : r.coin(1, 2);
        vs::SceneOpts so;
        so.nShapesMin = 1; so.nShapesMax = thorough ? (r.coin(1, 6) ? 20 : 10) : 8;
        so.margin = 1; so.rectPct = 50; so.fullCellPct = 25; so.jitter = generic;
        vs::Scene s = vs::genScene(r, so);
        std::vector<vs::DPoly> rp = vs::routingPolys(s, 0);
        int nconn = (int) r.range(2, thorough ? 8 : 5);
        std::vector<ConnSpec> cs;
        bool hug = r.coin(1, 3);
        for (int i = 0; i < nconn; ++i) {
            ConnSpec c; c.id = 101 + i;
            double clear = generic ? 0.25 : 0.0;
            if (hug && r.coin(2, 3)) { if (!vs::hugPoint(r, s, rp, clear, c.sx, c.sy) || !vs::hugPoint(r, s, rp, clear, c.dx, c.dy)) continue; }
            else if (!vs::freePoint(r, s, rp, clear, c.sx, c.sy, r.coin(1, 3)) || !vs::freePoint(r, s, rp, clear, c.dx, c.dy, r.coin(1, 3))) continue;
            if (generic) { c.sx += r.range(-7, 7) / 64.0; c.sy += r.range(-7, 7) / 64.0; c.dx += r.range(-7, 7) / 64.0; c.dy += r.range(-7, 7) / 64.0; }
            if (c.sx == c.dx && c.sy == c.dy) continue;
            cs.push_back(c);
        }
        if (cs.empty()) { vh::beginCase(k, "empty"); vh::endCase(); continue; }
        std::vector<Point> eps;
        for (auto &c : cs) { eps.push_back(Point(c.sx, c.sy)); eps.push_back(Point(c.dx, c.dy)); }
        bool degenerate = vs::hasCollinearTriple(rp, eps);
        std::string tag = degenerate ? (lee ? "lee-collinear" : "naive-vis-collinear") : (lee ? "generic-lee" : "generic-naive");
        if (penalty > 0) tag += ignoreRegions ? "-pen-pruned" : "-pen-full";
        runCase(k, tag, s, cs, lee, penalty, ignoreRegions);
    }
    // ---- aligned-sides class (strict): 2..4 separated rectangles in a row (or column) with one side on a
    //      common line, every insertion order, endpoints beyond both ends of the row and slightly on the
    //      obstacle side of the line, so that the optimum runs along the common line past all of them.
    long k = nrand;
    long nal = (thorough ? 120 : 40) * a.scale;
    for (long c = 0; c < nal; ++c, ++k) {
        if (!a.want(k)) continue;
        vh::Rng r = vh::caseRng(a.seed, k, 11);
        int nb = (int) r.range(2, 4);
        bool column = r.coin();             // boxes stacked along y (shared x line) instead of along x
        bool lowSide = r.coin();            // shared line is the low (min) side of the boxes, else the high side
        double penalty = std::vector<double>{0, 0, 0, 5, 50, 1.5, 11.5}[r.range(0, 6)];
        bool ignoreRegions = r.coin(4, 5);
        long U = r.range(1, 3);             // scale
        long line = r.range(0, 6);
        std::vector<vs::IPoly> boxes;
        long pos = r.range(0, 4), minExt = 1000;
        for (int i = 0; i < nb; ++i) {
            long w = r.range(3, 12), h = r.range(5, 12);
            minExt = std::min(minExt, h);
            long a0 = pos, a1 = pos + w, b0 = lowSide ? line : line - h, b1 = lowSide ? line + h : line;
            boxes.push_back(column ? vs::rectPoly(b0 * U, a0 * U, b1 * U, a1 * U) : vs::rectPoly(a0 * U, b0 * U, a1 * U, b1 * U));
            pos = a1 + r.range(1, 12);      // gap >= 1
        }
        long endPos = pos;                  // beyond the last box
        long t = r.range(1, std::min(3L, minExt - 2));          // offset of the endpoints from the line, towards the boxes
        long off = lowSide ? line + t : line - t;
        long s0 = -r.range(2, 8), s1 = endPos + r.range(1, 7);
        ConnSpec cn; cn.id = 101;
        bool flip = r.coin();
        double ax = (double) ((flip ? s1 : s0) * U), bx = (double) ((flip ? s0 : s1) * U), o = (double) (off * U);
        if (column) { cn.sx = o; cn.sy = ax; cn.dx = o; cn.dy = bx; } else { cn.sx = ax; cn.sy = o; cn.dx = bx; cn.dy = o; }
        std::vector<size_t> order; for (int i = 0; i < nb; ++i) order.push_back((size_t) i);
        r.shuffle(order);
        vs::Scene s; s.W = endPos * U; s.H = 20 * U;
        for (size_t i = 0; i < order.size(); ++i) { s.shapes.push_back(vs::toD(boxes[order[i]])); s.isRect.push_back(true); }
        std::vector<ConnSpec> cs; cs.push_back(cn);
        if (r.coin(1, 3)) {                 // a second connector in the other direction / other offset
            ConnSpec c2 = cn; c2.id = 102; std::swap(c2.sx, c2.dx); std::swap(c2.sy, c2.dy); cs.push_back(c2);
        }
        runCase(k, penalty > 0 ? "aligned-sides-pen" : "aligned-sides", s, cs, true, penalty, ignoreRegions);
    }
    // ---- fractional-onebox class (strict): one rectangle, two competing routes: over the box with 1 bend
    //      (length L1) and under it with 2 bends (length L2 < L1); the box bottom is tuned so that
    //      floor(p) < L1 - L2 < p for a fractional segment penalty p, i.e. the 1-bend route is the optimum
    //      of length + p*bends while the 2-bend route would win with the per-bend charge rounded down.
    long nfr = (thorough ? 100 : 30) * a.scale;
    for (long c = 0; c < nfr; ++c, ++k) {
        if (!a.want(k)) continue;
        vh::Rng r = vh::caseRng(a.seed, k, 13);
        double pen = std::vector<double>{0.5, 0.9, 1.5, 2.75, 11.5}[r.range(0, 4)];
        double fl = std::floor(pen), fr = pen - fl;
        bool found = false;
        double bx0 = 0, bx1 = 0, T = 0, B = 0, dx = 0, dy = 0;
        for (int tries = 0; tries < 200 && !found; ++tries) {
            bx0 = (double) r.range(20, 60); bx1 = bx0 + (double) r.range(10, 40); T = (double) r.range(15, 70);
            dx = bx1 + (double) r.range(60, 160); dy = T + (double) r.range(5, 25);
            double L1 = std::hypot(bx0, T) + std::hypot(dx - bx0, dy - T);
            std::vector<double> ok;
            for (int q = 1; q < 1600; ++q) {
                double b = -q / 8.0;
                double L2 = std::hypot(bx0, b) + (bx1 - bx0) + std::hypot(dx - bx1, dy - b);
                double d = L1 - L2;
                if (d > fl + 0.15 * fr && d < pen - 0.15 * fr) ok.push_back(b);
                if (d < fl) break;
            }
            if (!ok.empty()) { B = r.pick(ok); found = true; }
        }
        if (!found) { vh::beginCase(k, "empty"); vh::endCase(); continue; }
        bool mx = r.coin(), my = r.coin(), tr = r.coin();
        auto X = [&](double x, double y, double &ox, double &oy) { if (mx) x = -x; if (my) y = -y; if (tr) std::swap(x, y); ox = x; oy = y; };
        double x0, y0, x1, y1; X(bx0, B, x0, y0); X(bx1, T, x1, y1);
        vs::Scene s; s.W = 300; s.H = 300;
        vs::DPoly box;      // counter-clockwise, Avoid::Rectangle vertex order
        double lx = std::min(x0, x1), hx = std::max(x0, x1), ly = std::min(y0, y1), hy = std::max(y0, y1);
        box.push_back(Point(hx, ly)); box.push_back(Point(hx, hy)); box.push_back(Point(lx, hy)); box.push_back(Point(lx, ly));
        s.shapes.push_back(box); s.isRect.push_back(true);
        ConnSpec cn; cn.id = 101; X(0, 0, cn.sx, cn.sy); X(dx, dy, cn.dx, cn.dy);
        if (r.coin()) { std::swap(cn.sx, cn.dx); std::swap(cn.sy, cn.dy); }
        std::vector<ConnSpec> cs; cs.push_back(cn);
        runCase(k, "fractional-onebox", s, cs, true, pen, r.coin(3, 4));
    }
    return 0;
}
