// C09 correspondence harness: libvpsc scan-line constraint generation and removeoverlaps.
//
// One case = one rectangle set.  Printed first (inputs): borders, rectangles (raw fields), the
// fixed subset, thirdPass.  Then (implementation observables): the constraints produced by
// generateYConstraints / generateXConstraints(useNeighbourLists = false / true) under the
// case's border settings, and the rectangles + border globals after removeoverlaps().
//
//   n <n>
//   gb <xBorder> <yBorder>           borders in force for the generate* calls
//   rb <xBorder> <yBorder>           borders in force when removeoverlaps is called
//   r <minX> <maxX> <minY> <maxY>    raw fields (n lines)
//   vid <id0> <id1> ...              distinct variable ids given to generate* (constraints name ids)
//   fixed <i> ...                    (possibly empty)
//   third <0|1>
//   cy|cx0|cx1 <left id> <right id> <gap>      one line per generated constraint
//   gdone cy|cx0|cx1 <count>
//   ro ok | ro threw <token>
//   ba <xBorder> <yBorder>           border globals after removeoverlaps
//   o <minX> <maxX> <minY> <maxY>    raw fields after removeoverlaps (n lines)
#include "common.h"
#include "libvpsc/rectangle.h"
#include "libvpsc/variable.h"
#include "libvpsc/constraint.h"
#include "libvpsc/exceptions.h"
#include <set>
using namespace vpsc;

struct R4 { double x, X, y, Y; };

struct CaseIn {
    std::string tag;
    std::vector<R4> rs;
    double gbx = 0, gby = 0;   // borders for generate*
    double rbx = 0, rby = 0;   // borders for removeoverlaps
    std::set<unsigned> fixed;
    bool third = false;
    std::vector<int> vid;      // distinct variable ids handed to generate*Constraints
};

// dyadic value k/2^j
static double dy(long k, int j) { return std::ldexp((double) k, -j); }

static bool overlapStrict(const R4 &a, const R4 &b, double margin) {
    return a.x - margin < b.X && b.x - margin < a.X && a.y - margin < b.Y && b.y - margin < a.Y;
}

static long pickN(vh::Rng &r, bool thorough) {
    if (!thorough) return r.range(1, 12);
    long c = r.range(0, 99);
    if (c < 55) return r.range(1, 12);
    if (c < 85) return r.range(13, 60);
    if (c < 96) return r.range(61, 150);
    return r.range(151, 400);
}

static CaseIn genCase(uint64_t seed, long k, bool thorough) {
    vh::Rng r = vh::caseRng(seed, (uint64_t) k);
    CaseIn c;
    static const char *classes[] = {"identical", "thin", "grid", "nested", "chain", "random", "randtf", "fixedsq", "multifixed", "bigfixed"};
    int cls = (int) (k % 10);
    c.tag = classes[cls];
    bool multi = (cls == 8), big = (cls == 9);
    if (multi || big) cls = 5;
    long n = pickN(r, thorough);
    if (big) n = thorough ? r.range(13, 400) : r.range(13, 40);
    std::vector<R4> &rs = c.rs;
    switch (cls) {
    case 0: {   // identical rectangles (a few distinct prototypes, many exact copies)
        int protos = (int) r.range(1, 3);
        std::vector<R4> ps;
        for (int p = 0; p < protos; ++p) {
            double x = r.range(-8, 8), y = r.range(-8, 8), w = r.range(1, 8), h = r.range(1, 8);
            ps.push_back(R4{x, x + w, y, y + h});
        }
        for (long i = 0; i < n; ++i) rs.push_back(ps[r.range(0, protos - 1)]);
        break; }
    case 1: {   // thin rectangles: width or height 2^-10 .. 2^-4, the other side long
        for (long i = 0; i < n; ++i) {
            double t = dy(1, (int) r.range(4, 10)), len = r.range(1, 40);
            double x = dy(r.range(-160, 160), 3), y = dy(r.range(-160, 160), 3);
            if (r.coin(1, 5)) rs.push_back(R4{x, x + t, y, y + t});             // tiny in both
            else if (r.coin()) rs.push_back(R4{x, x + t, y, y + len});
            else rs.push_back(R4{x, x + len, y, y + t});
        }
        break; }
    case 2: {   // grid-aligned, equal sizes: many equal centres / equal event positions
        long side = 1 + (long) std::sqrt((double) n);
        double w = r.range(1, 4), h = r.range(1, 4);
        long stepx = r.range(1, 4), stepy = r.range(1, 4);
        for (long i = 0; i < n; ++i) {
            double x = stepx * r.range(0, side), y = stepy * r.range(0, side);
            rs.push_back(R4{x, x + w, y, y + h});
        }
        break; }
    case 3: {   // nested: concentric or corner-anchored shrinking rectangles
        double cx = r.range(-4, 4), cy = r.range(-4, 4);
        bool concentric = r.coin();
        for (long i = 0; i < n; ++i) {
            double hw = dy(2 * (n - i) + r.range(0, 1), 1), hh = dy(2 * (n - i) + r.range(0, 1), 1);
            if (concentric) rs.push_back(R4{cx - hw, cx + hw, cy - hh, cy + hh});
            else rs.push_back(R4{cx, cx + 2 * hw, cy, cy + 2 * hh});
        }
        r.shuffle(rs);
        break; }
    case 4: {   // chain: each overlaps the next
        double x = 0, y = 0;
        int dir = (int) r.range(0, 2);      // 0 diagonal, 1 horizontal, 2 vertical
        for (long i = 0; i < n; ++i) {
            double w = r.range(2, 8), h = r.range(2, 8);
            rs.push_back(R4{x, x + w, y, y + h});
            if (dir != 2) x += dy(r.range(1, (long) (2 * w) - 1), 1);
            if (dir != 1) y += dy(r.range(1, (long) (2 * h) - 1), 1);
        }
        r.shuffle(rs);
        break; }
    case 5: {   // random, coordinates k/4 in a box whose area scales with n (moderate density)
        long span = 8 + (long) (4 * std::sqrt((double) n));
        for (long i = 0; i < n; ++i) {
            double x = dy(r.range(0, 4 * span), 2), y = dy(r.range(0, 4 * span), 2);
            double w = dy(r.range(1, 40), 2), h = dy(r.range(1, 40), 2);
            rs.push_back(R4{x, x + w, y, y + h});
        }
        break; }
    case 6: {   // random tie-free: distinct low-order offsets make all keys / event positions distinct
        long span = 8 + (long) (4 * std::sqrt((double) n));
        std::vector<long> off;
        for (long i = 0; i < 4 * n; ++i) off.push_back(i);
        r.shuffle(off);
        for (long i = 0; i < n; ++i) {
            // x, X, y, Y get distinct residues mod 2^-12 scaled, so no two coordinates coincide and
            // (after doubling) no two centres coincide
            double x = r.range(0, span) + dy(2 * off[4 * i], 12);
            double X = x + r.range(1, 10) + dy(2 * off[4 * i + 1], 12) ;
            double y = r.range(0, span) + dy(2 * off[4 * i + 2], 12);
            double Y = y + r.range(1, 10) + dy(2 * off[4 * i + 3], 12);
            rs.push_back(R4{x, X, y, Y});
        }
        break; }
    default: {  // fixed-squeeze: a movable rectangle between two fixed ones that leave it no room
        double w = r.range(4, 10);
        double gapw = dy(r.range(2, (long) (2 * w) - 2), 1);     // room between the fixed ones < w
        rs.push_back(R4{0, w, 0, w});
        rs.push_back(R4{w + gapw, 2 * w + gapw, 0, w});
        double mx = w + gapw / 2 - w / 2;
        rs.push_back(R4{mx, mx + w, dy(r.range(-2, 2), 1), dy(r.range(-2, 2), 1) + w});
        c.fixed.insert(0); c.fixed.insert(1);
        n = 3;
        break; }
    }
    // borders for the generate* calls
    static const double bvals[] = {0, 0, 0, 0.5, 1, 0.0625, 2};
    c.gbx = bvals[r.range(0, 6)];
    c.gby = bvals[r.range(0, 6)];
    if (r.coin(1, 4)) { c.rbx = bvals[r.range(0, 6)]; c.rby = bvals[r.range(0, 6)]; }
    c.third = r.coin();
    // variable ids for the generate* calls: the index, or (every other case) a random set of
    // distinct ids in random order - CmpNodePos breaks ties between equal centres by variable id
    for (long i = 0; i < n; ++i) c.vid.push_back((int) i);
    if (r.coin()) {
        for (long i = 0; i < n; ++i) c.vid[i] = (int) (3 * i + r.range(0, 2));
        r.shuffle(c.vid);
    }
    // fixed subset.  "fixed" is only a weight of 10000 against 1 in the code, so
    //  * two fixed rectangles that end up in one chain are pushed apart (fixedsq, multifixed),
    //  * a single fixed rectangle inside a large cluster drifts by (cluster size x extent)/10000
    //    (bigfixed: n > 12, one fixed).
    // Classes 0-6 therefore use: no fixed set, or (n <= 12 only) a single fixed rectangle.
    // multifixed: a random set of >= 2 rectangles pairwise clear of each other (by more than the
    // borders removeoverlaps will add).
    if (cls != 7) {
        long mode = multi ? 9 : big ? 5 : (n <= 12 ? r.range(0, 6) : 0);
        if (mode >= 4 && n > 0) {
            std::vector<unsigned> order;
            for (long i = 0; i < n; ++i) order.push_back((unsigned) i);
            r.shuffle(order);
            long want = (mode < 7) ? 1 : r.range(2, std::max(2L, n / 2));
            double margin = 2 * (std::max(c.rbx, c.rby) + 0.0625);
            for (size_t q = 0; q < order.size() && (long) c.fixed.size() < want; ++q) {
                bool clear = true;
                for (std::set<unsigned>::iterator f = c.fixed.begin(); f != c.fixed.end(); ++f)
                    if (overlapStrict(rs[order[q]], rs[*f], margin)) clear = false;
                if (clear) c.fixed.insert(order[q]);
            }
        }
    }
    return c;
}

static void printCons(const char *key, Constraints &cs) {
    for (size_t i = 0; i < cs.size(); ++i)
        printf("%s %d %d %s\n", key, cs[i]->left->id, cs[i]->right->id, vh::hx(cs[i]->gap).c_str());
    printf("gdone %s %zu\n", key, cs.size());
    for (size_t i = 0; i < cs.size(); ++i) delete cs[i];
    cs.clear();
}

static void runCase(long k, const CaseIn &c) {
    vh::beginCase(k, c.tag.c_str());
    const size_t n = c.rs.size();
    printf("n %zu\n", n);
    printf("gb %s %s\n", vh::hx(c.gbx).c_str(), vh::hx(c.gby).c_str());
    printf("rb %s %s\n", vh::hx(c.rbx).c_str(), vh::hx(c.rby).c_str());
    for (size_t i = 0; i < n; ++i)
        printf("r %s %s %s %s\n", vh::hx(c.rs[i].x).c_str(), vh::hx(c.rs[i].X).c_str(),
               vh::hx(c.rs[i].y).c_str(), vh::hx(c.rs[i].Y).c_str());
    printf("vid");
    for (size_t i = 0; i < n; ++i) printf(" %d", c.vid[i]);
    printf("\nfixed");
    for (std::set<unsigned>::const_iterator f = c.fixed.begin(); f != c.fixed.end(); ++f) printf(" %u", *f);
    printf("\nthird %d\n", (int) c.third);
    fflush(stdout);

    Rectangle::setXBorder(0);
    Rectangle::setYBorder(0);
    Rectangles rs;
    Variables vs;
    for (size_t i = 0; i < n; ++i) {
        rs.push_back(new Rectangle(c.rs[i].x, c.rs[i].X, c.rs[i].y, c.rs[i].Y));
        vs.push_back(new Variable(c.vid[i]));
    }
    // --- constraint generation under the case's borders
    Rectangle::setXBorder(c.gbx);
    Rectangle::setYBorder(c.gby);
    Constraints cs;
    generateYConstraints(rs, vs, cs);
    printCons("cy", cs);
    generateXConstraints(rs, vs, cs, false);
    printCons("cx0", cs);
    generateXConstraints(rs, vs, cs, true);
    printCons("cx1", cs);
    fflush(stdout);
    // --- removeoverlaps
    Rectangle::setXBorder(c.rbx);
    Rectangle::setYBorder(c.rby);
    const char *status = "ok";
    try {
        removeoverlaps(rs, c.fixed, c.third);
    } catch (UnsatisfiedConstraint &) { status = "threw UnsatisfiedConstraint";
    } catch (char *) { status = "threw charptr";
    } catch (const char *) { status = "threw constcharptr";
    } catch (std::exception &) { status = "threw std_exception";
    } catch (...) { status = "threw unknown"; }
    printf("ro %s\n", status);
    printf("ba %s %s\n", vh::hx(Rectangle::xBorder).c_str(), vh::hx(Rectangle::yBorder).c_str());
    Rectangle::setXBorder(0);
    Rectangle::setYBorder(0);
    for (size_t i = 0; i < n; ++i)
        printf("o %s %s %s %s\n", vh::hx(rs[i]->getMinX()).c_str(), vh::hx(rs[i]->getMaxX()).c_str(),
               vh::hx(rs[i]->getMinY()).c_str(), vh::hx(rs[i]->getMaxY()).c_str());
    for (size_t i = 0; i < n; ++i) { delete rs[i]; delete vs[i]; }
    vh::endCase();
}

int main(int argc, char **argv) {
    vh::Args a = vh::parseArgs(argc, argv);
    bool thorough = (a.tier == "thorough");
    long ncases = (thorough ? 3000 : 1500) * a.scale;
    if (a.n >= 0) ncases = a.n;
    for (long k = 0; k < ncases; ++k) {
        if (!a.want(k)) continue;
        CaseIn c = genCase(a.seed, k, thorough);
        runCase(k, c);
    }
    return 0;
}
