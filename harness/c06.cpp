// C06 correspondence harness: libavoid incremental transactions vs routing from scratch.
//
// One case = one history of API calls on one Router (rectangles, free-floating junctions,
// connectors with free-space endpoints). Stream per case (doubles as %a):
//   cfg <poly|orth> <segmentPenalty> <txn0>
//   op <name> <args…>                    printed BEFORE the call is made
//   os <id> <isJ> <active> <n> x y …     after the call: every obstacle object still alive
//   oc <id> <hasSrc> <sAnchor> <sCls> sx sy <hasDst> <dAnchor> <dCls> dx dy      every connector: ConnRef::endpointConnEnds();
//                                         a free end: anchor 0, cls 0, the end vertex; an end attached to a pin
//                                         class of a shape / to a junction: obstacle id, pinClassId(), 0 0
//   pp <shape> <cls> <xo> <yo> x y        ShapeConnectionPin::position() of every pin the harness created
//   oe                                    end of the observation (driver steps its model here)
//   txn <seq> <graphDumped>               a processing point (explicit processTransaction(), or
//                                         any call while transactions are off)
//   rt <conn> <n> pts…   displayRoute()   rr <conn> <n> pts…   route() (raw)
//   ff <0|1>                              fresh router built (all connectors have both ends)
//   fr <conn> <n> pts…   route() of a FRESH router on the same final scene, same options
//   fd <conn> <n> pts…   its displayRoute()
//   ve o1 vn1 c1 x1 y1 o2 vn2 c2 x2 y2    visibility edge (visGraph / visOrthogGraph)
//   ie … blocker                          invisibility edge
//   te
// Reroute-decision observables (Model/Reroute.lean), printed with every observation / processing point:
//   orp <id> <n> x y …                    Obstacle::routingPolygon() of every obstacle object still alive
//   ran <0|1|2>                           did the router process a non-empty transaction in this call
//                                         (return value of processTransaction(); 2 = implicit call, unknown)
//   rp <conn> <0|1>                       ConnRef::needsRepaint(): set for exactly the connectors whose
//                                         generatePath() ran in the last processed transaction
//   rv <conn> <n> id vn …                 Point::id / Point::vn of the points of route() (the visibility-graph
//                                         vertices of the path: obstacle id + corner number)
//   hk <conn> <needsReroute> <falsePath> <routeDist> <staticInvalidated>     (hook only) the state handed to
//                                         verifRerouteSink at the top of rerouteAndCallbackConnectors
//   pf <conn> <needsReroute> <falsePath> <routeDist>     (hook only) the same members after the transaction
//   ct <conn> <1|2> <n> ids…              Router::contains of the source / target vertex
//   hook <0|1>                            whether the library was built with ADAPTAGRAMS_VERIF_REROUTE_HOOK
// The generator keeps the *immediate-semantics* scene (what the router holds after the next
// processTransaction) interior-disjoint with gaps >= 1 and endpoints >= 1 away from every shape:
// otherwise "valid route" is not promised.
#include "common.h"
#include "libavoid/libavoid.h"
#include <cstdlib>
#include <map>
#include <set>
#include <unistd.h>
#include <sys/types.h>
#include <sys/wait.h>
using namespace Avoid;

namespace {

#ifdef ADAPTAGRAMS_VERIF_REROUTE_HOOK
struct HookRec { unsigned id; bool needs, falsePath; double dist; bool staticInv; };
const Router *g_hookRouter = nullptr;
std::vector<HookRec> g_hookRecs;
void rerouteSink(const Router *router, const ConnRef *conn, bool needs, bool falsePath, double dist, bool staticInv) {
    if (router != g_hookRouter) return;                 // the fresh oracle router is not observed
    g_hookRecs.push_back(HookRec{conn->id(), needs, falsePath, dist, staticInv});
}
#endif

struct Rc { double x0, y0, x1, y1; };

struct PinDef { unsigned cls; double xo, yo; ShapeConnectionPin *pin; };
struct Ob {                 // harness-side mirror of one ShapeRef / JunctionRef
    unsigned id; bool isJ;
    ShapeRef *s; JunctionRef *j;
    Rc r;                   // immediate-semantics geometry (junction: its 2x2 box, centre = position)
    bool pendingAdd, pendingDel;
    int rot;                // the polygon starts at vertex `rot` of Avoid::Rectangle's order (closing side varies)
    std::vector<PinDef> pins;
};
// sa / da: immediate-semantics anchor of the end (0 = free point s / d), scl / dcl its pin class
struct Cn { unsigned id; ConnRef *c; bool hs, hd; Point s, d; unsigned sa, scl, da, dcl; };

struct World {
    Router *router = nullptr;
    bool orth = false; double pen = 0; bool txn = true;
    double buf = 0;                 // shapeBufferDistance
    std::vector<Ob> obs;            // alive C++ objects (incl. queued-for-delete)
    std::vector<Cn> cns;
    std::vector<Rc> graveyard;      // rectangles of deleted shapes (for re-adding at the same place)
    unsigned nextId = 1;
    long seq = 0;
    int dumpsLeft = 2;
    long nops = 0;
    int ran = 2;                    // did the last call process a non-empty transaction (2 = implicit, unknown)
    bool pinsOn = false;            // generator class with connection pins
};

const double LO = 0, HI = 120;

bool sep(const Rc &a, const Rc &b, double gap) {
    return a.x1 + gap <= b.x0 || b.x1 + gap <= a.x0 || a.y1 + gap <= b.y0 || b.y1 + gap <= a.y0;
}
bool ptClear(const Point &p, const Rc &r, double m) {
    return p.x <= r.x0 - m || p.x >= r.x1 + m || p.y <= r.y0 - m || p.y >= r.y1 + m;
}
Rc jbox(double x, double y) { return Rc{x - 1, y - 1, x + 1, y + 1}; }

// is rectangle r placeable for object `self` (id, 0 = new) in the immediate-semantics scene?
bool placeable(const World &w, const Rc &r, unsigned self) {
    if (r.x0 < LO - 60 || r.y0 < LO - 60 || r.x1 > HI + 60 || r.y1 > HI + 60) return false;
    for (const Ob &o : w.obs) {
        if (o.id == self || o.pendingDel) continue;
        if (!sep(r, o.r, 1 + 2 * w.buf)) return false;        // routing polygons stay disjoint too
    }
    for (const Cn &c : w.cns) {
        // (an end attached to a pin lies on the border of its anchor, which `sep` keeps >= 1 away)
        if (c.hs && !c.sa && !ptClear(c.s, r, 1 + w.buf)) return false;    // random placement keeps endpoints out of
        if (c.hd && !c.da && !ptClear(c.d, r, 1 + w.buf)) return false;    // buffer zones (only class buffer-endpoint puts them there)
    }
    return true;
}
bool pointFree(const World &w, const Point &p) {
    for (const Ob &o : w.obs) { if (o.pendingDel) continue; if (!ptClear(p, o.r, 1 + w.buf)) return false; }
    return true;
}

Polygon polyOf(const Rc &r, int rot = 0) {
    Polygon q = Rectangle(Point(r.x0, r.y0), Point(r.x1, r.y1));
    if (rot % 4 == 0) return q;
    Polygon p(4);
    for (int i = 0; i < 4; ++i) p.ps[i] = q.ps[(i + rot) % 4];
    return p;
}

void pts(const Polygon &p) {
    printf(" %zu", p.size());
    for (size_t i = 0; i < p.size(); ++i) printf(" %s %s", vh::hx(p.ps[i].x).c_str(), vh::hx(p.ps[i].y).c_str());
}

// Obstacle::isActive() is private; an obstacle is active iff it is in the public Router::m_obstacles
bool isActive(World &w, const Obstacle *o) {
    return std::find(w.router->m_obstacles.begin(), w.router->m_obstacles.end(), o) != w.router->m_obstacles.end();
}

void observe(World &w) {
    for (const Ob &o : w.obs) {
        if (o.isJ) {
            Point p = o.j->position();
            printf("os %u 1 %d 1 %s %s\n", o.id, (int) isActive(w, o.j), vh::hx(p.x).c_str(), vh::hx(p.y).c_str());
        } else {
            printf("os %u 0 %d", o.id, (int) isActive(w, o.s)); pts(o.s->polygon()); printf("\n");
        }
        printf("orp %u", o.id); pts(o.isJ ? ((Obstacle *) o.j)->routingPolygon() : ((Obstacle *) o.s)->routingPolygon()); printf("\n");
    }
    for (const Ob &o : w.obs)
        for (const PinDef &pd : o.pins) {
            Point q = pd.pin->position();
            printf("pp %u %u %s %s %s %s\n", o.id, pd.cls, vh::hx(pd.xo).c_str(), vh::hx(pd.yo).c_str(), vh::hx(q.x).c_str(), vh::hx(q.y).c_str());
        }
    for (const Cn &c : w.cns) {
        VertInf *v[2] = {c.c->src(), c.c->dst()};
        printf("oc %u", c.id);
        // ConnRef::endpointConnEnds(): a copy of m_src_connend / m_dst_connend if the end is (or was) attached,
        // else ConnEnd(vertex point). (It warns on stderr about an end that is not set yet.)
        std::pair<ConnEnd, ConnEnd> ce;
        if (v[0] || v[1]) ce = c.c->endpointConnEnds();
        for (int e = 0; e < 2; ++e) {
            if (!v[e]) { printf(" 0 0 0 %s %s", vh::hx(0).c_str(), vh::hx(0).c_str()); continue; }
            const ConnEnd &one = e == 0 ? ce.first : ce.second;
            if (one.type() == ConnEndShapePin) printf(" 1 %u %u %s %s", one.shape()->id(), one.pinClassId(), vh::hx(0).c_str(), vh::hx(0).c_str());
            else if (one.type() == ConnEndJunction) printf(" 1 %u %u %s %s", one.junction()->id(), one.pinClassId(), vh::hx(0).c_str(), vh::hx(0).c_str());
            else printf(" 1 0 0 %s %s", vh::hx(v[e]->point.x).c_str(), vh::hx(v[e]->point.y).c_str());
        }
        printf("\n");
    }
    printf("oe\n");
}

Router *mkRouter(bool orth, double pen, double buf, bool pins = false) {
    Router *r = new Router(orth ? OrthogonalRouting : PolyLineRouting);
    r->setRoutingParameter(segmentPenalty, pen);
    if (buf > 0) r->setRoutingParameter(shapeBufferDistance, buf);
    // pin classes: connectors attached to a junction form a hyperedge; with the (default-on) hyperedge improvement
    // displayRoute() is rewritten around a moved junction and HyperedgeImprover::execute leaks (C12 / C15 known
    // findings) - not this property's business, so the option is off in those classes (also in the fresh router)
    if (pins) r->setRoutingOption(improveHyperedgeRoutesMovingJunctions, false);
    return r;
}

void dumpEdges(EdgeList &g, const char *key, bool withBlocker) {
    for (EdgeInf *e = g.begin(); e != g.end(); e = e->lstNext) {
        std::pair<VertID, VertID> ids = e->ids();
        std::pair<Point, Point> p = e->points();
        printf("%s %u %d %d %s %s %u %d %d %s %s", key, ids.first.objID, (int) ids.first.vn, (int) ids.first.isConnPt(),
               vh::hx(p.first.x).c_str(), vh::hx(p.first.y).c_str(), ids.second.objID, (int) ids.second.vn,
               (int) ids.second.isConnPt(), vh::hx(p.second.x).c_str(), vh::hx(p.second.y).c_str());
        if (withBlocker) printf(" %d", e->blocker());
        printf("\n");
    }
}

// a processing point was reached: drop freed objects, print routes, fresh router, graph audit
void settle(World &w) {              // the queue was processed: deleted objects are freed, adds are done
    for (size_t i = 0; i < w.obs.size();) {
        if (w.obs[i].pendingDel) { if (!w.obs[i].isJ) w.graveyard.push_back(w.obs[i].r); w.obs.erase(w.obs.begin() + i); }
        else { w.obs[i].pendingAdd = false; ++i; }
    }
}
void txnPoint(World &w, vh::Rng &rng, bool forceDump) {
    bool dump = forceDump || (w.dumpsLeft > 0 && rng.coin(1, 6));
    if (dump && w.dumpsLeft > 0) --w.dumpsLeft; else if (!forceDump) dump = false;
    if (w.pinsOn) dump = false;                     // the graph audit does not know pin vertices
    printf("txn %ld %d\n", w.seq++, (int) dump);
    bool all = true;
    for (const Cn &c : w.cns) {
        if (!(c.c->src() && c.c->dst())) { all = false; continue; }
        printf("rt %u", c.id); pts(c.c->displayRoute()); printf("\n");
        printf("rr %u", c.id); pts(c.c->route()); printf("\n");
    }
    for (const Cn &c : w.cns) {
        // Router::contains (public): the obstacles whose routing polygon strictly contains an end point
        VertInf *ends[2] = {c.c->src(), c.c->dst()};
        for (int e = 0; e < 2; ++e) {
            if (!ends[e]) continue;
            ContainsMap::const_iterator it = w.router->contains.find(ends[e]->id);
            printf("ct %u %d", c.id, e + 1);
            if (it == w.router->contains.end()) printf(" 0");
            else { printf(" %zu", it->second.size()); for (unsigned v : it->second) printf(" %u", v); }
            printf("\n");
        }
    }
    for (const Cn &c : w.cns) {
        printf("rp %u %d\n", c.id, (int) c.c->needsRepaint());
        const PolyLine &r = c.c->route();
        printf("rv %u %zu", c.id, r.size());
        for (size_t i = 0; i < r.size(); ++i) printf(" %u %u", r.ps[i].id, (unsigned) r.ps[i].vn);
        printf("\n");
#ifdef ADAPTAGRAMS_VERIF_REROUTE_HOOK
        printf("pf %u %d %d %s\n", c.id, (int) c.c->verifNeedsReroute(), (int) c.c->verifFalsePath(), vh::hx(c.c->verifRouteDist()).c_str());
#endif
    }
#ifdef ADAPTAGRAMS_VERIF_REROUTE_HOOK
    for (const HookRec &h : g_hookRecs)
        printf("hk %u %d %d %s %d\n", h.id, (int) h.needs, (int) h.falsePath, vh::hx(h.dist).c_str(), (int) h.staticInv);
    g_hookRecs.clear();
    printf("hook 1\n");
#else
    printf("hook 0\n");
#endif
    printf("ran %d\n", w.ran);
    printf("ff %d\n", (int) all);
    fflush(stdout);
    if (all) {
        Router *f = mkRouter(w.orth, w.pen, w.buf, w.pinsOn);
        std::vector<Ob> so = w.obs;
        std::sort(so.begin(), so.end(), [](const Ob &a, const Ob &b) { return a.id < b.id; });
        std::map<unsigned, ShapeRef *> fs; std::map<unsigned, JunctionRef *> fj;
        for (const Ob &o : so) {
            if (o.isJ) fj[o.id] = new JunctionRef(f, o.j->position(), o.id);
            else {
                Polygon p = o.s->polygon(); ShapeRef *ns = new ShapeRef(f, p, o.id); fs[o.id] = ns;
                for (const PinDef &pd : o.pins) {
                    ShapeConnectionPin *np = new ShapeConnectionPin(ns, pd.cls, pd.xo, pd.yo, true, 0.0, pd.pin->directions());
                    np->setExclusive(false);
                }
            }
        }
        std::vector<ConnRef *> fc;
        for (const Cn &c : w.cns) {
            std::pair<ConnEnd, ConnEnd> ce = c.c->endpointConnEnds();
            ConnEnd two[2] = {ce.first, ce.second};
            VertInf *v[2] = {c.c->src(), c.c->dst()};
            for (int e = 0; e < 2; ++e) {
                if (two[e].type() == ConnEndShapePin) two[e] = ConnEnd(fs.at(two[e].shape()->id()), two[e].pinClassId());
                else if (two[e].type() == ConnEndJunction) two[e] = ConnEnd(fj.at(two[e].junction()->id()));
                else two[e] = ConnEnd(Point(v[e]->point.x, v[e]->point.y));
            }
            fc.push_back(new ConnRef(f, two[0], two[1], c.id));
        }
        f->processTransaction();
        for (size_t i = 0; i < fc.size(); ++i) {
            printf("fr %u", w.cns[i].id); pts(fc[i]->route()); printf("\n");
            printf("fd %u", w.cns[i].id); pts(fc[i]->displayRoute()); printf("\n");
        }
        delete f;
    }
    if (dump) {
        if (w.orth) dumpEdges(w.router->visOrthogGraph, "ve", false);
        else { dumpEdges(w.router->visGraph, "ve", false); dumpEdges(w.router->invisGraph, "ie", true); }
    }
    printf("te\n");
}

Ob *findOb(World &w, unsigned id) { for (Ob &o : w.obs) if (o.id == id) return &o; return nullptr; }

bool willProcess(const World &w) { return !w.txn; }

void after(World &w, vh::Rng &rng, bool processed, bool forceDump = false) {
    if (processed) settle(w);
    observe(w);
    if (processed) txnPoint(w, rng, forceDump);
    fflush(stdout);
    ++w.nops;
}

// ---- API calls (each prints its op line first) ------------------------------------------------
void opAddShape(World &w, vh::Rng &rng, const Rc &r, unsigned id = 0, int rot = 0) {
    if (!id) id = w.nextId++;
    printf("op addShape %u", id); pts(polyOf(r, rot)); printf("\n"); fflush(stdout);
    Polygon p = polyOf(r, rot);
    ShapeRef *s = new ShapeRef(w.router, p, id);
    w.obs.push_back(Ob{id, false, s, nullptr, r, true, false, rot, {}});
    after(w, rng, willProcess(w));
}
void opProcess(World &w, vh::Rng &rng, bool forceDump = false);
void opAddJunction(World &w, vh::Rng &rng, double x, double y) {
    // With transactions off `new JunctionRef` runs TWO transactions: its connection pin registers itself
    // (modifyConnectionPin -> processTransaction, which flushes whatever is still queued) before addJunction
    // queues and processes the JunctionAdd; only the second is observable through needsRepaint(). Flush
    // first, so that the first one has nothing to do.
    if (!w.txn) opProcess(w, rng, false);
    unsigned id = w.nextId++;
    printf("op addJunction %u %s %s\n", id, vh::hx(x).c_str(), vh::hx(y).c_str()); fflush(stdout);
    JunctionRef *j = new JunctionRef(w.router, Point(x, y), id);
    w.obs.push_back(Ob{id, true, nullptr, j, jbox(x, y), true, false, 0, {}});
    after(w, rng, willProcess(w));
}
void opMoveAbs(World &w, vh::Rng &rng, unsigned id, const Rc &r, bool fm) {
    Ob *o = findOb(w, id);
    bool proc = willProcess(w) && !o->pendingAdd;     // "The Add is enough": returns before the tail
    if (o->isJ) {
        double x = (r.x0 + r.x1) / 2, y = (r.y0 + r.y1) / 2;
        printf("op moveJunctionAbs %u %s %s\n", id, vh::hx(x).c_str(), vh::hx(y).c_str()); fflush(stdout);
        w.router->moveJunction(o->j, Point(x, y));
    } else {
        printf("op moveShapeAbs %u %d", id, (int) fm); pts(polyOf(r, o->rot)); printf("\n"); fflush(stdout);
        w.router->moveShape(o->s, polyOf(r, o->rot), fm);
    }
    o->r = r;
    after(w, rng, proc);
}
void opMoveRel(World &w, vh::Rng &rng, unsigned id, double dx, double dy) {
    Ob *o = findOb(w, id);
    bool proc = willProcess(w) && !o->pendingAdd;
    printf("op %s %u %s %s\n", o->isJ ? "moveJunctionRel" : "moveShapeRel", id, vh::hx(dx).c_str(), vh::hx(dy).c_str());
    fflush(stdout);
    if (o->isJ) w.router->moveJunction(o->j, dx, dy); else w.router->moveShape(o->s, dx, dy);
    o->r = Rc{o->r.x0 + dx, o->r.y0 + dy, o->r.x1 + dx, o->r.y1 + dy};
    after(w, rng, proc);
}
void opDelete(World &w, vh::Rng &rng, unsigned id) {
    Ob *o = findOb(w, id);
    printf("op %s %u\n", o->isJ ? "deleteJunction" : "deleteShape", id); fflush(stdout);
    if (o->isJ) w.router->deleteJunction(o->j); else w.router->deleteShape(o->s);
    o->pendingDel = true;
    after(w, rng, willProcess(w));
}
void opNewConn(World &w, vh::Rng &rng, const Point &s, const Point &d, bool oneCall) {
    unsigned id = w.nextId++;
    printf("op newConn %u\n", id);
    if (oneCall && w.txn) {
        // ConnRef(router, src, dst, id) = ConnRef(router, id) + setEndpoints (two modifyConnector calls)
        printf("op setEndpoint %u 1 %s %s\n", id, vh::hx(s.x).c_str(), vh::hx(s.y).c_str());
        printf("op setEndpoint %u 2 %s %s\n", id, vh::hx(d.x).c_str(), vh::hx(d.y).c_str()); fflush(stdout);
        ConnRef *c = new ConnRef(w.router, ConnEnd(s), ConnEnd(d), id);
        w.cns.push_back(Cn{id, c, true, true, s, d, 0, 0, 0, 0});
        after(w, rng, false);
        return;
    }
    fflush(stdout);
    ConnRef *c = new ConnRef(w.router, id);
    w.cns.push_back(Cn{id, c, false, false, Point(0, 0), Point(0, 0), 0, 0, 0, 0});
    after(w, rng, false);
    printf("op setEndpoint %u 1 %s %s\n", id, vh::hx(s.x).c_str(), vh::hx(s.y).c_str()); fflush(stdout);
    c->setSourceEndpoint(ConnEnd(s)); w.cns.back().hs = true; w.cns.back().s = s;
    after(w, rng, willProcess(w));
    printf("op setEndpoint %u 2 %s %s\n", id, vh::hx(d.x).c_str(), vh::hx(d.y).c_str()); fflush(stdout);
    c->setDestEndpoint(ConnEnd(d)); w.cns.back().hd = true; w.cns.back().d = d;
    after(w, rng, willProcess(w));
}
void opSetEndpoint(World &w, vh::Rng &rng, size_t ci, int which, const Point &p) {
    Cn &c = w.cns[ci];
    printf("op setEndpoint %u %d %s %s\n", c.id, which, vh::hx(p.x).c_str(), vh::hx(p.y).c_str()); fflush(stdout);
    if (which == 1) { c.c->setSourceEndpoint(ConnEnd(p)); c.hs = true; c.s = p; c.sa = 0; c.scl = 0; }
    else { c.c->setDestEndpoint(ConnEnd(p)); c.hd = true; c.d = p; c.da = 0; c.dcl = 0; }
    after(w, rng, willProcess(w));
}
// new ShapeConnectionPin(shape, cls, xo, yo, proportional, insideOffset 0, dirs): the pin lies ON the border
// (xo or yo is 0 or 1); Router::modifyConnectionPin queues a ConnectionPinChange and, with transactions off,
// processes at once
void opNewPin(World &w, vh::Rng &rng, unsigned id, unsigned cls, double xo, double yo) {
    Ob *o = findOb(w, id);
    printf("op newPin %u %u %s %s\n", id, cls, vh::hx(xo).c_str(), vh::hx(yo).c_str()); fflush(stdout);
    ConnDirFlags dirs = ConnDirNone;
    if (xo == 0) dirs |= ConnDirLeft; if (xo == 1) dirs |= ConnDirRight;
    if (yo == 0) dirs |= ConnDirUp; if (yo == 1) dirs |= ConnDirDown;
    ShapeConnectionPin *pin = new ShapeConnectionPin(o->s, cls, xo, yo, true, 0.0, dirs);
    pin->setExclusive(false);
    o->pins.push_back(PinDef{cls, xo, yo, pin});
    after(w, rng, willProcess(w));
}
// 1-3 pins on the border of a shape: class 1 always, class 2 sometimes, sometimes two pins in class 1
void addPins(World &w, vh::Rng &rng, unsigned id) {
    static const double fr[] = {0.25, 0.5, 0.5, 0.75};
    int n = 1 + (rng.coin(1, 2) ? 1 : 0) + (rng.coin(1, 4) ? 1 : 0);
    for (int i = 0; i < n; ++i) {
        unsigned cls = (i == 1) ? 2 : 1;
        int side = (int) rng.range(0, 3);
        double t = fr[rng.range(0, 3)];
        double xo = side == 0 ? 0 : side == 1 ? 1 : t, yo = side == 2 ? 0 : side == 3 ? 1 : t;
        // no two pins of one shape at the same point (libavoid gives all pins of a shape the same VertID; two
        // coincident pins - even of different classes - make the second unreachable, also in a fresh router)
        bool dup = false;
        for (const PinDef &pd : findOb(w, id)->pins) if (pd.xo == xo && pd.yo == yo) dup = true;
        if (dup) continue;
        // a second pin in class 1 only with C06_PIN_MULTI=1 in the environment (not in the plan): after its shape has
        // moved an attached connector keeps the pin it used before, where a fresh router takes the cheaper pin of the class
        if (i == 2 && getenv("C06_PIN_MULTI") == nullptr) continue;
        opNewPin(w, rng, id, cls, xo, yo);
    }
}
// setEndpoint(which, ConnEnd(shape, cls)) / ConnEnd(junction)
void opAttach(World &w, vh::Rng &rng, size_t ci, int which, unsigned anchor, unsigned cls) {
    Cn &c = w.cns[ci];
    Ob *o = findOb(w, anchor);
    ConnEnd ce = o->isJ ? ConnEnd(o->j) : ConnEnd(o->s, cls);
    if (o->isJ) cls = ce.pinClassId();
    printf("op setEndpointPin %u %d %u %u\n", c.id, which, anchor, cls); fflush(stdout);
    if (which == 1) { c.c->setSourceEndpoint(ce); c.hs = true; c.sa = anchor; c.scl = cls; }
    else { c.c->setDestEndpoint(ce); c.hd = true; c.da = anchor; c.dcl = cls; }
    after(w, rng, willProcess(w));
}
void opProcess(World &w, vh::Rng &rng, bool forceDump) {
    printf("op processTransaction\n"); fflush(stdout);
    w.ran = w.router->processTransaction() ? 1 : 0;
    after(w, rng, true, forceDump);
    w.ran = 2;
}
void opSetTxn(World &w, vh::Rng &rng, bool b) {
    printf("op setTransactionUse %d\n", (int) b); fflush(stdout);
    w.router->setTransactionUse(b); w.txn = b;
    after(w, rng, false);
}

// ---- random geometry ---------------------------------------------------------------------------
bool randRect(World &w, vh::Rng &rng, Rc &out, unsigned self, double wmin = 4, double wmax = 30) {
    for (int t = 0; t < 60; ++t) {
        double ww = rng.range((long) wmin, (long) wmax), hh = rng.range((long) wmin, (long) wmax);
        double x = rng.range((long) LO, (long) (HI - ww)), y = rng.range((long) LO, (long) (HI - hh));
        Rc r{x, y, x + ww, y + hh};
        if (placeable(w, r, self)) { out = r; return true; }
    }
    return false;
}
bool randPoint(World &w, vh::Rng &rng, Point &out) {
    for (int t = 0; t < 60; ++t) {
        Point p(rng.range((long) LO - 5, (long) HI + 5), rng.range((long) LO - 5, (long) HI + 5));
        if (pointFree(w, p)) { out = p; return true; }
    }
    return false;
}

// shapes that the current routes bend around / that block a straight src-dst line
std::vector<unsigned> touchedShapes(World &w) {
    std::set<unsigned> s;
    for (const Cn &c : w.cns) {
        const PolyLine &r = c.c->route();
        for (size_t i = 1; i + 1 < r.size(); ++i)
            for (const Ob &o : w.obs)
                if (!o.isJ && !o.pendingDel && !o.pendingAdd &&
                    (r.ps[i].x == o.r.x0 || r.ps[i].x == o.r.x1) && (r.ps[i].y == o.r.y0 || r.ps[i].y == o.r.y1))
                    s.insert(o.id);
    }
    return std::vector<unsigned>(s.begin(), s.end());
}
bool segHitsRect(const Point &a, const Point &b, const Rc &r) {
    double t0 = 0, t1 = 1, dx = b.x - a.x, dy = b.y - a.y;
    double p[4] = {-dx, dx, -dy, dy}, q[4] = {a.x - r.x0, r.x1 - a.x, a.y - r.y0, r.y1 - a.y};
    for (int i = 0; i < 4; ++i) {
        if (p[i] == 0) { if (q[i] <= 0) return false; }
        else { double t = q[i] / p[i]; if (p[i] < 0) { if (t > t0) t0 = t; } else { if (t < t1) t1 = t; } }
    }
    return t0 < t1;
}
std::vector<unsigned> lineBlockers(World &w) {
    std::set<unsigned> s;
    for (const Cn &c : w.cns) {
        if (!(c.hs && c.hd) || c.sa || c.da) continue;
        for (const Ob &o : w.obs)
            if (!o.isJ && !o.pendingDel && !o.pendingAdd && segHitsRect(c.s, c.d, o.r)) s.insert(o.id);
    }
    return std::vector<unsigned>(s.begin(), s.end());
}
std::vector<unsigned> liveShapes(World &w, bool allowPendingAdd) {
    std::vector<unsigned> v;
    for (const Ob &o : w.obs) if (!o.isJ && !o.pendingDel && (allowPendingAdd || !o.pendingAdd)) v.push_back(o.id);
    return v;
}
std::vector<unsigned> liveJunctions(World &w, bool allowPendingAdd) {
    std::vector<unsigned> v;
    for (const Ob &o : w.obs) if (o.isJ && !o.pendingDel && (allowPendingAdd || !o.pendingAdd)) v.push_back(o.id);
    return v;
}
unsigned pickTarget(World &w, vh::Rng &rng, bool allowPendingAdd) {
    std::vector<unsigned> t = touchedShapes(w), b = lineBlockers(w), a = liveShapes(w, allowPendingAdd);
    if (!t.empty() && rng.coin(2, 5)) return rng.pick(t);
    if (!b.empty() && rng.coin(1, 2)) return rng.pick(b);
    if (a.empty()) return 0;
    return rng.pick(a);
}
// a rectangle centred on the midpoint of some route leg (to move an obstacle onto a route)
bool rectOnRoute(World &w, vh::Rng &rng, const Ob &o, Rc &out) {
    std::vector<Point> mids;
    for (const Cn &c : w.cns) {
        const PolyLine &r = c.c->route();
        for (size_t i = 1; i < r.size(); ++i)
            mids.push_back(Point(std::floor((r.ps[i].x + r.ps[i - 1].x) / 2), std::floor((r.ps[i].y + r.ps[i - 1].y) / 2)));
    }
    if (mids.empty()) return false;
    for (int t = 0; t < 8; ++t) {
        Point m = rng.pick(mids);
        double ww = std::floor((o.r.x1 - o.r.x0) / 2), hh = std::floor((o.r.y1 - o.r.y0) / 2);
        Rc r{m.x - ww, m.y - hh, m.x - ww + (o.r.x1 - o.r.x0), m.y - hh + (o.r.y1 - o.r.y0)};
        if (placeable(w, r, o.id)) { out = r; return true; }
    }
    return false;
}

void doMove(World &w, vh::Rng &rng, unsigned id) {
    Ob *o = findOb(w, id);
    if (!o || o->pendingDel) return;
    Rc r;
    int kind = (int) rng.range(0, 5);
    bool ok = false;
    if (kind == 0) ok = rectOnRoute(w, rng, *o, r);                                   // onto a route
    if (!ok && kind <= 2) {                                                            // far away / anywhere
        double ww = o->r.x1 - o->r.x0, hh = o->r.y1 - o->r.y0;
        for (int t = 0; t < 40 && !ok; ++t) {
            long xh = std::max((long) LO - 40, (long) (HI + 40 - ww)), yh = std::max((long) LO - 40, (long) (HI + 40 - hh));
            double x = rng.range((long) LO - 40, xh), y = rng.range((long) LO - 40, yh);
            r = Rc{x, y, x + ww, y + hh}; ok = placeable(w, r, id);
        }
    }
    if (!ok && kind <= 4) {                                                            // small shift
        for (int t = 0; t < 20 && !ok; ++t) {
            double dx = rng.range(-6, 6), dy = rng.range(-6, 6);
            r = Rc{o->r.x0 + dx, o->r.y0 + dy, o->r.x1 + dx, o->r.y1 + dy}; ok = placeable(w, r, id);
        }
    }
    if (!ok) { ok = randRect(w, rng, r, id); }                                         // resize + move
    if (!ok) return;
    bool sameSize = (r.x1 - r.x0 == o->r.x1 - o->r.x0) && (r.y1 - r.y0 == o->r.y1 - o->r.y0);
    if (sameSize && rng.coin(1, 2)) opMoveRel(w, rng, id, r.x0 - o->r.x0, r.y0 - o->r.y0);
    else opMoveAbs(w, rng, id, r, rng.coin(1, 8));
}


// ---- connection pins: re-targets of connector ends -------------------------------------------
struct Target { bool pin; unsigned anchor, cls; Point p; };
// where to put end `which` of connector ci: a pin class of a live shape / a junction (not `avoid`, not the
// anchor of the connector's other end), or a free point
bool chooseTarget(World &w, vh::Rng &rng, size_t ci, int which, unsigned avoid, int wantPin, Target &t) {
    const Cn &c = w.cns[ci];
    unsigned other = which == 1 ? c.da : c.sa, own = which == 1 ? c.sa : c.da;
    std::vector<unsigned> cand;
    for (const Ob &o : w.obs)
        // (no junction ends in orthogonal mode: an orthogonal connector from a junction to an aligned point trips the
        // assertion orthogonalDirectionsCount(thisDirs) > 0 in makepath.cpp - C15 known finding kf-orth-junction-aligned-point)
        if (!o.pendingDel && o.id != avoid && o.id != other && o.id != own && (o.isJ ? !w.orth : !o.pins.empty())) cand.push_back(o.id);
    bool pin = wantPin < 0 ? rng.coin() : wantPin == 1;
    if (pin && !cand.empty()) {
        unsigned a = rng.pick(cand); Ob *o = findOb(w, a);
        t = Target{true, a, o->isJ ? 0u : o->pins[rng.next() % o->pins.size()].cls, Point(0, 0)};
        return true;
    }
    Point q; if (!randPoint(w, rng, q)) return false;
    t = Target{false, 0, 0, q};
    return true;
}
void applyTarget(World &w, vh::Rng &rng, size_t ci, int which, const Target &t) {
    if (t.pin) opAttach(w, rng, ci, which, t.anchor, t.cls); else opSetEndpoint(w, rng, ci, which, t.p);
}
std::vector<std::pair<size_t, int>> attachedTo(World &w, unsigned id) {
    std::vector<std::pair<size_t, int>> v;
    for (size_t i = 0; i < w.cns.size(); ++i) {
        if (w.cns[i].hs && w.cns[i].sa == id) v.push_back({i, 1});
        if (w.cns[i].hd && w.cns[i].da == id) v.push_back({i, 2});
    }
    return v;
}
// deleteShape / deleteJunction of an obstacle that connector ends are attached to: every such end is re-targeted
// in the SAME transaction - before the delete call, or (transactions on) after it
void deleteDetaching(World &w, vh::Rng &rng, unsigned id) {
    std::vector<std::pair<size_t, int>> at = attachedTo(w, id);
    std::vector<Target> ts(at.size());
    for (size_t i = 0; i < at.size(); ++i) if (!chooseTarget(w, rng, at[i].first, at[i].second, id, -1, ts[i])) return;
    // two ends of one connector must not end up on the same anchor
    for (size_t i = 0; i < at.size(); ++i) for (size_t j = i + 1; j < at.size(); ++j)
        if (at[i].first == at[j].first && ts[i].pin && ts[j].pin && ts[i].anchor == ts[j].anchor) return;
    bool afterwards = w.txn && rng.coin();
    if (!afterwards) for (size_t i = 0; i < at.size(); ++i) applyTarget(w, rng, at[i].first, at[i].second, ts[i]);
    opDelete(w, rng, id);
    if (afterwards) for (size_t i = 0; i < at.size(); ++i) applyTarget(w, rng, at[i].first, at[i].second, ts[i]);
}
// a new connector (both ends free points): attach none / one / both ends to pins, in the same transaction
void attachSome(World &w, vh::Rng &rng, size_t ci) {
    for (int which = 1; which <= 2; ++which) {
        if (!rng.coin(2, 3)) continue;
        Target t; if (chooseTarget(w, rng, ci, which, 0, 1, t) && t.pin) applyTarget(w, rng, ci, which, t);
    }
}
void moveJunctionSomewhere(World &w, vh::Rng &rng, unsigned id) {
    Ob *o = findOb(w, id);
    for (int t = 0; t < 30; ++t) {
        double x = rng.range(2, 118), y = rng.range(2, 118);
        if (!placeable(w, jbox(x, y), id)) continue;
        if (rng.coin()) opMoveAbs(w, rng, id, jbox(x, y), false);
        else opMoveRel(w, rng, id, x - (o->r.x0 + 1), y - (o->r.y0 + 1));
        break;
    }
}

void randomOp(World &w, vh::Rng &rng, int maxShapes) {
    long c = rng.range(0, 99);
    std::vector<unsigned> live = liveShapes(w, true);
    if (c < 12) {                                                                      // add (+ maybe move in the same txn)
        if ((int) live.size() >= maxShapes) return;
        Rc r; if (!randRect(w, rng, r, 0)) return;
        opAddShape(w, rng, r);
        unsigned nid = w.obs.back().id;
        if (w.pinsOn && rng.coin(3, 4)) addPins(w, rng, nid);
        if (rng.coin(1, 3)) doMove(w, rng, nid);
    } else if (c < 24) {                                                               // delete
        if (live.size() <= 1) return;
        unsigned id = pickTarget(w, rng, false); if (!id) return;
        Ob *o = findOb(w, id); if (!o || o->pendingAdd) return;
        if (rng.coin(1, 4)) { doMove(w, rng, id); if (findOb(w, id)->pendingAdd) return; }   // move then delete
        if (w.pinsOn) deleteDetaching(w, rng, id); else opDelete(w, rng, id);
    } else if (c < 52) {                                                               // move (1..3 times)
        unsigned id = pickTarget(w, rng, true); if (!id) return;
        int n = rng.coin(1, 4) ? (int) rng.range(2, 3) : 1;
        for (int i = 0; i < n; ++i) doMove(w, rng, id);
    } else if (c < 60) {                                                               // re-add at the same place
        if (w.graveyard.empty() || (int) live.size() >= maxShapes) return;
        size_t gi = rng.next() % w.graveyard.size();
        Rc r = w.graveyard[gi];
        if (!placeable(w, r, 0)) return;
        w.graveyard.erase(w.graveyard.begin() + gi);
        opAddShape(w, rng, r);
    } else if (c < 70) {                                                               // endpoint move(s)
        if (w.cns.empty()) return;
        size_t ci = rng.next() % w.cns.size();
        int n = rng.coin(1, 4) ? 2 : 1;
        for (int i = 0; i < n; ++i) {
            int which = rng.coin() ? 1 : 2;
            if (w.pinsOn) { Target t; if (!chooseTarget(w, rng, ci, which, 0, -1, t)) return; applyTarget(w, rng, ci, which, t); continue; }
            Point p; if (!randPoint(w, rng, p)) return; opSetEndpoint(w, rng, ci, which, p);
        }
    } else if (c < 79) {                                                               // junction ops
        std::vector<unsigned> js = liveJunctions(w, true);
        if (js.empty() || (js.size() < 2 && rng.coin(1, 4))) {
            for (int t = 0; t < 30; ++t) {
                double x = rng.range(2, 118), y = rng.range(2, 118);
                if (placeable(w, jbox(x, y), 0)) { opAddJunction(w, rng, x, y); break; }
            }
        } else if (!js.empty()) {
            unsigned id = rng.pick(js); Ob *o = findOb(w, id);
            // (deleteJunction with transactions off used to re-enter processTransaction() from
            // ~ShapeConnectionPin: C15 finding, fixed in /repo 448bcee)
            if (rng.coin(1, 3) && !o->pendingAdd) { if (w.pinsOn) deleteDetaching(w, rng, id); else opDelete(w, rng, id); }
            else for (int t = 0; t < 30; ++t) {
                double x = rng.range(2, 118), y = rng.range(2, 118);
                if (!placeable(w, jbox(x, y), id)) continue;
                if (rng.coin()) opMoveAbs(w, rng, id, jbox(x, y), false);
                else opMoveRel(w, rng, id, x - (o->r.x0 + 1), y - (o->r.y0 + 1));
                break;
            }
        }
    } else if (c < 94) {                                                               // transaction boundary
        opProcess(w, rng);
        if (rng.coin(1, 4)) opProcess(w, rng);                                         // no-op transaction
    } else if (c < 97) {
        opSetTxn(w, rng, !w.txn);
    } else {
        if (w.cns.size() < 6) {
            Point s, d;
            if (randPoint(w, rng, s) && randPoint(w, rng, d) && !(s == d)) {
                opNewConn(w, rng, s, d, rng.coin());
                if (w.pinsOn) attachSome(w, rng, w.cns.size() - 1);
            }
        }
    }
}

// ---- directed scenarios ------------------------------------------------------------------------
struct Xf { int sx, sy; bool swap; double ox, oy, k; };
Point xfp(const Xf &t, double x, double y) {
    x *= t.k * t.sx; y *= t.k * t.sy; if (t.swap) std::swap(x, y); return Point(x + t.ox, y + t.oy);
}
Rc xfr(const Xf &t, double x0, double y0, double x1, double y1) {
    Point a = xfp(t, x0, y0), b = xfp(t, x1, y1);
    return Rc{std::min(a.x, b.x), std::min(a.y, b.y), std::max(a.x, b.x), std::max(a.y, b.y)};
}

// blocker A forces the route over the far side of B without touching A; then A goes away
void scenarioUntouched(World &w, vh::Rng &rng) {
    Xf t{rng.coin() ? 1 : -1, rng.coin() ? 1 : -1, rng.coin(), (double) rng.range(40, 80), (double) rng.range(40, 80), (double) (2 * rng.range(1, 3))};
    double top = 1.5 + 0.5 * rng.range(0, 2), depth = 10 + rng.range(0, 30);
    Rc A = xfr(t, 1.5, -depth, 2.5, 0.5), B = xfr(t, 4, -1, 6, top);
    opAddShape(w, rng, A); unsigned a = w.obs.back().id;
    opAddShape(w, rng, B);
    opNewConn(w, rng, xfp(t, 0, 0), xfp(t, 10, 0), rng.coin());
    if (w.txn) opProcess(w, rng);
    int how = (int) rng.range(0, 3);
    if (how == 0) opDelete(w, rng, a);
    else if (how == 1) { Point d = xfp(t, 30, 0), o0 = xfp(t, 0, 0); opMoveRel(w, rng, a, d.x - o0.x, d.y - o0.y); }
    else if (how == 2) { Rc r = xfr(t, 1.5 + 40, -depth, 2.5 + 40, 0.5); opMoveAbs(w, rng, a, r, false); }
    else { Point d = xfp(t, 15, 0), o0 = xfp(t, 0, 0); opMoveRel(w, rng, a, d.x - o0.x, d.y - o0.y); opMoveRel(w, rng, a, d.x - o0.x, d.y - o0.y); }
    if (w.txn) opProcess(w, rng, true);
}

// The shortcut that opens when W goes away enters and leaves the vacated region through ONE side of W
// only. A thin bar B pokes into the big slab W (the two overlap by `p`: with a mere gap or contact the
// connector could slip between them), the connector joins two points on either side of B close to W,
// so the only route is round the far end of B and does not touch W. All other sides of W are farther
// from both endpoints than half the current route, so only the crossed side yields a shorter estimate
// in markPolylineConnectorsNeedingReroutingForDeletedObstacle. Orientation (which side of W is crossed)
// and the start vertex of W's polygon (which side is the closing side last->first) vary independently.
void scenarioOneSide(World &w, vh::Rng &rng) {
    Xf t{rng.coin() ? 1 : -1, rng.coin() ? 1 : -1, rng.coin(), (double) rng.range(40, 80), (double) rng.range(40, 80), (double) rng.range(1, 2)};
    double b = rng.range(1, 3), p = rng.range(1, 3), c = b + rng.range(3, 8), q = rng.range(3, 8);
    double L = rng.range(30, 45), D = L + rng.range(25, 40), H = L + rng.range(25, 40);
    Rc W = xfr(t, -D, 0, D, H), B = xfr(t, -b, -L, b, p);
    int saved = w.dumpsLeft; w.dumpsLeft = 0;         // no graph audit while two shapes overlap
    int rot = (int) rng.range(0, 3);
    if (rng.coin()) { opAddShape(w, rng, W, 0, rot); opAddShape(w, rng, B); }
    else { opAddShape(w, rng, B); opAddShape(w, rng, W, 0, rot); }
    unsigned wid = 0; for (const Ob &o : w.obs) if (o.r.x1 - o.r.x0 == W.x1 - W.x0 && o.r.y1 - o.r.y0 == W.y1 - W.y0) wid = o.id;
    opNewConn(w, rng, xfp(t, c, -q), xfp(t, -c, -q), rng.coin());
    if (w.txn) opProcess(w, rng);
    Point far = xfp(t, 0, H + L + 60), o0 = xfp(t, 0, 0);
    double dx = far.x - o0.x, dy = far.y - o0.y;
    int how = (int) rng.range(0, 3);
    if (how == 0) opDelete(w, rng, wid);
    else if (how == 1) opMoveRel(w, rng, wid, dx, dy);
    else if (how == 2) opMoveAbs(w, rng, wid, Rc{W.x0 + dx, W.y0 + dy, W.x1 + dx, W.y1 + dy}, false);
    else { opMoveRel(w, rng, wid, dx / 2, dy / 2); opMoveRel(w, rng, wid, dx / 2, dy / 2); }
    w.dumpsLeft = saved;
    if (w.txn) opProcess(w, rng, true);
}

// shapeBufferDistance > 0, a free endpoint OUTSIDE shape S but inside its buffer zone (so inside S's
// routing polygon: Router::contains records S for that endpoint). S is then moved so that it lies
// between the two endpoints, and in a LATER transaction a visibility edge from that endpoint is computed
// afresh: (A) a new shape U is added whose buffered corner lies behind S as seen from the endpoint, or
// (B) a third shape T that was the recorded blocker of the straight line is moved away / deleted.
// A stale `contains` entry would then let the edge ignore S.
void scenarioBuffer(World &w, vh::Rng &rng) {
    double b = w.buf, d = rng.range(2, (long) b - 1);
    Xf t{rng.coin() ? 1 : -1, rng.coin() ? 1 : -1, rng.coin(), (double) rng.range(50, 70), (double) rng.range(50, 70), 1};
    double M = 20 + d + b + rng.range(2, 6), x0 = M + 20 + 2 * b + rng.range(2, 6), dstx = x0 + 10 + b + rng.range(5, 15);
    bool varA = rng.coin();
    opAddShape(w, rng, xfr(t, 0, 0, 20, 20)); unsigned s = w.obs.back().id;
    unsigned tt = 0;
    if (!varA) { opAddShape(w, rng, xfr(t, x0, 0, x0 + 10, 20)); tt = w.obs.back().id; }
    opNewConn(w, rng, xfp(t, 20 + d, 10), xfp(t, dstx, 10), rng.coin());
    if (w.txn) opProcess(w, rng);
    Point m1 = xfp(t, M, 0), o0 = xfp(t, 0, 0);
    if (rng.coin()) opMoveRel(w, rng, s, m1.x - o0.x, m1.y - o0.y); else opMoveAbs(w, rng, s, xfr(t, M, 0, M + 20, 20), false);
    if (w.txn) opProcess(w, rng);
    if (varA) opAddShape(w, rng, xfr(t, x0, 11, x0 + 10, 35));
    else {
        Point far = xfp(t, 0, 100);
        int how = (int) rng.range(0, 2);
        if (how == 0) opDelete(w, rng, tt);
        else if (how == 1) opMoveRel(w, rng, tt, far.x - o0.x, far.y - o0.y);
        else opMoveAbs(w, rng, tt, xfr(t, x0, 100, x0 + 10, 120), false);
    }
    if (w.txn) opProcess(w, rng, true);
}

// clean-tree behaviour being fingerprinted: the endpoint is in S's buffer zone and the other endpoint
// is BEHIND S; libavoid exempts S as a blocker for that endpoint, so the route runs through S itself
void scenarioBufferBehind(World &w, vh::Rng &rng) {
    double b = w.buf, d = rng.range(2, (long) b - 1);
    Xf t{rng.coin() ? 1 : -1, rng.coin() ? 1 : -1, rng.coin(), (double) rng.range(50, 70), (double) rng.range(50, 70), 1};
    opAddShape(w, rng, xfr(t, 0, 0, 20, 20));
    opNewConn(w, rng, xfp(t, 20 + d, 10), xfp(t, -(double) rng.range(15, 40), rng.range(4, 16)), rng.coin());
    if (w.txn) opProcess(w, rng, true);
}

// route bends around S; S is deleted / moved away / moved and moved back / deleted and re-added
void scenarioTouched(World &w, vh::Rng &rng, int variant) {
    Xf t{rng.coin() ? 1 : -1, rng.coin() ? 1 : -1, rng.coin(), (double) rng.range(40, 80), (double) rng.range(40, 80), (double) rng.range(1, 4)};
    double h1 = rng.range(1, 6), h2 = rng.range(1, 6);
    Rc S = xfr(t, 3, -h1, 7, h2);
    opAddShape(w, rng, S); unsigned s = w.obs.back().id;
    opNewConn(w, rng, xfp(t, 0, 0), xfp(t, 10, 0), rng.coin());
    if (w.txn) opProcess(w, rng);
    Point far = xfp(t, 0, 40), o0 = xfp(t, 0, 0);
    double dx = far.x - o0.x, dy = far.y - o0.y;
    switch (variant) {
    case 0: opDelete(w, rng, s); break;
    case 1: opMoveRel(w, rng, s, dx, dy); break;
    case 2: opMoveRel(w, rng, s, dx, dy); opMoveRel(w, rng, s, -dx, -dy); break;             // away and back in one txn
    case 3: opMoveRel(w, rng, s, dx, dy); if (!findOb(w, s)->pendingAdd) opDelete(w, rng, s); break;   // move then delete
    case 4: opDelete(w, rng, s); if (w.txn && rng.coin()) opProcess(w, rng); opAddShape(w, rng, S); break;  // re-add
    default: opMoveAbs(w, rng, s, Rc{S.x0 + dx, S.y0 + dy, S.x1 + dx, S.y1 + dy}, true);
             opMoveAbs(w, rng, s, Rc{S.x0 + 2 * dx, S.y0 + 2 * dy, S.x1 + 2 * dx, S.y1 + 2 * dy}, false); break;
    }
    if (w.txn) opProcess(w, rng, true);
}

// an obstacle is moved onto a straight route
void scenarioBlock(World &w, vh::Rng &rng) {
    Rc r; if (!randRect(w, rng, r, 0, 4, 12)) return;
    opAddShape(w, rng, r); unsigned s = w.obs.back().id;
    Point a, b;
    for (int t = 0; t < 50; ++t) {
        if (!randPoint(w, rng, a) || !randPoint(w, rng, b)) return;
        if (!(a == b) && !segHitsRect(a, b, r)) break;
    }
    opNewConn(w, rng, a, b, rng.coin());
    if (w.txn) opProcess(w, rng);
    Rc nr; if (rectOnRoute(w, rng, *findOb(w, s), nr)) opMoveAbs(w, rng, s, nr, false);
    if (w.txn) opProcess(w, rng, true);
}

// an obstacle is moved so that an existing straight route runs exactly through two opposite corners
// (its diagonal): Router::newBlockingShape must notice that the edge is now blocked
void scenarioDiagonal(World &w, vh::Rng &rng) {
    double ww = rng.range(2, 8), hh = rng.range(2, 8);
    long kk = rng.range(3, 5), i = rng.range(1, kk - 2);
    double sx = rng.coin() ? 1 : -1, sy = rng.coin() ? 1 : -1;
    double ax = rng.range(40, 70), ay = rng.range(40, 70);
    Point a(ax, ay), b(ax + sx * kk * ww, ay + sy * kk * hh);
    double cx0 = ax + sx * i * ww, cx1 = ax + sx * (i + 1) * ww, cy0 = ay + sy * i * hh, cy1 = ay + sy * (i + 1) * hh;
    Rc onDiag{std::min(cx0, cx1), std::min(cy0, cy1), std::max(cx0, cx1), std::max(cy0, cy1)};
    Rc away{onDiag.x0 + 60, onDiag.y0, onDiag.x1 + 60, onDiag.y1};
    opAddShape(w, rng, away); unsigned s = w.obs.back().id;
    opNewConn(w, rng, a, b, rng.coin());
    if (w.txn) opProcess(w, rng);
    if (rng.coin()) opMoveAbs(w, rng, s, onDiag, false); else opMoveRel(w, rng, s, -60, 0);
    if (w.txn) opProcess(w, rng, true);
}

// transactions switched off while an Add is still queued, then the shape is moved:
// moveShape() folds the move into the Add and returns before its processTransaction() tail
void scenarioOffPending(World &w, vh::Rng &rng) {
    if (!w.txn) opSetTxn(w, rng, true);
    Rc r; if (!randRect(w, rng, r, 0)) return;
    opAddShape(w, rng, r); unsigned s = w.obs.back().id;
    opSetTxn(w, rng, false);
    doMove(w, rng, s);
    if (rng.coin()) doMove(w, rng, s);
    Point a, b; if (randPoint(w, rng, a) && randPoint(w, rng, b) && !(a == b)) opNewConn(w, rng, a, b, false);
}


// A connector end attached to a pin of obstacle A (a shape, or a junction) is RE-TARGETED - pin -> free point,
// pin -> pin of another shape B, or free point -> pin of B - in the same transaction as a move / resize /
// delete of the old anchor A and possibly of the new anchor B, in every call order; a second connector may
// stay attached to A. Afterwards A and B move again: the re-targeted end must follow B (or stay put), not A.
void scenarioPinRetarget(World &w, vh::Rng &rng) {
    bool junctionOld = rng.coin(1, 4) && !w.orth;
    int variant = (int) rng.range(0, 2);               // 0 pin->point, 1 pin->pin(B), 2 point->pin(B)
    unsigned a = 0, b = 0;
    if (junctionOld) {
        for (int t = 0; t < 30 && !a; ++t) {
            double x = rng.range(2, 118), y = rng.range(2, 118);
            if (placeable(w, jbox(x, y), 0)) { opAddJunction(w, rng, x, y); a = w.obs.back().id; }
        }
    } else {
        Rc r; if (randRect(w, rng, r, 0, 6, 24)) { opAddShape(w, rng, r); a = w.obs.back().id; addPins(w, rng, a); }
    }
    if (!a) return;
    { Rc r; if (!randRect(w, rng, r, 0, 6, 24)) return; opAddShape(w, rng, r); b = w.obs.back().id; addPins(w, rng, b); }
    Point s, d;
    if (!randPoint(w, rng, s) || !randPoint(w, rng, d) || s == d) return;
    opNewConn(w, rng, s, d, rng.coin());
    size_t k = w.cns.size() - 1;
    int which = rng.coin() ? 1 : 2;
    unsigned acls = junctionOld ? 0u : findOb(w, a)->pins[rng.next() % findOb(w, a)->pins.size()].cls;
    if (variant != 2) opAttach(w, rng, k, which, a, acls);
    if (rng.coin(1, 3)) { opAttach(w, rng, k, 3 - which, b, findOb(w, b)->pins[0].cls); variant = 0; }   // other end on B: re-target to a point
    long l = -1;
    if (rng.coin()) {                                   // a second connector that stays attached to A
        Point s2, d2;
        if (randPoint(w, rng, s2) && randPoint(w, rng, d2) && !(s2 == d2)) {
            opNewConn(w, rng, s2, d2, rng.coin()); l = (long) w.cns.size() - 1;
            opAttach(w, rng, (size_t) l, rng.coin() ? 1 : 2, a, acls);
        }
    }
    if (w.txn) opProcess(w, rng);
    // the transaction under test
    int oldHow = (int) rng.range(0, 6); if (oldHow > 4) oldHow -= 5;   // 0, 1 move, 2 move twice, 3 delete, 4 nothing
    int newHow = variant == 0 ? 0 : (int) rng.range(0, 2);
    Target tk; tk.pin = variant != 0; tk.anchor = b; tk.cls = findOb(w, b)->pins[rng.next() % findOb(w, b)->pins.size()].cls; tk.p = Point(0, 0);
    Target tl; bool lMoves = oldHow == 3 && l >= 0;
    // (free-point targets are chosen when the call is made: the shapes move in between; (-70,-70) lies outside the
    // region in which `placeable` puts shapes)
    Point farAway(-70 - (double) rng.range(0, 9), -70);
    std::vector<int> acts = {0};                        // 0 re-target K, 1 old anchor, 2 new anchor, 3 re-target L
    if (oldHow != 4) acts.push_back(1);
    if (newHow != 0) acts.push_back(2);
    if (lMoves) acts.push_back(3);
    rng.shuffle(acts);
    if (!w.txn && oldHow == 3) {                        // transactions off: every call is its own transaction, so the
        std::vector<int> o2;                            // re-targets must precede the delete
        for (int x : acts) if (x != 1) o2.push_back(x);
        o2.push_back(1); acts = o2;
    }
    for (int act : acts) {
        if (act == 0) {
            if (!tk.pin && !randPoint(w, rng, tk.p)) tk.p = farAway;
            applyTarget(w, rng, k, which, tk);
        } else if (act == 3) {
            int lw = w.cns[l].sa == a ? 1 : 2;
            if (!chooseTarget(w, rng, (size_t) l, lw, a, -1, tl)) tl = Target{false, 0, 0, farAway};
            applyTarget(w, rng, (size_t) l, lw, tl);
        }
        else {
            unsigned id = act == 1 ? a : b; int how = act == 1 ? oldHow : newHow;
            Ob *o = findOb(w, id);
            if (act == 1 && how == 3) { if (!o->pendingAdd) opDelete(w, rng, id); }
            else if (o->isJ) moveJunctionSomewhere(w, rng, id);
            else { doMove(w, rng, id); if (how == 2 && rng.coin()) doMove(w, rng, id); }
        }
    }
    if (w.txn) opProcess(w, rng);
    // later transactions: both anchors move again
    for (int round = 0; round < 2; ++round) {
        for (unsigned id : {a, b}) {
            Ob *o = findOb(w, id);
            if (!o || o->pendingDel) continue;
            if (o->isJ) moveJunctionSomewhere(w, rng, id); else doMove(w, rng, id);
        }
        if (w.txn) opProcess(w, rng);
    }
}

// Witness of Props/C06Reroute `removal_estimate_incomplete_witness` (not part of any tier; replay with
// --only 1000000+v): the could-be-shorter estimate of markPolylineConnectorsNeedingReroutingForDeletedObstacle
// is >= the current route length for all four sides of O although deleting O (or moving it away) opens a
// strictly shorter route; the current route bends at B only, so no edge alert fires either.
void scenarioHeuristicMiss(World &w, vh::Rng &rng, long v) {
    static const double S[][12] = {        // O x0 y0 x1 y1 | B x0 y0 x1 y1 | src | dst
        {0, 0, 10, 11,  11, 3, 15, 6,   0, -6,  18, 10},
        {0, 0, 14, 14,  -5, 6, -4, 12,  -12, 3,  16, 22},
        {0, 0, 12, 10,  15, 1, 22, 5,   0, 17,  23, -1},
        {0, 0, 6, 6,    9, -1, 10, 3,   -8, 19,  19, -10}};
    const double *q = S[(v / 2) % 4], off = 40;
    opAddShape(w, rng, Rc{q[0] + off, q[1] + off, q[2] + off, q[3] + off}); unsigned o = w.obs.back().id;
    opAddShape(w, rng, Rc{q[4] + off, q[5] + off, q[6] + off, q[7] + off});
    opNewConn(w, rng, Point(q[8] + off, q[9] + off), Point(q[10] + off, q[11] + off), true);
    opProcess(w, rng);
    if (v % 2 == 0) opDelete(w, rng, o); else opMoveRel(w, rng, o, 0, 200);
    opProcess(w, rng, true);
}

} // namespace

static void runCase(const vh::Args &a, long k) {
    static const char *tags[] = {"unblock-untouched", "unblock-touched", "block", "txn-off-pending",
                                 "rand-poly", "rand-orth", "rand-poly-off", "rand-orth-off", "block-diagonal",
                                 "unblock-one-side", "buffer-endpoint", "buffer-endpoint-behind",
                                 "pin-retarget", "rand-pin"};
    if (k >= 1000000) {
        vh::Rng rng = vh::caseRng(a.seed, k);
        World w;
        vh::beginCase(k, "witness-removal-estimate");
        printf("cfg poly %s 1 %s\n", vh::hx(0).c_str(), vh::hx(0).c_str()); fflush(stdout);
        w.router = mkRouter(false, 0, 0);
#ifdef ADAPTAGRAMS_VERIF_REROUTE_HOOK
        g_hookRouter = w.router; g_hookRecs.clear(); verifRerouteSink = rerouteSink;
#endif
        scenarioHeuristicMiss(w, rng, k - 1000000);
        opProcess(w, rng);
        printf("done\n");
        delete w.router;
        vh::endCase();
        return;
    }
    {
        vh::Rng rng = vh::caseRng(a.seed, k);
        int cls;
        long c = k % 20;
        if (c < 2) cls = 0; else if (c < 6) cls = 1; else if (c < 8) cls = 2; else if (c < 9) cls = 3;
        else if (c < 13) cls = 4; else if (c < 16) cls = 5; else if (c < 18) cls = 6; else cls = 7;
        if (k % 40 == 7) cls = 8;
        if (k % 20 == 1) cls = 9;
        if (k % 20 == 3) cls = 10;
        if (k % 40 == 23) cls = 11;
        if (k % 10 == 4) cls = 12;                      // connection pins: directed re-target scenario
        if (k % 20 == 19) cls = 13;                     // connection pins: random histories
        World w;
        w.pinsOn = cls >= 12;
        if (w.pinsOn) w.dumpsLeft = 0;                  // the graph audit does not know pin vertices
        w.orth = (cls == 5 || cls == 7) || (cls >= 1 && cls <= 3 && rng.coin(1, 3));   // cls 0, 8, 9, 10, 11 are polyline-only
        // The pin classes are polyline-only in the plan: with orthogonal routing the unchanged library aborts on some
        // histories (makepath.cpp:974 COLA_ASSERT(orthogonalDirectionsCount(thisDirs) > 0): a pin vertex with a
        // zero-length orthogonal visibility edge, e.g. the connector's other end exactly above a top pin - the shape
        // analogue of C15's known finding kf-orth-junction-aligned-point). C06_PIN_ORTH=1 in the environment turns
        // orthogonal pin histories on (same case streams: the coin is always drawn) to replay those findings.
        if (cls >= 12) { bool po = rng.coin(); w.orth = po && getenv("C06_PIN_ORTH") != nullptr; }
        static const double polyPen[] = {0, 0, 10, 50}, orthPen[] = {10, 10, 50};
        w.pen = w.orth ? orthPen[rng.range(0, 2)] : polyPen[rng.range(0, 3)];
        w.txn = !(cls == 6 || cls == 7) && !((cls <= 2 || cls >= 8) && rng.coin(1, 3));   // (pin classes: a third with transactions off)
        vh::beginCase(k, tags[cls]);
        if (cls == 10 || cls == 11) w.buf = rng.coin() ? 4 : 8;
        else if ((cls == 4 || cls == 6) && rng.coin(1, 4)) w.buf = 4;
        printf("cfg %s %s %d %s\n", w.orth ? "orth" : "poly", vh::hx(w.pen).c_str(), (int) w.txn, vh::hx(w.buf).c_str());
        fflush(stdout);
        w.router = mkRouter(w.orth, w.pen, w.buf, w.pinsOn);
#ifdef ADAPTAGRAMS_VERIF_REROUTE_HOOK
        g_hookRouter = w.router; g_hookRecs.clear(); verifRerouteSink = rerouteSink;
#endif
        if (!w.txn) { opSetTxn(w, rng, false); }
        int maxShapes = (int) rng.range(2, 10);
        // background: a few random rectangles and connectors
        bool directed = (cls <= 3 || (cls >= 8 && cls != 13));
        int nbg = directed ? (int) rng.range(0, 3) : (int) rng.range(2, maxShapes);
        if (cls == 0) scenarioUntouched(w, rng);
        else if (cls == 1) scenarioTouched(w, rng, (int) rng.range(0, 5));
        else if (cls == 8) scenarioDiagonal(w, rng);
        else if (cls == 9) scenarioOneSide(w, rng);
        else if (cls == 10) scenarioBuffer(w, rng);
        else if (cls == 11) scenarioBufferBehind(w, rng);
        else if (cls == 12) scenarioPinRetarget(w, rng);
        for (int i = 0; i < nbg; ++i) {
            Rc r; if (!randRect(w, rng, r, 0)) continue;
            opAddShape(w, rng, r);
            if (w.pinsOn && rng.coin(3, 4)) addPins(w, rng, w.obs.back().id);
        }
        if (!directed && rng.coin(1, 2))
            for (int t = 0; t < 30; ++t) {
                double x = rng.range(2, 118), y = rng.range(2, 118);
                if (placeable(w, jbox(x, y), 0)) { opAddJunction(w, rng, x, y); break; }
            }
        int nconn = directed ? (int) rng.range(0, 2) : (int) rng.range(1, 6);
        for (int i = 0; i < nconn; ++i) {
            Point s, d; if (!(randPoint(w, rng, s) && randPoint(w, rng, d) && !(s == d))) continue;
            opNewConn(w, rng, s, d, rng.coin());
            if (w.pinsOn) attachSome(w, rng, w.cns.size() - 1);
        }
        if (w.txn) opProcess(w, rng);
        if (cls == 2) scenarioBlock(w, rng);
        if (cls == 3) scenarioOffPending(w, rng);
        long target = directed ? rng.range(0, 8) : rng.range(3, 25);
        long start = w.nops;
        for (int guard = 0; guard < 200 && w.nops - start < target; ++guard) randomOp(w, rng, maxShapes);
        if (!w.txn) opSetTxn(w, rng, true);
        opProcess(w, rng, true);
        opProcess(w, rng);                       // nothing queued: must change nothing
        printf("done\n");
        delete w.router;
        vh::endCase();
    }
}

// Every case runs in a forked child, so that an abort inside libavoid (failed COLA_ASSERT, sanitizer
// report) in one history does not lose the remaining histories of the run. The first case whose child
// died is run again IN-PROCESS at the very end: the stream then ends with that unterminated CASE and
// the harness dies with the original diagnostics, which is what check.py turns into a CRASH verdict
// with an exact replay (--only K always runs in-process).
int main(int argc, char **argv) {
    vh::Args a = vh::parseArgs(argc, argv);
    long ncases = ((a.tier == "thorough") ? 4000 : 500) * a.scale;
    if (a.n >= 0) ncases = a.n;
    if (a.only >= 0) { runCase(a, a.only); return 0; }
    long firstCrash = -1, ncrash = 0;
    for (long k = 0; k < ncases; ++k) {
        fflush(stdout); fflush(stderr);
        pid_t pid = fork();
        if (pid < 0) { runCase(a, k); continue; }           // cannot fork: run in-process
        if (pid == 0) { runCase(a, k); fflush(stdout); exit(0); }   // exit(): lets LeakSanitizer report
        int status = 0;
        waitpid(pid, &status, 0);
        if (!(WIFEXITED(status) && WEXITSTATUS(status) == 0)) {
            ++ncrash;
            if (firstCrash < 0) firstCrash = k;
            printf("\n");                                    // terminate a possibly half-written line
            fprintf(stderr, "c06 harness: case %ld died (wait status 0x%x)\n", k, status);
        }
    }
    if (firstCrash >= 0) {
        fprintf(stderr, "c06 harness: %ld case(s) died; re-running the first one (%ld) in-process\n", ncrash, firstCrash);
        fflush(stdout); fflush(stderr);
        runCase(a, firstCrash);
        return 1;                                            // not reached if the crash is deterministic
    }
    return 0;
}
