// C16 correspondence harness: libavoid geometry predicates vs the Lean model.
// One case = one predicate call on an exactly representable input; the output line carries the
// implementation's answer. Quick tier enumerates the integer grid exhaustively in chunks.
#include "common.h"
#include "libavoid/geometry.h"
#include "libavoid/geomtypes.h"
using namespace Avoid;

static void pt(const Point &p) { printf(" %s %s", vh::hx(p.x).c_str(), vh::hx(p.y).c_str()); }

int main(int argc, char **argv) {
    vh::Args a = vh::parseArgs(argc, argv);
    int side = (a.tier == "thorough") ? 5 : 4;         // grid {0..side-1}
    long k = 0;
    // --- exhaustive: vecDir over all triples, segmentIntersect over all 4-tuples; one case per
    //     (first point) chunk so the stream stays small in case count
    long npts = side * side;
    for (long ia = 0; ia < npts; ++ia, ++k) {
        if (!a.want(k)) continue;
        vh::beginCase(k, "grid-chunk");
        printf("side %d\nchunk %ld\n", side, ia);
        Point A(ia / side, ia % side);
        // answers are emitted as a packed string in enumeration order
        std::string vd, si;
        for (long ib = 0; ib < npts; ++ib) { Point B(ib / side, ib % side);
            for (long ic = 0; ic < npts; ++ic) { Point C(ic / side, ic % side);
                vd.push_back("-0+"[vecDir(A, B, C) + 1]);
                for (long id = 0; id < npts; ++id) { Point D(id / side, id % side);
                    si.push_back(segmentIntersect(A, B, C, D) ? '1' : '0'); } } }
        printf("vecDir %s\nsegmentIntersect %s\n", vd.c_str(), si.c_str());
        vh::endCase();
    }
    // --- random large coordinates
    long nrand = ((a.tier == "thorough") ? 200000 : 20000) * a.scale;
    if (a.n >= 0) nrand = a.n;
    const long per = 500;
    for (long c = 0; c < nrand / per; ++c, ++k) {
        if (!a.want(k)) continue;
        vh::Rng r = vh::caseRng(a.seed, k);
        vh::beginCase(k, "random-chunk");
        for (long i = 0; i < per; ++i) {
            long m = 1L << r.range(1, 20);
            Point P[4];
            for (int j = 0; j < 4; ++j) P[j] = Point(r.range(-m, m), r.range(-m, m));
            if (r.coin(1, 3)) P[2] = Point(2 * P[1].x - P[0].x, 2 * P[1].y - P[0].y);   // collinear
            if (r.coin(1, 5)) P[3] = P[r.range(0, 2)];                                   // shared endpoint
            printf("q"); for (int j = 0; j < 4; ++j) pt(P[j]);
            printf(" %d %d\n", vecDir(P[0], P[1], P[2]), (int) segmentIntersect(P[0], P[1], P[2], P[3]));
        }
        vh::endCase();
    }
    return 0;
}
