// C16 correspondence harness: libavoid geometry predicates vs the Lean kernels
// (generated from this very source by cpp2lean, and the hand model proved equal to them).
// Exhaustive integer grid in chunks (one case per first point), all polygons with 3 (and 4)
// vertices on the grid, plus random integer tuples up to 2^20. Answers are packed strings in
// enumeration order; intersection points are printed as exact hex floats.
#include "common.h"
#include "libavoid/geometry.h"
#include "libavoid/geomtypes.h"
using namespace Avoid;

static void pt(const Point &p) { printf(" %s %s", vh::hx(p.x).c_str(), vh::hx(p.y).c_str()); }
static char dch(int d) { return d < 0 ? '-' : (d > 0 ? '+' : '0'); }

// all predicate answers for one 4-tuple, appended to the packed strings
struct Packed {
    std::string vd, co, pl, si, ss, cs, vr, ip, rp;
    std::string pts;   // intersection points (only for DO_INTERSECT), as " x y" hex pairs
    void three(const Point &A, const Point &B, const Point &C) {
        vd.push_back(dch(vecDir(A, B, C)));
        co.push_back(colinear(A, B, C) ? '1' : '0');
        pl.push_back(pointOnLine(A, B, C) ? '1' : '0');
    }
    void four(const Point &A, const Point &B, const Point &C, const Point &D, bool wantPts) {
        si.push_back(segmentIntersect(A, B, C, D) ? '1' : '0');
        for (int seen = 0; seen < 2; ++seen) {
            bool s = seen; bool r = segmentShapeIntersect(A, B, C, D, s);
            ss.push_back((char)('0' + (r ? 2 : 0) + (s ? 1 : 0)));
        }
        cs.push_back(dch(cornerSide(A, B, C, D)));
        vr.push_back((char)('0' + (inValidRegion(false, A, B, C, D) ? 1 : 0) + (inValidRegion(true, A, B, C, D) ? 2 : 0)));
        double x = 0, y = 0;
        int c = segmentIntersectPoint(A, B, C, D, &x, &y);
        ip.push_back((char)('0' + c));
        if (c == DO_INTERSECT && wantPts) { pts += " " + vh::hx(x) + " " + vh::hx(y); }
        double rx = 0, ry = 0;
        int rc = rayIntersectPoint(A, B, C, D, &rx, &ry);
        rp.push_back((char)('0' + rc));
        if (rc == DO_INTERSECT && wantPts) { pts += " " + vh::hx(rx) + " " + vh::hx(ry); }
    }
    void print() {
        printf("vecDir %s\ncolinear %s\npointOnLine %s\nsegmentIntersect %s\nsegmentShapeIntersect %s\n"
               "cornerSide %s\ninValidRegion %s\nsegmentIntersectPoint %s\nrayIntersectPoint %s\npoints%s\n",
               vd.c_str(), co.c_str(), pl.c_str(), si.c_str(), ss.c_str(), cs.c_str(), vr.c_str(), ip.c_str(), rp.c_str(), pts.c_str());
    }
};

int main(int argc, char **argv) {
    vh::Args a = vh::parseArgs(argc, argv);
    bool thorough = (a.tier == "thorough");
    int side = thorough ? 5 : 4;         // grid {0..side-1}^2
    long k = 0;
    long npts = side * side;
    auto P = [&](long i) { return Point((double)(i / side), (double)(i % side)); };
    // --- exhaustive 3- and 4-tuples
    for (long ia = 0; ia < npts; ++ia, ++k) {
        if (!a.want(k)) continue;
        vh::beginCase(k, "grid-tuples");
        printf("side %d\nchunk %ld\nwantpts %d\n", side, ia, 1);
        Packed pk;
        for (long ib = 0; ib < npts; ++ib)
            for (long ic = 0; ic < npts; ++ic) {
                pk.three(P(ia), P(ib), P(ic));
                for (long id = 0; id < npts; ++id) pk.four(P(ia), P(ib), P(ic), P(id), true);
            }
        pk.print();
        vh::endCase();
    }
    // --- polygons: all vertex triples (thorough: + all quadruples on the 4x4 grid), every grid point queried
    {
        int ps = 4; long np = ps * ps;
        auto Q = [&](long i) { return Point((double)(i / ps), (double)(i % ps)); };
        for (long i0 = 0; i0 < np; ++i0, ++k) {
            if (!a.want(k)) continue;
            vh::beginCase(k, "grid-polygons");
            printf("side %d\nchunk %ld\nquads %d\n", ps, i0, thorough ? 1 : 0);
            std::string tri, quad;
            for (long i1 = 0; i1 < np; ++i1) for (long i2 = 0; i2 < np; ++i2) {
                Polygon poly(3); poly.ps[0] = Q(i0); poly.ps[1] = Q(i1); poly.ps[2] = Q(i2);
                for (long q = 0; q < np; ++q)
                    tri.push_back((char)('0' + (inPoly(poly, Q(q), true) ? 1 : 0) + (inPoly(poly, Q(q), false) ? 2 : 0) + (inPolyGen(poly, Q(q)) ? 4 : 0)));
                if (thorough) for (long i3 = 0; i3 < np; ++i3) {
                    Polygon p4(4); p4.ps[0] = Q(i0); p4.ps[1] = Q(i1); p4.ps[2] = Q(i2); p4.ps[3] = Q(i3);
                    for (long q = 0; q < np; ++q)
                        quad.push_back((char)('0' + (inPoly(p4, Q(q), true) ? 1 : 0) + (inPoly(p4, Q(q), false) ? 2 : 0) + (inPolyGen(p4, Q(q)) ? 4 : 0)));
                }
            }
            printf("tri %s\nquad %s\n", tri.c_str(), quad.empty() ? "-" : quad.c_str());
            vh::endCase();
        }
    }
    // --- random large coordinates (integers up to 2^20; products stay below 2^53)
    long nrand = (thorough ? 200000 : 20000) * a.scale;
    if (a.n >= 0) nrand = a.n;
    const long per = 500;
    for (long c = 0; c < nrand / per; ++c, ++k) {
        if (!a.want(k)) continue;
        vh::Rng r = vh::caseRng(a.seed, k);
        vh::beginCase(k, "random-tuples");
        for (long i = 0; i < per; ++i) {
            long m = 1L << r.range(1, 20);
            Point p[4];
            for (int j = 0; j < 4; ++j) p[j] = Point((double)r.range(-m, m), (double)r.range(-m, m));
            int kind = (int)r.range(0, 9);
            if (kind == 0) p[2] = Point(2 * p[1].x - p[0].x, 2 * p[1].y - p[0].y);            // c beyond b, collinear
            if (kind == 1) { long t = r.range(1, 7); p[1] = Point(p[0].x + 8 * (p[2].x - p[0].x >= 0 ? 1 : -1) * (long)r.range(0, m), p[0].y); p[2] = Point(p[0].x + (p[1].x - p[0].x) * t / 8, p[0].y); } // horizontal, c on ab
            if (kind == 2) p[3] = p[r.range(0, 2)];                                           // shared endpoint
            if (kind == 3) { p[1] = Point(p[0].x, p[1].y); }                                  // vertical ab
            if (kind == 4) { long t = r.range(0, 8); p[1] = Point(p[0].x + 8 * r.range(-m / 8, m / 8), p[0].y + 8 * r.range(-m / 8, m / 8));
                             p[2] = Point(p[0].x + (p[1].x - p[0].x) * t / 8, p[0].y + (p[1].y - p[0].y) * t / 8); }   // c on segment ab (general direction)
            if (kind == 5) { p[3] = Point(p[2].x + (p[1].x - p[0].x), p[2].y + (p[1].y - p[0].y)); }  // parallel segments
            printf("q"); for (int j = 0; j < 4; ++j) pt(p[j]);
            Packed pk; pk.three(p[0], p[1], p[2]); pk.four(p[0], p[1], p[2], p[3], true);
            printf(" %s %s %s %s %s %s %s %s %s%s\n", pk.vd.c_str(), pk.co.c_str(), pk.pl.c_str(), pk.si.c_str(), pk.ss.c_str(),
                   pk.cs.c_str(), pk.vr.c_str(), pk.ip.c_str(), pk.rp.c_str(), pk.pts.c_str());
        }
        vh::endCase();
    }
    // --- random polygons with larger coordinates (convex via hull-like construction not needed: predicates are total)
    long npoly = (thorough ? 4000 : 600) * a.scale;
    for (long c = 0; c < npoly / 50; ++c, ++k) {
        if (!a.want(k)) continue;
        vh::Rng r = vh::caseRng(a.seed, k);
        vh::beginCase(k, "random-polygons");
        for (int i = 0; i < 50; ++i) {
            int n = (int)r.range(3, 7);
            long m = 1L << r.range(2, 12);
            Polygon poly(n);
            if (r.coin()) {   // rectangle-like / convex clockwise (as libavoid builds shapes) else arbitrary
                long x0 = r.range(-m, m), y0 = r.range(-m, m), w = r.range(1, m), h = r.range(1, m);
                n = 4; poly = Polygon(4);
                poly.ps[0] = Point(x0 + w, y0); poly.ps[1] = Point(x0 + w, y0 + h); poly.ps[2] = Point(x0, y0 + h); poly.ps[3] = Point(x0, y0);
            } else for (int j = 0; j < n; ++j) poly.ps[j] = Point((double)r.range(-m, m), (double)r.range(-m, m));
            printf("poly %d", n); for (int j = 0; j < n; ++j) pt(poly.ps[j]);
            printf("\n");
            for (int qn = 0; qn < 12; ++qn) {
                Point q((double)r.range(-m, m), (double)r.range(-m, m));
                if (qn < 4) q = poly.ps[r.range(0, n - 1)];                                              // a vertex
                else if (qn < 8) { const Point &u = poly.ps[qn % n], &v = poly.ps[(qn + 1) % n]; q = Point((u.x + v.x) / 2, (u.y + v.y) / 2); }  // edge midpoint (may be k/2: exact)
                printf("pq"); pt(q);
                printf(" %d %d %d\n", (int)inPoly(poly, q, true), (int)inPoly(poly, q, false), (int)inPolyGen(poly, q));
            }
        }
        vh::endCase();
    }
    return 0;
}
