// C17 correspondence harness: libcola all-pairs shortest paths (floyd_warshall, johnsons,
// dijkstra) and the ideal-distance / group matrices of cola::ConstrainedFDLayout, plus an
// operation-sequence stream for the real PairingHeap<T> template.
//
// Case stream (doubles as C99 hex floats, DBL_MAX printed like any other double):
//   CASE k <tag>
//   n <n>
//   unit <0|1>                 1: the shortest-path functions are called with an EMPTY weight array
//   ideal <hex>                idealLength handed to ConstrainedFDLayout
//   nolens <0|1>               1: ConstrainedFDLayout gets an empty EdgeLengths vector
//   e <u> <v> <w> <len>        one line per edge in order: weight for the three algorithms (>= 0)
//                              and the raw per-edge ideal length given to the layout (any sign)
//   fw <i> <D[i][0]> ...       floyd_warshall row i      (printed after the inputs)
//   jo <i> ...                 johnsons row i
//   dj <i> ...                 dijkstra(s=i) vector
//   dx <s> <id> <id> ...       (n <= 64) order in which nodes leave the heap in dijkstra(s), observed by
//                              instantiating dijkstra<T> with a double wrapper that logs `d[u->id]=u->d`;
//                              "dxbad <s>" if that run's distances differ from dijkstra<double>
//   ld <i> ...                 readLinearD() row i
//   lg <i> ...                 readLinearG() row i  (diagonal printed as 9: it is never written by
//                              the library unless a self-loop exists, so it is not an observable)
//   END
// Heap cases (tag heap-ops):  op lines "h i <key>" (insert), "h m" (extractMin), "h d <idx> <key>"
//   (decreaseKey of the idx-th inserted item), "h g" (merge a second heap built from following
//   "h j <key>" inserts), "h z" (drain);   out lines "x <key> <id>" for every extractMin in order
//   (id = insertion index of the extracted item: ties between equal keys may be broken either way).
#include "common.h"
#include <cfloat>
#include <set>
#include <map>
#include "libcola/shortest_paths.h"
#include "libcola/cola.h"
#include "libvpsc/rectangle.h"
#include "libvpsc/pairing_heap.h"

typedef std::pair<unsigned, unsigned> Edge;

// ----------------------------------------------------------------------------- traced number type
// `dijkstra<T>` writes `d[u->id] = u->d` at the moment u leaves the heap. Instantiating the same
// template with a double wrapper whose assignment operator logs writes into the output array makes
// the extraction order observable without touching the library.
struct Traced {
    double v;
    Traced() : v(0) {}
    Traced(double x) : v(x) {}
    Traced(const Traced &o) : v(o.v) {}
    Traced &operator=(const Traced &o);
};
static Traced *g_outBegin = nullptr, *g_outEnd = nullptr;
static std::vector<unsigned> *g_order = nullptr;
inline Traced &Traced::operator=(const Traced &o) {
    v = o.v;
    if (g_order && this >= g_outBegin && this < g_outEnd) g_order->push_back((unsigned) (this - g_outBegin));
    return *this;
}
inline bool operator<(const Traced &a, const Traced &b) { return a.v < b.v; }
inline bool operator>(const Traced &a, const Traced &b) { return a.v > b.v; }
inline bool operator==(const Traced &a, const Traced &b) { return a.v == b.v; }
inline bool operator!=(const Traced &a, const Traced &b) { return a.v != b.v; }
inline Traced operator+(const Traced &a, const Traced &b) { return Traced(a.v + b.v); }
namespace std {
template <> class numeric_limits<Traced> {
public:
    static const bool is_specialized = true;
    static Traced max() { return Traced(DBL_MAX); }
    static Traced min() { return Traced(DBL_MIN); }
};
}

struct Graph {
    unsigned n = 0;
    std::vector<Edge> es;
    std::vector<double> w;     // weights for the three algorithms (>= 0, dyadic k/8)
    std::vector<double> len;   // raw ideal lengths for the layout
    bool unit = false;         // call the algorithms with an empty weight array
    bool nolens = false;       // construct the layout with an empty EdgeLengths
    double ideal = 1;
};

// ----------------------------------------------------------------------------- weights
enum WKind { W_INT, W_FRAC, W_ZEROISH, W_SMALLINT };
static double weight(vh::Rng &r, WKind k) {
    switch (k) {
    case W_INT: return (double) r.range(1, 10);
    case W_SMALLINT: return (double) r.range(1, 3);
    case W_FRAC: return (double) r.range(1, 80) / 8.0;
    case W_ZEROISH: return r.coin(2, 5) ? 0.0 : (double) r.range(0, 16) / 8.0;
    }
    return 1;
}

static void addEdge(Graph &g, unsigned u, unsigned v, double w) {
    g.es.push_back(Edge(u, v)); g.w.push_back(w); g.len.push_back(w);
}

// m distinct random non-loop pairs among vertices [lo, hi)
static long g_maxm = 1000000;   // cap on random edges per call (keeps the large graphs checkable in time)
static void randomSimple(Graph &g, vh::Rng &r, unsigned lo, unsigned hi, long m, WKind wk,
                         std::set<Edge> &used) {
    unsigned c = hi - lo;
    if (c < 2) return;
    long maxm = (long) c * (c - 1) / 2;
    if (m > maxm) m = maxm;
    if (m > g_maxm) m = g_maxm;
    long tries = 0;
    while (m > 0 && tries < 50 * (m + 10)) {
        ++tries;
        unsigned u = lo + r.range(0, c - 1), v = lo + r.range(0, c - 1);
        if (u == v) continue;
        Edge key(std::min(u, v), std::max(u, v));
        if (used.count(key)) continue;
        used.insert(key);
        addEdge(g, u, v, weight(r, wk));
        --m;
    }
}

static void randomTree(Graph &g, vh::Rng &r, unsigned lo, unsigned hi, WKind wk, std::set<Edge> &used,
                       bool path = false) {
    std::vector<unsigned> perm;
    for (unsigned i = lo; i < hi; ++i) perm.push_back(i);
    r.shuffle(perm);
    for (size_t i = 1; i < perm.size(); ++i) {
        unsigned p = path ? perm[i - 1] : perm[r.range(0, (long) i - 1)];
        unsigned u = perm[i], v = p;
        if (r.coin()) std::swap(u, v);
        used.insert(Edge(std::min(u, v), std::max(u, v)));
        addEdge(g, u, v, weight(r, wk));
    }
}

static const char *CLASSES[] = {
    "sparse", "dense", "disconnected", "tree", "zero-weight", "fractional", "unit-weights",
    "self-loop", "parallel-edges", "nonpositive-lengths", "tiny", "path", "zero-tree-plus"
};
static const int NCLASSES = sizeof(CLASSES) / sizeof(CLASSES[0]);

static Graph generate(vh::Rng &r, int cls, unsigned maxn, unsigned minn = 2) {
    Graph g;
    std::set<Edge> used;
    unsigned n = (unsigned) r.range(minn, maxn);
    // small graphs are over-represented on purpose (boundary cases)
    if (minn == 2 && r.coin(1, 4)) n = (unsigned) r.range(2, std::min<long>(maxn, 5));
    g.n = n;
    static const double IDEALS[] = {1, 2, 0.5, 10, 37.5, 100, 0.125, 3};
    g.ideal = IDEALS[r.range(0, 7)];
    WKind wk = r.coin() ? W_INT : W_FRAC;
    switch (cls) {
    case 0: // sparse
        randomSimple(g, r, 0, n, r.range(n / 2, 2 * n), wk, used); break;
    case 1: // dense
        randomSimple(g, r, 0, n, r.range((long) n * (n - 1) / 4, (long) n * (n - 1) / 2), wk, used); break;
    case 2: { // disconnected: 2..4 blocks, edges only inside a block, some isolated vertices
        unsigned parts = (unsigned) r.range(2, 4);
        std::vector<unsigned> cut; cut.push_back(0);
        for (unsigned p = 1; p < parts; ++p) cut.push_back((unsigned) r.range(0, n));
        cut.push_back(n); std::sort(cut.begin(), cut.end());
        for (size_t p = 0; p + 1 < cut.size(); ++p) {
            unsigned lo = cut[p], hi = cut[p + 1];
            if (hi - lo < 2) continue;
            if (r.coin(1, 5)) continue;                   // leave the block edgeless
            if (r.coin()) randomTree(g, r, lo, hi, wk, used);
            randomSimple(g, r, lo, hi, r.range(0, 2 * (hi - lo)), wk, used);
        }
        break; }
    case 3: randomTree(g, r, 0, n, wk, used); break;
    case 4: randomSimple(g, r, 0, n, r.range(n / 2, 3 * n), W_ZEROISH, used); break;
    case 5: randomSimple(g, r, 0, n, r.range(n / 2, 3 * n), W_FRAC, used); break;
    case 6: g.unit = true; g.nolens = r.coin();
        if (r.coin()) randomTree(g, r, 0, n, W_INT, used);
        randomSimple(g, r, 0, n, r.range(0, 2 * n), W_INT, used);
        for (size_t i = 0; i < g.w.size(); ++i) g.w[i] = 1;
        break;
    case 7: { // self-loops (positive weight mostly), otherwise simple
        randomSimple(g, r, 0, n, r.range(n / 2, 2 * n), wk, used);
        long loops = r.range(1, 3);
        for (long i = 0; i < loops; ++i) {
            unsigned u = (unsigned) r.range(0, n - 1);
            size_t pos = (size_t) r.range(0, (long) g.es.size());
            double w = r.coin(1, 6) ? 0.0 : weight(r, wk);
            g.es.insert(g.es.begin() + pos, Edge(u, u));
            g.w.insert(g.w.begin() + pos, w); g.len.insert(g.len.begin() + pos, w);
        }
        break; }
    case 8: { // parallel edges, no self-loops
        randomSimple(g, r, 0, n, r.range(std::max(1u, n / 2), 2 * n), wk, used);
        if (g.es.empty()) addEdge(g, 0, 1, weight(r, wk));
        long dups = r.range(1, 1 + (long) g.es.size() / 2);
        for (long i = 0; i < dups; ++i) {
            size_t src = (size_t) r.range(0, (long) g.es.size() - 1);
            Edge e = g.es[src];
            if (r.coin()) std::swap(e.first, e.second);
            double w = r.coin(1, 5) ? g.w[src] : weight(r, wk);
            size_t pos = (size_t) r.range(0, (long) g.es.size());
            g.es.insert(g.es.begin() + pos, e);
            g.w.insert(g.w.begin() + pos, w); g.len.insert(g.len.begin() + pos, w);
        }
        break; }
    case 9: // layout gets zero / negative ideal lengths
        if (r.coin()) randomTree(g, r, 0, n, wk, used);
        randomSimple(g, r, 0, n, r.range(1, 2 * n), wk, used);
        for (size_t i = 0; i < g.len.size(); ++i) {
            long c = r.range(0, 5);
            if (c == 0) g.len[i] = 0;
            else if (c == 1) g.len[i] = -(double) r.range(1, 40) / 8.0;
            else if (c == 2) g.len[i] = (double) r.range(1, 80) / 8.0;
        }
        break;
    case 10: // tiny / degenerate
        g.n = n = (unsigned) r.range(1, 3);
        if (n >= 2 && r.coin()) addEdge(g, 0, n - 1, weight(r, wk));
        if (n == 3 && r.coin()) addEdge(g, 2, 1, weight(r, W_ZEROISH));
        g.nolens = g.es.empty() || r.coin(1, 3);
        break;
    case 11: // long path (deep shortest-path trees) plus a few chords
        randomTree(g, r, 0, n, wk, used, true);
        randomSimple(g, r, 0, n, r.range(0, 2), W_INT, used);
        break;
    case 12: // zero-weight spanning tree plus random edges: every distance 0, many tight cycles
        randomTree(g, r, 0, n, W_ZEROISH, used);
        for (size_t i = 0; i < g.w.size(); ++i) if (r.coin(3, 4)) g.w[i] = g.len[i] = 0;
        randomSimple(g, r, 0, n, r.range(0, 2 * n), W_ZEROISH, used);
        break;
    }
    if (cls != 6 && cls != 10 && r.coin(1, 8)) g.nolens = true;
    if (g.es.empty()) g.nolens = true;      // an empty EdgeLengths is the only legal choice then
    return g;
}

// ----------------------------------------------------------------------------- output
static void printRow(const char *key, unsigned i, const double *row, unsigned n) {
    printf("%s %u", key, i);
    for (unsigned j = 0; j < n; ++j) printf(" %s", vh::hx(row[j]).c_str());
    printf("\n");
}

static void runGraphCase(long k, const char *tag, const Graph &g) {
    vh::beginCase(k, tag);
    printf("n %u\nunit %d\nideal %s\nnolens %d\n", g.n, (int) g.unit, vh::hx(g.ideal).c_str(), (int) g.nolens);
    for (size_t i = 0; i < g.es.size(); ++i)
        printf("e %u %u %s %s\n", g.es[i].first, g.es[i].second, vh::hx(g.w[i]).c_str(), vh::hx(g.len[i]).c_str());
    fflush(stdout);
    unsigned n = g.n;
    std::valarray<double> ew(g.unit ? 0 : g.w.size());
    if (!g.unit) for (size_t i = 0; i < g.w.size(); ++i) ew[i] = g.w[i];
    double **D = new double *[n];
    for (unsigned i = 0; i < n; ++i) D[i] = new double[n];
    // floyd_warshall
    for (unsigned i = 0; i < n; ++i) for (unsigned j = 0; j < n; ++j) D[i][j] = -1;
    shortest_paths::floyd_warshall<double>(n, D, g.es, ew);
    for (unsigned i = 0; i < n; ++i) printRow("fw", i, D[i], n);
    // johnsons
    for (unsigned i = 0; i < n; ++i) for (unsigned j = 0; j < n; ++j) D[i][j] = -1;
    shortest_paths::johnsons<double>(n, D, g.es, ew);
    for (unsigned i = 0; i < n; ++i) printRow("jo", i, D[i], n);
    // dijkstra from every source
    for (unsigned s = 0; s < n; ++s) {
        for (unsigned j = 0; j < n; ++j) D[s][j] = -1;
        shortest_paths::dijkstra<double>(s, n, D[s], g.es, ew);
        printRow("dj", s, D[s], n);
    }
    // extraction order of every dijkstra run (traced instantiation of the same template)
    if (n <= 64) {
        std::valarray<Traced> tw(g.unit ? 0 : g.w.size());
        if (!g.unit) for (size_t i = 0; i < g.w.size(); ++i) tw[i] = Traced(g.w[i]);
        std::vector<Traced> out(n);
        for (unsigned s = 0; s < n; ++s) {
            std::vector<unsigned> order;
            for (unsigned j = 0; j < n; ++j) out[j].v = -1;
            g_outBegin = out.data(); g_outEnd = out.data() + n; g_order = &order;
            shortest_paths::dijkstra<Traced>(s, n, out.data(), g.es, tw);
            g_order = nullptr;
            bool same = true;
            for (unsigned j = 0; j < n; ++j) if (!(out[j].v == D[s][j])) same = false;
            printf("dx %u", s);
            for (size_t i = 0; i < order.size(); ++i) printf(" %u", order[i]);
            printf("\n");
            if (!same) printf("dxbad %u\n", s);
        }
    }
    for (unsigned i = 0; i < n; ++i) delete[] D[i];
    delete[] D;
    fflush(stdout);
    // layout matrices
    {
        vpsc::Rectangles rs;
        for (unsigned i = 0; i < n; ++i) rs.push_back(new vpsc::Rectangle(10.0 * i, 10.0 * i + 5, 0, 5));
        std::vector<cola::Edge> ces(g.es.begin(), g.es.end());
        cola::EdgeLengths lens;
        if (!g.nolens) lens.assign(g.len.begin(), g.len.end());
        {
            cola::ConstrainedFDLayout alg(rs, ces, g.ideal, lens);
            std::vector<double> LD = alg.readLinearD();
            std::vector<unsigned> LG = alg.readLinearG();
            for (unsigned i = 0; i < n; ++i) printRow("ld", i, &LD[(size_t) n * i], n);
            for (unsigned i = 0; i < n; ++i) {
                printf("lg %u", i);
                for (unsigned j = 0; j < n; ++j) printf(" %u", i == j ? 9u : LG[(size_t) n * i + j]);
                printf("\n");
            }
        }
        for (unsigned i = 0; i < n; ++i) delete rs[i];
    }
    vh::endCase();
}

// ----------------------------------------------------------------------------- pairing heap ops
struct Item { double key; long id; };
struct ItemLess { bool operator()(Item *const &a, Item *const &b) const { return a->key < b->key; } };

static void runHeapCase(long k, vh::Rng &r, long nops) {
    vh::beginCase(k, "heap-ops");
    typedef PairingHeap<Item *, ItemLess> Heap;
    Heap *H = new Heap();
    std::vector<Item *> items;                 // all items ever inserted into H (or merged)
    std::vector<PairNode<Item *> *> nodes;
    std::vector<bool> live;
    std::vector<std::string> out;
    long nlive = 0;
    for (long op = 0; op < nops; ++op) {
        long c = r.range(0, 9);
        if (c <= 3 || nlive == 0) {            // insert
            Item *it = new Item; it->key = (double) r.range(0, 64) / 8.0; it->id = (long) items.size();
            printf("h i %s\n", vh::hx(it->key).c_str());
            items.push_back(it); live.push_back(true); ++nlive;
            nodes.push_back(H->insert(it));
        } else if (c <= 5) {                   // extractMin
            printf("h m\n"); fflush(stdout);
            Item *it = H->extractMin();
            live[it->id] = false; --nlive;
            out.push_back(vh::hx(it->key) + " " + std::to_string(it->id));
        } else if (c <= 8) {                   // decreaseKey on a random live item
            std::vector<long> cand;
            for (size_t i = 0; i < items.size(); ++i) if (live[i]) cand.push_back((long) i);
            long id = cand[r.range(0, (long) cand.size() - 1)];
            double nk = items[id]->key - (double) r.range(0, 24) / 8.0;
            printf("h d %ld %s\n", id, vh::hx(nk).c_str()); fflush(stdout);
            items[id]->key = nk;               // same protocol as dijkstra: mutate, then decreaseKey
            H->decreaseKey(nodes[id], items[id]);
        } else {                               // merge a fresh heap of 0..4 items
            Heap *B = new Heap();
            long cnt = r.range(0, 4);
            printf("h g %ld\n", cnt);
            for (long j = 0; j < cnt; ++j) {
                Item *it = new Item; it->key = (double) r.range(0, 64) / 8.0; it->id = (long) items.size();
                printf("h j %s\n", vh::hx(it->key).c_str());
                items.push_back(it); live.push_back(true); ++nlive;
                nodes.push_back(B->insert(it));
            }
            fflush(stdout);
            H->merge(B);
            delete B;
        }
    }
    printf("h z\n"); fflush(stdout);           // drain
    while (!H->isEmpty()) { Item *it = H->extractMin(); out.push_back(vh::hx(it->key) + " " + std::to_string(it->id)); }
    delete H;
    for (size_t i = 0; i < out.size(); ++i) printf("x %s\n", out[i].c_str());
    for (size_t i = 0; i < items.size(); ++i) delete items[i];
    vh::endCase();
}

// ----------------------------------------------------------------------------- fixed cases
static Graph fixedCase(int which) {
    Graph g;
    switch (which) {
    case 0: g.n = 2; addEdge(g, 0, 1, 1); addEdge(g, 0, 1, 5); break;           // parallel 1 then 5
    case 1: g.n = 1; addEdge(g, 0, 0, 3); break;                                // self-loop w=3
    case 2: g.n = 2; addEdge(g, 0, 1, 5); addEdge(g, 1, 0, 1); break;           // parallel 5 then 1 (benign order)
    case 3: g.n = 3; addEdge(g, 0, 1, 2); addEdge(g, 1, 1, 0.5); addEdge(g, 1, 2, 2); break;
    case 4: g.n = 3; addEdge(g, 0, 1, 1); addEdge(g, 1, 2, 1); addEdge(g, 0, 2, 1); addEdge(g, 2, 0, 7); break;
    case 5: g.n = 4; addEdge(g, 0, 1, 0); addEdge(g, 1, 2, 0); addEdge(g, 2, 0, 0); break;  // zero cycle + isolated
    case 6: g.n = 1; g.nolens = true; break;
    case 7: g.n = 3; addEdge(g, 0, 1, 1); addEdge(g, 1, 2, 1); g.len[0] = 0; g.len[1] = -2; g.ideal = 2; break;
    }
    return g;
}
static const char *fixedTag(int which) {
    switch (which) {
    case 0: case 4: return "parallel-edges";
    case 1: case 3: return "self-loop";
    case 2: return "parallel-edges";
    case 5: return "zero-weight";
    case 6: return "tiny";
    default: return "nonpositive-lengths";
    }
}

int main(int argc, char **argv) {
    vh::Args a = vh::parseArgs(argc, argv);
    bool thorough = a.tier == "thorough";
    long k = 0;
    // fixed boundary cases (design witnesses first)
    for (int f = 0; f < 8; ++f, ++k) {
        if (!a.want(k)) continue;
        runGraphCase(k, fixedTag(f), fixedCase(f));
    }
    // random small graphs
    long nsmall = (thorough ? 5200 : 1300) * a.scale;
    if (a.n >= 0) nsmall = a.n;
    for (long c = 0; c < nsmall; ++c, ++k) {
        if (!a.want(k)) continue;
        vh::Rng r = vh::caseRng(a.seed, k);
        int cls = (int) (c % NCLASSES);
        unsigned maxn = thorough ? (c % 4 == 0 ? 40 : 16) : 12;
        runGraphCase(k, CLASSES[cls], generate(r, cls, maxn));
    }
    // medium graphs (both tiers) / large graphs (thorough only)
    {
        long nmed = 13 * a.scale, nbig = thorough ? 39 * a.scale : 0;
        for (long c = 0; c < nmed + nbig; ++c, ++k) {
            if (!a.want(k)) continue;
            vh::Rng r = vh::caseRng(a.seed, k);
            int cls = (int) (c % NCLASSES);
            unsigned maxn = (c < nmed) ? 48 : (c < nmed + 13 * a.scale) ? 120 : 300;
            g_maxm = 3000;
            Graph g = generate(r, cls, maxn, maxn / 2);
            runGraphCase(k, CLASSES[cls], g);
        }
        g_maxm = 1000000;
    }
    // pairing heap operation sequences
    long nheap = (thorough ? 600 : 150) * a.scale;
    for (long c = 0; c < nheap; ++c, ++k) {
        if (!a.want(k)) continue;
        vh::Rng r = vh::caseRng(a.seed, k);
        runHeapCase(k, r, r.range(1, thorough ? 200 : 40));
    }
    return 0;
}
