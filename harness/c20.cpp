// C20 harness (runtime half): reproducibility and frame independence, observed on the real libraries.
//
// Every case runs the SAME sequence of API calls twice ("A" and "B") in this one process — for the
// *-twice classes on equal inputs with heap perturbation and unrelated work in between, for the
// frame classes on the input and on its image under a frame change — and prints both outputs as
// exact hex floats.  The Lean driver (lean/Driver/C20.lean) parses them exactly and decides.
//
//   CASE k <tag>
//   ... input lines (class specific, see the emit* functions)
//   A <label> v v v ...        output vector of the first run (label = which observable)
//   B <label> v v v ...        output vector of the second run (same labels, same order)
//   END
//
// classes (k mod 12):
//   route-twice            libavoid scene (polyline / orthogonal) built and routed twice; route() and
//                          displayRoute() of every connector, also after a shape move + reroute
//   vpsc-twice             vpsc::IncSolver and vpsc::Solver on the same problem twice
//   layout-twice           cola::ConstrainedFDLayout twice (positions compared to 1e-9 by the driver)
//   removeoverlaps-twice   vpsc::removeoverlaps, all centre coordinates pairwise distinct
//   removeoverlaps-coincident   the same with COINCIDENT centres: CmpNodePos falls back to comparing
//                          heap addresses of the scan-line Nodes; run B forces a different address
//                          order for the Node allocations (see Heap::scramble)
//   route-translate[-orth] scene translated by (i,j)·2^-10: raw routes must translate exactly (orthogonal scenes have
//                          their own tag because their display routes are nudged)
//   route-symmetry         the 8 symmetries of the square: route COST must not change
//   vpsc-translate, vpsc-permute
//   route-symmetry-dirs    orthogonal scenes with direction-restricted ends (free ends, ends on the outer edge of the scene
//                          looking outward, pins on shape sides), ConnDirFlags transformed with the frame: cost and
//                          axis-parallelism must not change
//   (two extra slots repeat route-twice / route-symmetry with the other connector type)
//
// Library assertions: built with -DUSE_ASSERT_EXCEPTIONS (check/props/C20.py), so a failed COLA_ASSERT throws
// vpsc::CriticalFailure instead of aborting the whole stream.  A run that dies this way contributes the
// pseudo vector `exc` (file line hash) — the failure itself must then be reproducible too — and the half-built
// router is deliberately leaked (its state is undefined).  Known instance on the clean tree:
// `vs[it->second]->id != freeSegmentID` in nudgeOrthogonalRoutes (orthogonal.cpp:3041), C10/C15 territory.
//
// Heap perturbation: ASan's quarantine and malloc-fill are switched off for this binary (see
// __asan_default_options) so that freed chunks are recycled immediately, in LIFO order of the frees,
// and keep the garbage written into them: allocating K chunks of one size class and freeing them in
// random order makes the next K `new`s of that class return addresses in random order.
#include "common.h"
#include "libavoid/libavoid.h"
#include "libavoid/debughandler.h"
#include "libavoid/vertices.h"
#include "libvpsc/rectangle.h"
#include "libvpsc/variable.h"
#include "libvpsc/constraint.h"
#include "libvpsc/solve_VPSC.h"
#include "libcola/cola.h"
#include "libcola/compound_constraints.h"
#include "libcola/cluster.h"
#include "libvpsc/assertions.h"
#include <set>
#include <map>
#include <sstream>
#include <unistd.h>
#if defined(__has_include)
#if __has_include(<sanitizer/lsan_interface.h>)
#include <sanitizer/lsan_interface.h>
#define C20_LSAN 1
#endif
#endif

extern "C" const char *__asan_default_options() {
    return "quarantine_size_mb=0:thread_local_quarantine_size_kb=0:max_malloc_fill_size=0:max_free_fill_size=0";
}

static std::string H(double d) { return vh::hx(d); }
typedef std::vector<double> Vec;
typedef std::vector<std::pair<std::string, Vec> > Out;   // (label, values)

static void printOut(const char *run, const Out &o) {
    for (size_t i = 0; i < o.size(); ++i) {
        printf("%s %s", run, o[i].first.c_str());
        for (size_t j = 0; j < o[i].second.size(); ++j) printf(" %s", H(o[i].second[j]).c_str());
        printf("\n");
    }
}

// ------------------------------------------------------------------------------------ heap
struct Heap {
    std::vector<void *> keep;
    // allocate `count` chunks of `sz` bytes, fill with garbage, free in random order
    void scramble(vh::Rng &r, size_t sz, int count) {
        std::vector<void *> b;
        for (int i = 0; i < count; ++i) {
            void *p = ::operator new(sz);
            unsigned char g = (unsigned char) r.range(1, 255);
            memset(p, g, sz);
            b.push_back(p);
        }
        r.shuffle(b);
        for (size_t i = 0; i < b.size(); ++i) ::operator delete(b[i]);
    }
    void perturb(vh::Rng &r) {
        // random blocks of random sizes; most freed again in random order, some kept until release()
        int n = (int) r.range(40, 300);
        std::vector<void *> b;
        for (int i = 0; i < n; ++i) {
            size_t sz = r.coin(3, 4) ? (size_t) r.range(8, 200) : (size_t) r.range(200, 5000);
            void *p = ::operator new(sz);
            memset(p, (int) r.range(1, 255), sz);
            b.push_back(p);
        }
        r.shuffle(b);
        for (size_t i = 0; i < b.size(); ++i) { if (r.coin(1, 5)) keep.push_back(b[i]); else ::operator delete(b[i]); }
        // every small size class (scan-line Nodes, Events, Variables, Constraints, Blocks, ANodes, set/list nodes,
        // ShapeRef, ConnRef, VertInf …): the next allocations of each class come back in a random address order
        for (size_t sz = 16; sz <= 512; sz += 16) scramble(r, sz, (int) r.range(4, 40));
        for (size_t sz = 640; sz <= 2048; sz += 128) scramble(r, sz, (int) r.range(4, 16));
    }
    void release() { for (size_t i = 0; i < keep.size(); ++i) ::operator delete(keep[i]); keep.clear(); }
    // address-order signature of 6 consecutive 56-byte allocations (reported, so that the driver can count
    // how often the two runs really saw different address orders)
    static long probe() {
        void *p[6]; long sig = 0;
        for (int i = 0; i < 6; ++i) p[i] = ::operator new(56);
        for (int i = 0; i < 6; ++i) { int rank = 0; for (int j = 0; j < 6; ++j) if (p[j] < p[i]) ++rank; sig = sig * 6 + rank; }
        for (int i = 0; i < 6; ++i) ::operator delete(p[i]);      // same order as allocated: next 6 come back reversed, identically in A and B
        return sig;
    }
};

// the process-global rectangle borders as an extra observable of every *-twice run
static void pushBorders(Out &o) {
    Vec v; v.push_back(vpsc::Rectangle::xBorder); v.push_back(vpsc::Rectangle::yBorder);
    o.push_back(std::make_pair(std::string("borders"), v));
}

// ------------------------------------------------------------------------------------ routing scenes
struct R4 { double x0, y0, x1, y1; };
struct Cn { double sx, sy, tx, ty; unsigned sdir = 15, tdir = 15; int spin = -1, tpin = -1; unsigned scls = 0; };   // scls > 0: the source is ConnEnd(shape spin, pin class scls) — one of the scene's PinDefs   // dirs = Avoid::ConnDirFlags; pin = shape index (end is a pin at (x,y) on that shape's side) or -1
// a connection pin of a multi-pin class: (px, py) = its place on / in the shape BEFORE the inside offset is applied;
// prop: handed to the library as proportional offsets, else as absolute offsets from the shape's min corner
struct PinDef { int shape; unsigned cls; double px, py; bool prop; double inside; unsigned dirs; bool excl; double cost; };
struct RScene {
    std::vector<PinDef> pins;
    std::vector<R4> rects;
    std::vector<Cn> conns;
    bool orth = false;
    double pen = 10;
    double buf = 0;            // shapeBufferDistance (0 or 1/2; rectangles keep distance >= 1 from every connector end)
    int moveIdx = -1;          // shape moved (relative) + second processTransaction, or -1
    double mdx = 0, mdy = 0;
    // classes *-params: EVERY public RoutingParameter / RoutingOption (router.h); prm[i] < 0 / opt[i] < 0 = leave the default
    double prm[9] = {-1, -1, -1, -1, -1, -1, -1, -1, -1};
    int opt[7] = {-1, -1, -1, -1, -1, -1, -1};
    bool capture = false;      // record the A* vertex path of every connector through the library's DebugHandler interface
};

// grid scene: cells of side c, chosen cells get a rectangle with integer corners at distance >= 1 from the
// cell border; connector ends are integer points ON cell border lines (hence outside every rectangle)
static bool g_big = false;     // thorough tier: one scene in four is larger
static bool g_twiceMultiPin = false;   // --mode twice-multipin
static bool g_twiceXStage = false; // --mode twice-xstage: route-twice params scenes ALL with the crossing-penalty stage (default: every second one)
static bool g_exclMulti = false;   // *-params scenes: may an EXCLUSIVE pin class serve several connectors (run-twice / exact-translation classes)
static RScene genScene(vh::Rng &r, bool orth, int maxShapes, int maxConns) {
    RScene s; s.orth = orth;
    long c = r.range(4, 9);
    bool big = g_big && r.coin(1, 4);
    long nx = r.range(1, big ? 6 : 4), ny = r.range(1, big ? 6 : 4);
    if (big) { maxShapes *= 2; maxConns += 3; }
    int want = (int) r.range(1, maxShapes);
    std::vector<long> cells; for (long i = 0; i < nx * ny; ++i) cells.push_back(i);
    r.shuffle(cells);
    for (int k = 0; k < want && k < (int) cells.size(); ++k) {
        long cx = (cells[k] % nx) * c, cy = (cells[k] / nx) * c;
        long x0 = r.range(1, c - 2), x1 = r.range(x0 + 1, c - 1), y0 = r.range(1, c - 2), y1 = r.range(y0 + 1, c - 1);
        if (r.coin(1, 3)) { x0 = 1; x1 = c - 1; }            // full width: equal extents across cells => many ties
        if (r.coin(1, 3)) { y0 = 1; y1 = c - 1; }
        s.rects.push_back(R4{(double) (cx + x0), (double) (cy + y0), (double) (cx + x1), (double) (cy + y1)});
    }
    int nc = (int) r.range(1, maxConns);
    for (int i = 0; i < nc; ++i) {
        Cn cn;
        for (int tries = 0; tries < 50; ++tries) {
            auto pt = [&](double &x, double &y) {
                if (r.coin()) { x = (double) (c * r.range(0, nx)); y = (double) r.range(0, c * ny); }
                else { x = (double) r.range(0, c * nx); y = (double) (c * r.range(0, ny)); }
            };
            pt(cn.sx, cn.sy); pt(cn.tx, cn.ty);
            if (cn.sx != cn.tx || cn.sy != cn.ty) break;
        }
        if (cn.sx == cn.tx && cn.sy == cn.ty) cn.tx += c;
        s.conns.push_back(cn);
    }
    static const double pens[] = {10, 10, 0, 50, 3};
    s.pen = pens[r.range(0, 4)];
    if (orth && s.pen == 0) s.pen = 1;
    s.buf = r.coin(1, 4) ? 0.5 : 0.0;          // orthogonal routing asserts segmentPenalty > 0 (makepath.cpp:796)
    return s;
}

// frame: symmetry index (Lean: Sym.ofIdx) then translation
static void applySym(int sym, double x, double y, double &ox, double &oy) {
    switch (sym) {
    case 0: ox = x; oy = y; break;
    case 1: ox = -y; oy = x; break;
    case 2: ox = -x; oy = -y; break;
    case 3: ox = y; oy = -x; break;
    case 4: ox = -x; oy = y; break;
    case 5: ox = x; oy = -y; break;
    case 6: ox = y; oy = x; break;
    default: ox = -y; oy = -x; break;
    }
}
// ConnDirFlags (Up=1: -y, Down=2: +y, Left=4: -x, Right=8: +x) under a symmetry
static unsigned symDirs(int sym, unsigned dirs) {
    static const double vx[4] = {0, 0, -1, 1}, vy[4] = {-1, 1, 0, 0};
    unsigned out = 0;
    for (int i = 0; i < 4; ++i) if (dirs & (1u << i)) {
        double x, y; applySym(sym, vx[i], vy[i], x, y);
        if (y < 0) out |= 1; if (y > 0) out |= 2; if (x < 0) out |= 4; if (x > 0) out |= 8;
    }
    return out;
}
static RScene frameScene(const RScene &s, int sym, double tx, double ty) {
    RScene t = s;
    for (size_t i = 0; i < s.conns.size(); ++i) { t.conns[i].sdir = symDirs(sym, s.conns[i].sdir); t.conns[i].tdir = symDirs(sym, s.conns[i].tdir); }
    for (size_t i = 0; i < s.rects.size(); ++i) {
        double ax, ay, bx, by;
        applySym(sym, s.rects[i].x0, s.rects[i].y0, ax, ay);
        applySym(sym, s.rects[i].x1, s.rects[i].y1, bx, by);
        ax += tx; bx += tx; ay += ty; by += ty;
        t.rects[i] = R4{std::min(ax, bx), std::min(ay, by), std::max(ax, bx), std::max(ay, by)};
    }
    for (size_t i = 0; i < s.conns.size(); ++i) {
        applySym(sym, s.conns[i].sx, s.conns[i].sy, t.conns[i].sx, t.conns[i].sy);
        applySym(sym, s.conns[i].tx, s.conns[i].ty, t.conns[i].tx, t.conns[i].ty);
        t.conns[i].sx += tx; t.conns[i].tx += tx; t.conns[i].sy += ty; t.conns[i].ty += ty;
    }
    for (size_t i = 0; i < s.pins.size(); ++i) {
        applySym(sym, s.pins[i].px, s.pins[i].py, t.pins[i].px, t.pins[i].py);
        t.pins[i].px += tx; t.pins[i].py += ty;
        t.pins[i].dirs = symDirs(sym, s.pins[i].dirs);
    }
    double dx, dy; applySym(sym, s.mdx, s.mdy, dx, dy); t.mdx = dx; t.mdy = dy;
    return t;
}

static void printScene(const RScene &s) {
    printf("orth %d\npen %s\nbuf %s\n", (int) s.orth, H(s.pen).c_str(), H(s.buf).c_str());
    for (size_t i = 0; i < s.rects.size(); ++i)
        printf("rect %s %s %s %s\n", H(s.rects[i].x0).c_str(), H(s.rects[i].y0).c_str(), H(s.rects[i].x1).c_str(), H(s.rects[i].y1).c_str());
    for (size_t i = 0; i < s.conns.size(); ++i)
        printf("conn %s %s %s %s\n", H(s.conns[i].sx).c_str(), H(s.conns[i].sy).c_str(), H(s.conns[i].tx).c_str(), H(s.conns[i].ty).c_str());
    for (size_t i = 0; i < s.conns.size(); ++i)
        if (s.conns[i].sdir != 15 || s.conns[i].tdir != 15 || s.conns[i].spin >= 0 || s.conns[i].tpin >= 0)
            printf("cdir %zu %u %u %d %d\n", i, s.conns[i].sdir, s.conns[i].tdir, s.conns[i].spin, s.conns[i].tpin);
    for (const PinDef &q : s.pins)
        printf("pin %d %u %s %s %d %s %u %d %s\n", q.shape, q.cls, H(q.px).c_str(), H(q.py).c_str(), (int) q.prop, H(q.inside).c_str(), q.dirs, (int) q.excl, H(q.cost).c_str());
    for (size_t i = 0; i < s.conns.size(); ++i) if (s.conns[i].scls > 0) printf("ccls %zu %d %u\n", i, s.conns[i].spin, s.conns[i].scls);
    if (s.moveIdx >= 0) printf("move %d %s %s\n", s.moveIdx, H(s.mdx).c_str(), H(s.mdy).c_str());
    for (int i = 0; i < 9; ++i) if (s.prm[i] >= 0) printf("param %d %s\n", i, H(s.prm[i]).c_str());
    for (int i = 0; i < 7; ++i) if (s.opt[i] >= 0) printf("opt %d %d\n", i, s.opt[i]);
}

static Vec polyVec(const Avoid::PolyLine &p) {
    Vec v; for (size_t i = 0; i < p.size(); ++i) { v.push_back(p.ps[i].x); v.push_back(p.ps[i].y); } return v;
}

// The library's own DebugHandler interface (debughandler.h; compiled in unless NDEBUG) reports, for every A* search,
// the end points and — each time a node is taken off the queue — the vertex path leading to it.  The last path reported
// for a search that reached its target is the path A* returns, with EVERY visibility-graph vertex on it (route() has the
// collinear ones removed): exactly the sequence of edges that cost() of makepath.cpp was charged for.
struct PathTap : public Avoid::DebugHandler {
    struct Rec { Avoid::VertInf *start, *tar; Avoid::Point tarPt; Vec path; };
    std::vector<Rec> recs;
    void beginningSearchWithEndpoints(Avoid::VertInf *src, Avoid::VertInf *tar) override {
        Rec r; r.start = src; r.tar = tar; r.tarPt = tar->point; recs.push_back(r);
    }
    void updateCurrentSearchPath(Avoid::PolyLine p) override {
        if (recs.empty()) return;
        Vec &v = recs.back().path; v.clear();
        for (size_t i = p.size(); i > 0; --i) { v.push_back(p.ps[i - 1].x); v.push_back(p.ps[i - 1].y); }    // reported target-first
    }
    // vertex path of the LAST search between these two end vertices; empty if that search did not reach the target
    Vec lastFor(Avoid::VertInf *src, Avoid::VertInf *tar) const {
        for (size_t i = recs.size(); i > 0; --i) {
            const Rec &r = recs[i - 1];
            if (r.start != src || r.tar != tar) continue;
            size_t n = r.path.size();
            if (n >= 4 && r.path[n - 2] == r.tarPt.x && r.path[n - 1] == r.tarPt.y) return r.path;
            return Vec();
        }
        return Vec();
    }
};

// build, route, (move, reroute), collect; the router is deleted unless `keepAlive` is given
static Out routeScene(const RScene &s, Avoid::Router **keepAlive = nullptr) {
    Out o;
    Avoid::Router *router = new Avoid::Router(s.orth ? Avoid::OrthogonalRouting : Avoid::PolyLineRouting);
    router->setRoutingParameter(Avoid::segmentPenalty, s.pen);
    router->setRoutingParameter(Avoid::shapeBufferDistance, s.buf);
    for (int i = 0; i < 9; ++i) if (s.prm[i] >= 0) router->setRoutingParameter((Avoid::RoutingParameter) i, s.prm[i]);
    for (int i = 0; i < 7; ++i) if (s.opt[i] >= 0) router->setRoutingOption((Avoid::RoutingOption) i, s.opt[i] != 0);
    PathTap tap;
    if (s.capture) router->setDebugHandler(&tap);
    std::vector<Avoid::ShapeRef *> shapes;
    for (size_t i = 0; i < s.rects.size(); ++i) {
        Avoid::Rectangle poly(Avoid::Point(s.rects[i].x0, s.rects[i].y0), Avoid::Point(s.rects[i].x1, s.rects[i].y1));
        shapes.push_back(new Avoid::ShapeRef(router, poly));
    }
    for (const PinDef &q : s.pins) {
        const R4 &b = s.rects[q.shape];
        // offsets of the pin's place relative to the shape's box in THIS frame (exact: dyadic fractions of integer sides)
        double xo = q.prop ? (q.px - b.x0) / (b.x1 - b.x0) : q.px - b.x0, yo = q.prop ? (q.py - b.y0) / (b.y1 - b.y0) : q.py - b.y0;
        Avoid::ShapeConnectionPin *pin = new Avoid::ShapeConnectionPin(shapes[q.shape], q.cls, xo, yo, q.prop, q.inside, (Avoid::ConnDirFlags) q.dirs);
        pin->setExclusive(q.excl);
        if (q.cost > 0) pin->setConnectionCost(q.cost);
    }
    std::vector<Avoid::ConnRef *> conns;
    unsigned pinClass = 100;
    auto mkEnd = [&](double x, double y, unsigned dirs, int pin) -> Avoid::ConnEnd {
        if (pin < 0 || pin >= (int) shapes.size()) return Avoid::ConnEnd(Avoid::Point(x, y), (Avoid::ConnDirFlags) dirs);
        // a pin at (x, y) on the boundary of shape `pin`: proportional offsets (0, 1/2 or 1: exact), no inside offset
        const R4 &q = s.rects[pin];
        double xo = (x - q.x0) / (q.x1 - q.x0), yo = (y - q.y0) / (q.y1 - q.y0);
        unsigned cls = pinClass++;
        new Avoid::ShapeConnectionPin(shapes[pin], cls, xo, yo, true, 0.0, (Avoid::ConnDirFlags) dirs);
        return Avoid::ConnEnd(shapes[pin], cls);
    };
    for (size_t i = 0; i < s.conns.size(); ++i) {
        Avoid::ConnEnd se = s.conns[i].scls > 0 ? Avoid::ConnEnd(shapes[s.conns[i].spin], s.conns[i].scls)
                                                : mkEnd(s.conns[i].sx, s.conns[i].sy, s.conns[i].sdir, s.conns[i].spin);
        Avoid::ConnEnd te = mkEnd(s.conns[i].tx, s.conns[i].ty, s.conns[i].tdir, s.conns[i].tpin);
        conns.push_back(new Avoid::ConnRef(router, se, te));
    }
    char lab[64];
    bool failed = false;
    auto guarded = [&](const char *stage) {
        // allocations made inside a transaction that is abandoned by an exception are lost by the library
        // itself (locals of nudgeOrthogonalRoutes); leak checking is C15's business, not this harness'
#ifdef C20_LSAN
        __lsan::ScopedDisabler noLeakCheck;
#endif
        try { router->processTransaction(); }
        catch (vpsc::CriticalFailure &f) {
            // what(): "... expression: E\n  at line N of FILE ..." -> one token, digits = line number
            std::string w = f.what(); size_t p = w.find("at line ");
            double line = p == std::string::npos ? -1 : atof(w.c_str() + p + 8);
            size_t q = w.find("expression: "); std::string e = q == std::string::npos ? "?" : w.substr(q + 12, w.find('\n', q) - q - 12);
            for (size_t i = 0; i < e.size(); ++i) if (e[i] == ' ') e[i] = '_';
            printf("libassert %s %s %d\n", stage, e.c_str(), (int) line);
            Vec v; v.push_back(line);
            o.push_back(std::make_pair(std::string("exc-") + stage, v));
            failed = true;
        }
    };
    // raw routes are complete before the nudging stage, which is where the known assertion fires: they are
    // recorded even when the transaction was abandoned; display routes only after a complete transaction
    guarded("t1");
    for (size_t i = 0; i < conns.size(); ++i) {
        snprintf(lab, sizeof lab, "route%zu", i); o.push_back(std::make_pair(std::string(lab), polyVec(conns[i]->route())));
        if (s.capture) { snprintf(lab, sizeof lab, "path%zu", i); o.push_back(std::make_pair(std::string(lab), tap.lastFor(conns[i]->src(), conns[i]->dst()))); }
        if (failed) continue;
        snprintf(lab, sizeof lab, "display%zu", i); o.push_back(std::make_pair(std::string(lab), polyVec(conns[i]->displayRoute())));
    }
    if (s.capture) router->setDebugHandler(nullptr);
    if (!failed && s.moveIdx >= 0 && s.moveIdx < (int) shapes.size()) {
        router->moveShape(shapes[s.moveIdx], s.mdx, s.mdy);
        guarded("t2");
        for (size_t i = 0; i < conns.size(); ++i) {
            snprintf(lab, sizeof lab, "mroute%zu", i); o.push_back(std::make_pair(std::string(lab), polyVec(conns[i]->route())));
            if (failed) continue;
            snprintf(lab, sizeof lab, "mdisplay%zu", i); o.push_back(std::make_pair(std::string(lab), polyVec(conns[i]->displayRoute())));
        }
    }
    if (failed) {
        // the router was abandoned in the middle of a transaction: do not run its destructor
#ifdef C20_LSAN
        __lsan_ignore_object(router);
#endif
        if (keepAlive) *keepAlive = nullptr;
        return o;
    }
    if (keepAlive) *keepAlive = router; else delete router;
    return o;
}

// Unrelated libcola / libvpsc work that touches PROCESS-GLOBAL state: the static vpsc::Rectangle::xBorder/yBorder
// (set and restored by ConstrainedFDLayout::makeFeasible, ConstrainedMajorizationLayout with overlap avoidance,
// GradientProjection, removeoverlaps), the static FILELog::ReportingLevel() (set by the ConstrainedFDLayout
// constructor), the layout's PseudoRandom.  Different graph, own rectangles; nothing is shared with the runs.
static void unrelatedCola(vh::Rng &r) {
#ifdef C20_LSAN
    __lsan::ScopedDisabler noLeakCheck;      // a library assertion (exception) inside may abandon allocations
#endif
    int n = (int) r.range(3, 7);
    int variant = (int) r.range(0, 5);
    // 0: makeFeasible() default borders (1,1) + run     1: makeFeasible(non-default, non-zero) + run
    // 2: the same with a cluster hierarchy               3: ConstrainedMajorizationLayout with overlap avoidance
    // 4: removeoverlaps with fixed set + third pass      5: makeFeasible(0, y) / (x, 0)
    try {
        vpsc::Rectangles rs;
        for (int i = 0; i < n; ++i) {
            double x = (double) r.range(0, 30), y = (double) r.range(0, 30), w = (double) r.range(4, 20), h = (double) r.range(4, 20);
            rs.push_back(new vpsc::Rectangle(x, x + w, y, y + h));
        }
        std::vector<cola::Edge> es;
        for (int i = 0; i + 1 < n; ++i) es.push_back(std::make_pair((unsigned) i, (unsigned) (i + 1)));
        if (n > 3) es.push_back(std::make_pair(0u, (unsigned) (n - 1)));
        if (variant == 3) {
            cola::TestConvergence test(1e-3, 5);
            cola::ConstrainedMajorizationLayout alg(rs, es, nullptr, 20.0, cola::StandardEdgeLengths, &test);
            alg.setAvoidOverlaps(r.coin());
            alg.run();
        } else if (variant == 4) {
            std::set<unsigned> fixed; fixed.insert(0);
            vpsc::removeoverlaps(rs, fixed, true);
        } else {
            cola::TestConvergence test(1e-3, 6);
            cola::ConstrainedFDLayout alg(rs, es, 25.0, cola::StandardEdgeLengths, &test);
            alg.setAvoidNodeOverlaps(true);
            cola::RootCluster *root = nullptr;
            if (variant == 2) {
                root = new cola::RootCluster();
                cola::RectangularCluster *c = new cola::RectangularCluster();
                c->addChildNode(0); c->addChildNode(1);
                root->addChildCluster(c);
                for (int i = 2; i < n; ++i) root->addChildNode((unsigned) i);
                alg.setClusterHierarchy(root);
            }
            static const double bs[] = {0.5, 2, 3.5, 7};
            if (variant == 0) alg.makeFeasible();
            else if (variant == 5) { if (r.coin()) alg.makeFeasible(0, bs[r.range(0, 3)]); else alg.makeFeasible(bs[r.range(0, 3)], 0); }
            else alg.makeFeasible(bs[r.range(0, 3)], bs[r.range(0, 3)]);
            alg.run();
            delete root;
        }
        for (auto *q : rs) delete q;
    } catch (...) {
        // the unrelated work itself may hit a library assertion; whatever it left behind is part of the history
    }
}

// unrelated work between the two runs
static void unrelatedWork(vh::Rng &r, Heap &heap) {
    heap.perturb(r);
    RScene u = genScene(r, r.coin(), 4, 2);
    Out o = routeScene(u);
    (void) o;
    // an unrelated VPSC solve as well
    std::vector<vpsc::Variable *> vs; std::vector<vpsc::Constraint *> cs;
    int n = (int) r.range(2, 8);
    for (int i = 0; i < n; ++i) vs.push_back(new vpsc::Variable(i, (double) r.range(-5, 5), 1));
    for (int i = 0; i + 1 < n; ++i) cs.push_back(new vpsc::Constraint(vs[i], vs[i + 1], (double) r.range(0, 3)));
    { vpsc::IncSolver sv(vs, cs); sv.solve(); }
    for (size_t i = 0; i < cs.size(); ++i) delete cs[i];
    for (size_t i = 0; i < vs.size(); ++i) delete vs[i];
    unrelatedCola(r);
    if (r.coin(1, 3)) unrelatedCola(r);
    heap.perturb(r);
}

static void caseRouteTwice(long k, vh::Rng &r, bool orth) {
    vh::beginCase(k, "route-twice");
    RScene s = genScene(r, orth, 7, orth ? 7 : 4);       // many orthogonal connectors: shared channels => nudging has work to do
    if (r.coin(1, 2) && !s.rects.empty()) {        // second transaction: move one shape a little inside its cell margin
        s.moveIdx = (int) r.range(0, (long) s.rects.size() - 1);
        double step = s.buf > 0 ? 0.25 : 0.5;      // shape (+ buffer) stays strictly inside its cell
        s.mdx = (double) r.range(-1, 1) * step; s.mdy = (double) r.range(-1, 1) * step;
    }
    printScene(s);
    bool keepA = r.coin(1, 3);
    printf("keepalive %d\n", (int) keepA);
    fflush(stdout);
    Heap heap;
    long pa = Heap::probe();
    Avoid::Router *alive = nullptr;
    Out a; pushBorders(a);
    { Out t_ = routeScene(s, keepA ? &alive : nullptr); a.insert(a.end(), t_.begin(), t_.end()); }
    pushBorders(a); a.back().first = "borders-after";
    std::rotate(a.begin(), a.begin() + 1, a.end());      // results first, then borders-after, borders (before the run)
    printOut("A", a); fflush(stdout);
    unrelatedWork(r, heap);
    long pb = Heap::probe();
    Out b; pushBorders(b);
    { Out t_ = routeScene(s); b.insert(b.end(), t_.begin(), t_.end()); }
    pushBorders(b); b.back().first = "borders-after";
    std::rotate(b.begin(), b.begin() + 1, b.end());      // results first, then borders-after, borders (before the run)
    printOut("B", b);
    printf("heap %ld %ld\n", pa, pb);
    if (alive) delete alive;
    heap.release();
    vh::endCase();
}

static void caseRouteTranslate(long k, vh::Rng &r) {
    bool orth = r.coin();
    // own tag for orthogonal scenes: their display routes are NUDGED (a VPSC solve with non-dyadic separations)
    vh::beginCase(k, orth ? "route-translate-orth" : "route-translate");
    RScene s = genScene(r, orth, 7, 4);
    double tx = std::ldexp((double) r.range(-(1L << 16), 1L << 16), -10), ty = std::ldexp((double) r.range(-(1L << 16), 1L << 16), -10);
    if (r.coin(1, 4)) { tx = std::floor(tx); }
    printScene(s);
    printf("shift %s %s\n", H(tx).c_str(), H(ty).c_str());
    fflush(stdout);
    Out a = routeScene(s);
    printOut("A", a); fflush(stdout);
    Out b = routeScene(frameScene(s, 0, tx, ty));
    printOut("B", b);
    vh::endCase();
}

static void caseRouteSymmetry(long k, vh::Rng &r, bool orth) {
    vh::beginCase(k, "route-symmetry");
    RScene s = genScene(r, orth, 7, 3);
    printScene(s);
    fflush(stdout);
    Out a = routeScene(s);
    printOut("A", a); fflush(stdout);
    for (int sym = 1; sym < 8; ++sym) {
        Out b = routeScene(frameScene(s, sym, 0, 0));
        for (size_t i = 0; i < b.size(); ++i) {
            if (b[i].first.compare(0, 5, "route") != 0) continue;
            printf("S %d %s", sym, b[i].first.c_str());
            for (size_t j = 0; j < b[i].second.size(); ++j) printf(" %s", H(b[i].second[j]).c_str());
            printf("\n");
        }
        fflush(stdout);
    }
    vh::endCase();
}

// orthogonal scenes with DIRECTION-RESTRICTED connector ends: free ends with 1-3 allowed directions, ends at the
// extreme min/max x or y of the whole scene looking outward (libavoid documents extra sideways visibility for
// those: fixConnectionPointVisibilityOnOutsideOfVisibilityGraph), pins at side midpoints of shapes (buffer 0),
// in particular on the side that is the scene boundary.  The flags are transformed with the coordinates.
static void emitSymmetryRuns(const RScene &s);

// STRICT sub-class (tag route-symmetry-dirs): exactly one restricted end per scene, in one of the two configurations
// libavoid documents extra visibility for:
//  (a) a free end at the extreme min/max x or y of EVERYTHING in the scene (or 1-2 units beyond), allowed to leave only
//      outwards; all other ends unrestricted;
//  (b) a single connector whose source is a pin at the midpoint of the shape side that is the boundary of the whole
//      scene (buffer 0), looking out of that side; its target is clamped into the bounding box of the shapes.
static void caseRouteSymmetryDirsStrict(long k, vh::Rng &r) {
    vh::beginCase(k, "route-symmetry-dirs");
    RScene s = genScene(r, true, 5, 3);
    s.buf = 0;
    int side = (int) r.range(0, 3);    // 0 top (min y), 1 bottom (max y), 2 left (min x), 3 right (max x)
    static const unsigned outward[4] = {1, 2, 4, 8};
    bool pin = !s.rects.empty() && r.coin(1, 3);
    if (!pin) {
        Cn &c = s.conns[0];
        double x0 = c.tx, x1 = c.tx, y0 = c.ty, y1 = c.ty;
        for (const R4 &q : s.rects) { x0 = std::min(x0, q.x0); y0 = std::min(y0, q.y0); x1 = std::max(x1, q.x1); y1 = std::max(y1, q.y1); }
        for (size_t i = 1; i < s.conns.size(); ++i) {
            const Cn &o = s.conns[i];
            x0 = std::min(x0, std::min(o.sx, o.tx)); x1 = std::max(x1, std::max(o.sx, o.tx));
            y0 = std::min(y0, std::min(o.sy, o.ty)); y1 = std::max(y1, std::max(o.sy, o.ty));
        }
        for (int tries = 0; tries < 20; ++tries) {
            double beyond = (double) r.range(0, 2);
            if (side == 0) { c.sy = y0 - beyond; c.sx = (double) r.range((long) x0, (long) x1); }
            if (side == 1) { c.sy = y1 + beyond; c.sx = (double) r.range((long) x0, (long) x1); }
            if (side == 2) { c.sx = x0 - beyond; c.sy = (double) r.range((long) y0, (long) y1); }
            if (side == 3) { c.sx = x1 + beyond; c.sy = (double) r.range((long) y0, (long) y1); }
            bool touches = false;          // not on / in a shape, not on the other end
            for (const R4 &q : s.rects) if (c.sx >= q.x0 && c.sx <= q.x1 && c.sy >= q.y0 && c.sy <= q.y1) touches = true;
            if (!touches && !(c.sx == c.tx && c.sy == c.ty)) break;
            if (tries == 19) { if (side < 2) c.sy += (side == 0 ? -3 : 3); else c.sx += (side == 2 ? -3 : 3); }
        }
        c.sdir = outward[side];
    } else {
        int sh = 0;
        for (size_t j = 0; j < s.rects.size(); ++j) {
            const R4 &a = s.rects[j], &b = s.rects[sh];
            if ((side == 0 && a.y0 < b.y0) || (side == 1 && a.y1 > b.y1) || (side == 2 && a.x0 < b.x0) || (side == 3 && a.x1 > b.x1)) sh = (int) j;
        }
        const R4 &q = s.rects[sh];
        Cn c = s.conns[0];
        if (side == 0) { c.sx = (q.x0 + q.x1) / 2; c.sy = q.y0; }
        if (side == 1) { c.sx = (q.x0 + q.x1) / 2; c.sy = q.y1; }
        if (side == 2) { c.sx = q.x0; c.sy = (q.y0 + q.y1) / 2; }
        if (side == 3) { c.sx = q.x1; c.sy = (q.y0 + q.y1) / 2; }
        c.sdir = outward[side]; c.spin = sh;
        double x0 = 1e9, y0 = 1e9, x1 = -1e9, y1 = -1e9;
        for (const R4 &t : s.rects) { x0 = std::min(x0, t.x0); y0 = std::min(y0, t.y0); x1 = std::max(x1, t.x1); y1 = std::max(y1, t.y1); }
        c.tx = std::min(std::max(c.tx, x0), x1); c.ty = std::min(std::max(c.ty, y0), y1);
        // keep the target off every shape (it may have been clamped onto a boundary): push it to a bbox corner otherwise
        bool touches = false;
        for (const R4 &t : s.rects) if (c.tx >= t.x0 && c.tx <= t.x1 && c.ty >= t.y0 && c.ty <= t.y1) touches = true;
        if (touches || (c.sx == c.tx && c.sy == c.ty)) { c.tx = (side == 2 ? x1 : x0); c.ty = (side == 0 ? y1 : y0); }
        touches = false;
        for (const R4 &t : s.rects) if (c.tx >= t.x0 && c.tx <= t.x1 && c.ty >= t.y0 && c.ty <= t.y1) touches = true;
        if (touches) { c.tx = x0 - 1; c.ty = y0 - 1; if (side == 0 || side == 2) { c.tx = x1 + 1; c.ty = y1 + 1; } c.spin = sh; }
        s.conns.clear(); s.conns.push_back(c);
    }
    printScene(s);
    fflush(stdout);
    emitSymmetryRuns(s);
    vh::endCase();
}

static void emitSymmetryRuns(const RScene &s) {
    Out a = routeScene(s);
    printOut("A", a); fflush(stdout);
    for (int sym = 1; sym < 8; ++sym) {
        Out b = routeScene(frameScene(s, sym, 0, 0));
        for (size_t i = 0; i < b.size(); ++i) {
            if (b[i].first.compare(0, 5, "route") != 0) continue;
            printf("S %d %s", sym, b[i].first.c_str());
            for (size_t j = 0; j < b[i].second.size(); ++j) printf(" %s", H(b[i].second[j]).c_str());
            printf("\n");
        }
        fflush(stdout);
    }
}

static void caseRouteSymmetryDirs(long k, vh::Rng &r, bool strict) {
    if (strict) { caseRouteSymmetryDirsStrict(k, r); return; }
    vh::beginCase(k, "route-symmetry-dirs-any");
    RScene s = genScene(r, true, 5, 3);
    s.buf = 0;
    // scene extent (shapes and cell-border lines)
    double lo = 0, hiX = 0, hiY = 0;
    for (const R4 &q : s.rects) { hiX = std::max(hiX, q.x1); hiY = std::max(hiY, q.y1); }
    for (const Cn &c : s.conns) { hiX = std::max(hiX, std::max(c.sx, c.tx)); hiY = std::max(hiY, std::max(c.sy, c.ty)); }
    hiX = std::ceil(hiX); hiY = std::ceil(hiY);
    for (size_t i = 0; i < s.conns.size(); ++i) {
        Cn &c = s.conns[i];
        int kind = (int) r.range(0, 5);
        if (kind == 0) {                       // random restriction of both ends
            c.sdir = (unsigned) r.range(1, 15); c.tdir = (unsigned) r.range(1, 15);
        } else if (kind <= 2) {                // source at the extreme edge of the scene (or beyond), looking outward only
            int side = (int) r.range(0, 3);    // 0 top (min y), 1 bottom (max y), 2 left, 3 right
            double beyond = (double) r.range(0, 2);
            if (side == 0) { c.sy = lo - beyond; c.sx = (double) r.range(0, (long) hiX); c.sdir = 1; }
            if (side == 1) { c.sy = hiY + beyond; c.sx = (double) r.range(0, (long) hiX); c.sdir = 2; }
            if (side == 2) { c.sx = lo - beyond; c.sy = (double) r.range(0, (long) hiY); c.sdir = 4; }
            if (side == 3) { c.sx = hiX + beyond; c.sy = (double) r.range(0, (long) hiY); c.sdir = 8; }
            if (r.coin(1, 3)) c.tdir = (unsigned) r.range(1, 15);
        } else if (!s.rects.empty()) {         // source = pin at a side midpoint of a shape, looking out of that side
            int sh = (int) r.range(0, (long) s.rects.size() - 1);
            if (kind == 4) {                   // prefer the shape that reaches furthest down / right / up / left
                int side = (int) r.range(0, 3);
                for (size_t j = 0; j < s.rects.size(); ++j) {
                    const R4 &a = s.rects[j], &b = s.rects[sh];
                    if ((side == 0 && a.y0 < b.y0) || (side == 1 && a.y1 > b.y1) || (side == 2 && a.x0 < b.x0) || (side == 3 && a.x1 > b.x1)) sh = (int) j;
                }
                const R4 &q = s.rects[sh];
                if (side == 0) { c.sx = (q.x0 + q.x1) / 2; c.sy = q.y0; c.sdir = 1; }
                if (side == 1) { c.sx = (q.x0 + q.x1) / 2; c.sy = q.y1; c.sdir = 2; }
                if (side == 2) { c.sx = q.x0; c.sy = (q.y0 + q.y1) / 2; c.sdir = 4; }
                if (side == 3) { c.sx = q.x1; c.sy = (q.y0 + q.y1) / 2; c.sdir = 8; }
            } else {
                const R4 &q = s.rects[sh];
                int side = (int) r.range(0, 3);
                if (side == 0) { c.sx = (q.x0 + q.x1) / 2; c.sy = q.y0; c.sdir = 1; }
                if (side == 1) { c.sx = (q.x0 + q.x1) / 2; c.sy = q.y1; c.sdir = 2; }
                if (side == 2) { c.sx = q.x0; c.sy = (q.y0 + q.y1) / 2; c.sdir = 4; }
                if (side == 3) { c.sx = q.x1; c.sy = (q.y0 + q.y1) / 2; c.sdir = 8; }
            }
            c.spin = sh;
            if (kind == 4 && r.coin()) {
                // make that shape side the boundary of the WHOLE scene: this connector only, target clamped into the
                // bounding box of the shapes (stays on a cell-border line or on a shape boundary, never inside a shape)
                double x0 = 1e9, y0 = 1e9, x1 = -1e9, y1 = -1e9;
                for (const R4 &q : s.rects) { x0 = std::min(x0, q.x0); y0 = std::min(y0, q.y0); x1 = std::max(x1, q.x1); y1 = std::max(y1, q.y1); }
                Cn only = c;
                only.tx = std::min(std::max(only.tx, x0), x1); only.ty = std::min(std::max(only.ty, y0), y1);
                if (only.sx == only.tx && only.sy == only.ty) { only.tdir = 15; only.tx = x0; only.ty = y0; }
                if (!(only.sx == only.tx && only.sy == only.ty)) { s.conns.clear(); s.conns.push_back(only); break; }
            }
        }
        if (c.sx == c.tx && c.sy == c.ty) c.tx += 1;
    }
    printScene(s);
    fflush(stdout);
    emitSymmetryRuns(s);
    vh::endCase();
}

// ------------------------------------------------------------------------------------ classes *-params
// Frame classes over the WHOLE public configuration space of the router and over DEGENERATE geometry:
//  * every RoutingParameter (segmentPenalty, anglePenalty, crossingPenalty, clusterCrossingPenalty, fixedSharedPathPenalty,
//    portDirectionPenalty, shapeBufferDistance, idealNudgingDistance, reverseDirectionPenalty) gets a non-default value with
//    probability ~1/2 each, every RoutingOption is flipped with probability ~1/3 (all values dyadic: double arithmetic on
//    costs stays exact);
//  * obstacles: rectangles that may be disjoint, abutting or overlapping (bars with arms: L-, U-, T-shaped pockets), in a
//    random one of the 8 orientations;
//  * connector ends: exactly aligned with each other (equal x or equal y), on the (buffered) edge LINES of shapes, across
//    an obstacle from each other, inside pockets, shared between connectors — always strictly outside every buffered shape.
static bool insideAny(const RScene &s, double x, double y, double margin) {
    for (const R4 &q : s.rects)
        if (x >= q.x0 - margin && x <= q.x1 + margin && y >= q.y0 - margin && y <= q.y1 + margin) return true;
    return false;
}

static RScene genParamScene(vh::Rng &r, bool orth, int maxConns, bool crossStageOk, bool withPins = false) {
    RScene s; s.orth = orth;
    // ---- parameters
    static const double segs[] = {1, 2, 3, 10, 50, 0.5};
    s.pen = segs[r.range(0, 5)];
    if (!orth && r.coin(1, 6)) s.pen = 0;
    static const double bufs[] = {0, 0, 0.5, 1, 2, 4};
    s.buf = bufs[r.range(0, 5)];
    // scenes with a pin class: buffer > 0 (with buffer 0 another connector may run along the shape edge THROUGH a pin, which
    // libavoid allows in some orientations only — reported, not generated)
    if (withPins && s.buf == 0) s.buf = r.coin() ? 0.5 : 1;
    s.prm[Avoid::segmentPenalty] = s.pen;
    s.prm[Avoid::shapeBufferDistance] = s.buf;
    static const double angs[] = {0.5, 4, 50};
    if (r.coin(1, 3)) s.prm[Avoid::anglePenalty] = angs[r.range(0, 2)];
    static const double revs[] = {0.5, 2, 8, 32, 500, 500};
    if (r.coin(2, 3)) s.prm[Avoid::reverseDirectionPenalty] = revs[r.range(0, 5)];
    if (crossStageOk) {
        static const double crs[] = {1, 16, 200};
        if (r.coin(1, 3)) s.prm[Avoid::crossingPenalty] = crs[r.range(0, 2)];
        static const double shp[] = {2, 110};
        if (r.coin(1, 3)) s.prm[Avoid::fixedSharedPathPenalty] = shp[r.range(0, 1)];
    }
    if (r.coin(1, 3)) s.prm[Avoid::clusterCrossingPenalty] = r.coin() ? 4000 : 8;
    if (r.coin(1, 3)) s.prm[Avoid::portDirectionPenalty] = r.coin() ? 100 : 4;
    static const double nud[] = {0.5, 1, 2, 8};
    if (r.coin(1, 2)) s.prm[Avoid::idealNudgingDistance] = nud[r.range(0, 3)];
    for (int i = 0; i < 7; ++i) if (r.coin(1, 3)) s.opt[i] = (int) r.range(0, 1);
    // ---- obstacles (integer corners in [0, W] x [0, Hh]).  Two shapes (grown by the buffer) may be apart or properly
    // overlapping, but never ABUTTING (touching without overlapping: a zero-width channel, which libavoid opens in some
    // orientations only — reported, not generated); polyline scenes keep all shapes >= 1 apart (overlapping shapes put
    // shape corners inside other shapes: C03's subject).
    long W = r.range(12, 40), Hh = r.range(12, 40);
    int nOb = (int) r.range(1, 4);
    auto rel = [&](const R4 &a, const R4 &b, double &ox, double &oy) {
        ox = std::min(a.x1, b.x1) - std::max(a.x0, b.x0) + 2 * s.buf;
        oy = std::min(a.y1, b.y1) - std::max(a.y0, b.y0) + 2 * s.buf;
    };
    auto abuts = [&](const R4 &a, const R4 &b) { double ox, oy; rel(a, b, ox, oy); return (ox == 0 && oy >= 0) || (oy == 0 && ox >= 0); };
    auto apart = [&](const R4 &a, const R4 &b) { double ox, oy; rel(a, b, ox, oy); return ox <= -1 || oy <= -1; };
    auto fits = [&](const std::vector<R4> &grp) {
        for (size_t i = 0; i < grp.size(); ++i) {
            for (const R4 &q : s.rects) if (abuts(grp[i], q) || (!orth && !apart(grp[i], q))) return false;
            for (size_t j = i + 1; j < grp.size(); ++j) if (abuts(grp[i], grp[j]) || (!orth && !apart(grp[i], grp[j]))) return false;
        }
        return true;
    };
    for (int k = 0; k < nOb; ++k) for (int tries = 0; tries < 12; ++tries) {
        int kind = orth ? (int) r.range(0, 3) : 0;
        std::vector<R4> grp;
        if (kind == 0) {                                   // plain rectangle
            long w = r.range(1, W / 2), h = r.range(1, Hh / 2), x = r.range(0, W - w), y = r.range(0, Hh - h);
            grp.push_back(R4{(double) x, (double) y, (double) (x + w), (double) (y + h)});
        } else {                                           // bar with 1-2 arms: built in a local frame, then placed in one of 8 orientations
            long len = r.range(4, 24), th = r.range(1, 3);
            std::vector<R4> loc;
            loc.push_back(R4{0, 0, (double) len, (double) th});
            int arms = (int) r.range(1, 2);
            for (int a = 0; a < arms; ++a) {
                long aw = r.range(1, 3), ah = r.range(1, 10);
                long ax = (a == 0) ? (r.coin(2, 3) ? len - aw : r.range(0, len - aw)) : (r.coin(2, 3) ? 0 : r.range(0, len - aw));
                bool up = r.coin(3, 4);                    // second arm mostly on the same side: a U; else an S / T
                if (kind == 3 && a == 1) up = !up;
                double y0 = up ? -(double) ah : (double) th - 1, y1 = up ? 1 : (double) (th + ah);   // overlaps the bar by 1
                loc.push_back(R4{(double) ax, y0, (double) (ax + aw), y1});
            }
            int sym = (int) r.range(0, 7);
            double ox = (double) r.range(0, W), oy = (double) r.range(0, Hh);
            for (const R4 &q : loc) {
                double ax, ay, bx, by; applySym(sym, q.x0, q.y0, ax, ay); applySym(sym, q.x1, q.y1, bx, by);
                grp.push_back(R4{std::min(ax, bx) + ox, std::min(ay, by) + oy, std::max(ax, bx) + ox, std::max(ay, by) + oy});
            }
        }
        if (!fits(grp)) continue;
        s.rects.insert(s.rects.end(), grp.begin(), grp.end());
        break;
    }
    if (s.rects.empty()) s.rects.push_back(R4{2, 2, 7, 5});
    // ---- connector ends
    double m = s.buf;                                      // an end must be strictly outside every shape grown by the buffer
    auto freePt = [&](double &x, double &y) -> bool {
        for (int t = 0; t < 40; ++t) {
            x = (double) r.range(-6, W + 6); y = (double) r.range(-6, Hh + 6);
            if (!insideAny(s, x, y, m)) return true;
        }
        return false;
    };
    auto edgeLine = [&](bool xAxis) -> double {            // a (buffered) shape-edge line, or the edge itself
        const R4 &q = s.rects[r.range(0, (long) s.rects.size() - 1)];
        double b = r.coin(2, 3) ? s.buf : 0.0;
        if (xAxis) return r.coin() ? q.x0 - b : q.x1 + b;
        return r.coin() ? q.y0 - b : q.y1 + b;
    };
    // ---- a shape with a multi-pin class (half of the scenes): 2-4 pins on different sides (side midpoints, quarter points,
    // corners), each looking out of its side (sometimes an extra direction), given to the library as ATTACH_POS_* / proportional
    // or absolute offsets, with or without an inside offset, exclusive or shared, sometimes with a connection cost
    int pinShape = -1; size_t nPins = 0; bool pinsExcl = false;
    if (withPins) {
        pinShape = (int) r.range(0, (long) s.rects.size() - 1);
        const R4 &b = s.rects[pinShape];
        double w = b.x1 - b.x0, h = b.y1 - b.y0;
        pinsExcl = r.coin(1, 3);
        std::vector<int> sides; for (int i = 0; i < 4; ++i) sides.push_back(i);
        r.shuffle(sides);
        nPins = (size_t) r.range(2, 4);
        bool prop = r.coin(2, 3);
        static const double fr[] = {0.5, 0.5, 0.25, 0.75, 0, 1};
        for (size_t i = 0; i < nPins; ++i) {
            int side = sides[i];                           // 0 top (min y, Up=1), 1 bottom (Down=2), 2 left (Left=4), 3 right (Right=8)
            double f = fr[r.range(0, 5)];
            PinDef q; q.shape = pinShape; q.cls = 1; q.prop = prop; q.excl = pinsExcl;
            if (side == 0) { q.px = b.x0 + f * w; q.py = b.y0; q.dirs = 1; }
            if (side == 1) { q.px = b.x0 + f * w; q.py = b.y1; q.dirs = 2; }
            if (side == 2) { q.px = b.x0; q.py = b.y0 + f * h; q.dirs = 4; }
            if (side == 3) { q.px = b.x1; q.py = b.y0 + f * h; q.dirs = 8; }
            if (f == 0 || f == 1) q.dirs |= (side < 2) ? (f == 0 ? 4u : 8u) : (f == 0 ? 1u : 2u);     // a corner looks out of both sides
            if (r.coin(1, 8)) q.dirs = 15;
            q.inside = (w >= 4 && h >= 4 && r.coin(1, 5)) ? 1.0 : 0.0;
            q.cost = r.coin(1, 6) ? (double) r.range(1, 8) : 0.0;
            bool dup = false;                              // two pins at one place differ at most in their cost, which the pin set's order ignores
            for (const PinDef &o : s.pins) if (o.px == q.px && o.py == q.py) dup = true;
            if (dup) continue;
            s.pins.push_back(q);
        }
        nPins = s.pins.size();
        static const double pdp[] = {100, 100, 16, 4};
        if (r.coin(4, 5)) s.prm[Avoid::portDirectionPenalty] = pdp[r.range(0, 3)];
    }
    int nc = (int) r.range(1, maxConns);
    size_t pinned = 0;
    for (int i = 0; i < nc; ++i) {
        Cn c; bool ok = false;
        // cost-judged symmetry class: an EXCLUSIVE class serves one connector per scene (with several, the pins are handed out
        // greedily in connector order, and which of two equal-cost pins the first one takes legitimately changes what is left
        // for the second: per-connector costs need not be frame-invariant).  The run-twice and exact-translation classes
        // (g_exclMulti) let an exclusive class serve up to as many connectors as it has pins.
        if (pinShape >= 0 && (i == 0 || r.coin()) && (!pinsExcl || pinned < (g_exclMulti ? nPins : 1)) && nPins > 0) {
            // source = the pin class; far end anywhere free (mostly diagonal from the shape), sometimes in line with the shape's centre
            const R4 &b = s.rects[pinShape];
            c.spin = pinShape; c.scls = 1; c.sx = (b.x0 + b.x1) / 2; c.sy = (b.y0 + b.y1) / 2;
            if (freePt(c.tx, c.ty)) {
                if (r.coin(1, 5)) { if (r.coin()) c.tx = c.sx; else c.ty = c.sy; if (insideAny(s, c.tx, c.ty, m)) { c.tx = -7; c.ty = -7; } }
                ++pinned; s.conns.push_back(c); continue;
            }
            c = Cn();
        }
        for (int tries = 0; tries < 60 && !ok; ++tries) {
            int mode = (int) r.range(0, 7);
            if (mode <= 2) {                               // across an obstacle: the two ends on opposite sides of a rectangle, aligned or nearly
                const R4 &q = s.rects[r.range(0, (long) s.rects.size() - 1)];
                bool vert = r.coin();
                double d1 = m + (double) r.range(1, 4), d2 = m + (double) r.range(1, 12);
                static const double offs[] = {0, 0, 0, 1, -1, 3, -2};
                double off = offs[r.range(0, 6)];
                // position along the obstacle: anywhere, or (half of the time) within 1-5 of one of its ends — where an arm of a
                // bar makes the short way round lead backwards first
                auto along = [&](double lo, double hi) -> double {
                    if (r.coin()) return (double) r.range((long) lo - 2, (long) hi + 2);
                    double e = (double) r.range(1, 5);
                    return r.coin() ? std::min(hi, lo + e) : std::max(lo, hi - e);
                };
                bool flip = r.coin();                      // which side the source is on
                if (vert) { c.sx = along(q.x0, q.x1); c.sy = flip ? q.y1 + d1 : q.y0 - d1; c.tx = c.sx + off; c.ty = flip ? q.y0 - d2 : q.y1 + d2; }
                else { c.sy = along(q.y0, q.y1); c.sx = flip ? q.x1 + d1 : q.x0 - d1; c.ty = c.sy + off; c.tx = flip ? q.x0 - d2 : q.x1 + d2; }
                if (r.coin()) { std::swap(c.sx, c.tx); std::swap(c.sy, c.ty); }
            } else if (mode <= 4) {                        // free source; target exactly aligned with it on one axis
                if (!freePt(c.sx, c.sy)) continue;
                if (r.coin()) { c.tx = c.sx; c.ty = (double) r.range(-6, Hh + 6); } else { c.ty = c.sy; c.tx = (double) r.range(-6, W + 6); }
            } else if (mode == 5) {                        // ends on shape-edge lines (x of one, y of the other / both)
                if (!freePt(c.sx, c.sy) || !freePt(c.tx, c.ty)) continue;
                if (r.coin()) c.sx = edgeLine(true); else c.sy = edgeLine(false);
                if (r.coin()) { if (r.coin()) c.tx = edgeLine(true); else c.ty = edgeLine(false); }
                if (r.coin(1, 3)) { if (r.coin()) c.tx = c.sx; else c.ty = c.sy; }
            } else if (mode == 6 && i > 0) {               // shares an end point with an earlier connector
                const Cn &o = s.conns[r.range(0, i - 1)];
                c.sx = r.coin() ? o.sx : o.tx; c.sy = (c.sx == o.sx) ? o.sy : o.ty;
                if (c.sx == o.tx && r.coin()) c.sy = o.ty;
                if (!freePt(c.tx, c.ty)) continue;
                if (r.coin(1, 3)) { if (r.coin()) c.tx = c.sx; else c.ty = c.sy; }
                if (o.scls == 0 && r.coin(1, 3)) {         // a parallel connector: the same two end points (or swapped)
                    c = o; if (r.coin()) { std::swap(c.sx, c.tx); std::swap(c.sy, c.ty); }
                }
            } else {
                if (!freePt(c.sx, c.sy) || !freePt(c.tx, c.ty)) continue;
            }
            ok = !insideAny(s, c.sx, c.sy, m) && !insideAny(s, c.tx, c.ty, m) && !(c.sx == c.tx && c.sy == c.ty);
        }
        if (!ok) { c.sx = -8; c.sy = -8 - i; c.tx = (double) W + 8; c.ty = -8 - i; }      // aligned, outside everything
        s.conns.push_back(c);
    }
    return s;
}

// `shifted`: every symmetry is followed by its own translation (integer offsets up to +-48, printed as `frame sym tx ty`):
// the 7 images are then not related to the original by a map that fixes the origin
static void emitSymmetryRunsWithPaths(const RScene &s, vh::Rng *shiftRng = nullptr) {
    // frame 8 (only with `shifted`): the identity followed by a translation by a multiple of 2^-10 of the order of the scene size or larger
    double tx[9] = {0}, ty[9] = {0};
    int nFrames = shiftRng ? 9 : 8;
    if (shiftRng) for (int sym = 1; sym < 9; ++sym) {
        tx[sym] = (double) shiftRng->range(-48, 48); ty[sym] = (double) shiftRng->range(-48, 48);
        if (sym == 8) {
            long big = shiftRng->coin() ? 1L << 16 : 1L << 19;
            tx[sym] = std::ldexp((double) shiftRng->range(-big, big), -10); ty[sym] = std::ldexp((double) shiftRng->range(-big, big), -10);
            if (shiftRng->coin(1, 4)) ty[sym] = 0;
        }
        printf("frame %d %s %s\n", sym, H(tx[sym]).c_str(), H(ty[sym]).c_str());
    }
    fflush(stdout);
    Out a = routeScene(s);
    printOut("A", a); fflush(stdout);
    for (int sym = 1; sym < nFrames; ++sym) {
        Out b = routeScene(frameScene(s, sym == 8 ? 0 : sym, tx[sym], ty[sym]));
        for (size_t i = 0; i < b.size(); ++i) {
            if (b[i].first.compare(0, 5, "route") != 0 && b[i].first.compare(0, 4, "path") != 0) continue;
            printf("S %d %s", sym, b[i].first.c_str());
            for (size_t j = 0; j < b[i].second.size(); ++j) printf(" %s", H(b[i].second[j]).c_str());
            printf("\n");
        }
        fflush(stdout);
    }
}

// where the scene sits relative to the ORIGIN: as generated (origin at a corner), origin inside the scene, or far away
static RScene placeScene(vh::Rng &r, const RScene &s) {
    int k = (int) r.range(0, 3);
    if (k == 0) return s;
    if (k == 1) return frameScene(s, 0, -(double) r.range(5, 30), -(double) r.range(5, 30));
    return frameScene(s, 0, (double) r.range(-300, 300), (double) r.range(-300, 300));
}

// route-symmetry-params: the 8 images of a scene; the driver compares the COST of the A* vertex paths with the Lean cost
// model (length + segmentPenalty*bends + reverseDirectionPenalty*reversing edges; Props/C20 proves it frame-invariant).
// Scenes with >= 2 connectors in which the crossing-penalty rerouting stage can act (crossingPenalty / fixedSharedPathPenalty
// set: the final cost involves the other connectors' routes, not modelled) or reverseDirectionPenalty is set carry the
// tag route-symmetry-params-x: structure judged, cost differences counted only.
static void caseRouteSymmetryParams(long k, vh::Rng &r) {
    bool orth = r.coin(3, 4);
    bool crossStage = r.coin(1, 5);
    bool withPins = r.coin();
    RScene s = genParamScene(r, orth, crossStage ? 3 : 2, crossStage, withPins);
    if (withPins) s = placeScene(r, s);
    bool x = s.conns.size() >= 2 && (s.prm[Avoid::crossingPenalty] > 0 || s.prm[Avoid::fixedSharedPathPenalty] > 0 ||
                                     s.prm[Avoid::reverseDirectionPenalty] > 0);
    // reverseDirectionPenalty is charged per visibility-graph EDGE, and which vertices the graph has on a line through
    // another connector's end point depends on the frame (finding, see C20.py): judged with a single connector only
    if (x && s.prm[Avoid::reverseDirectionPenalty] > 0 && r.coin(2, 3)) { s.conns.resize(1); x = false; }
    vh::beginCase(k, x ? "route-symmetry-params-x" : "route-symmetry-params");
    s.capture = true;
    printScene(s);
    fflush(stdout);
    emitSymmetryRunsWithPaths(s, withPins ? &r : nullptr);
    vh::endCase();
}

// route-translate (params): the same scenes (any parameters, the crossing stage included, optional shape move) translated
// by a multiple of 2^-10: raw routes translate exactly
static void caseRouteTranslateParams(long k, vh::Rng &r) {
    bool orth = r.coin(2, 3);
    // same tags as the plain translation classes (the driver recognises the wider class by its `param` lines)
    vh::beginCase(k, orth ? "route-translate-orth" : "route-translate");
    // pin classes (exclusive ones with several connectors too): since fix 992d05a the search orders dummy pin edges by
    // position, so the raw routes — chosen pins included — must translate exactly
    bool xs = true;                    // crossing-penalty stage allowed in every scene (fix 5dab214)
    bool withPins = r.coin();
    g_exclMulti = true;
    RScene s = genParamScene(r, orth, 4, xs, withPins);
    g_exclMulti = false;
    {   // pin scenes here: one connector on the pin class and no crossing stage (with more, two builds of the SAME scene in one
        // process already differ about once in 5000 scenes on HEAD 5dab214 — C20_ZEROSHIFT=1 shows it; reported)
        size_t nPinned = 0;
        for (Cn &c : s.conns) if (c.scls > 0 && ++nPinned > 1) { c.scls = 0; c.spin = -1; c.sx = -9 - (double) nPinned; c.sy = -9; }
        if (nPinned >= 1) { s.prm[Avoid::crossingPenalty] = -1; s.prm[Avoid::fixedSharedPathPenalty] = -1; }
    }
    if (withPins) s = placeScene(r, s);     // crossing-penalty stage in a third of the scenes (its rerouting order is address dependent once in ~15000 scenes: reported)
    if (r.coin(1, 3)) {
        s.moveIdx = (int) r.range(0, (long) s.rects.size() - 1);
        s.mdx = (double) r.range(-2, 2) * 0.5; s.mdy = (double) r.range(-2, 2) * 0.5;
        // the moved shape must not swallow a connector end
        R4 q = s.rects[s.moveIdx]; q.x0 += s.mdx; q.x1 += s.mdx; q.y0 += s.mdy; q.y1 += s.mdy;
        for (const Cn &c : s.conns)
            if ((c.sx >= q.x0 - s.buf && c.sx <= q.x1 + s.buf && c.sy >= q.y0 - s.buf && c.sy <= q.y1 + s.buf) ||
                (c.tx >= q.x0 - s.buf && c.tx <= q.x1 + s.buf && c.ty >= q.y0 - s.buf && c.ty <= q.y1 + s.buf)) s.moveIdx = -1;
    }
    double tx = std::ldexp((double) r.range(-(1L << 16), 1L << 16), -10), ty = std::ldexp((double) r.range(-(1L << 16), 1L << 16), -10);
    if (r.coin(1, 4)) { tx = std::floor(tx); }
    if (r.coin(1, 4)) { ty = 0; }
    if (getenv("C20_ZEROSHIFT")) { tx = 0; ty = 0; }      // triage aid: is a translation failure really an address dependence (run B = run A)?
    printScene(s);
    printf("shift %s %s\n", H(tx).c_str(), H(ty).c_str());
    fflush(stdout);
    Out a = routeScene(s);
    printOut("A", a); fflush(stdout);
    Out b = routeScene(frameScene(s, 0, tx, ty));
    printOut("B", b);
    vh::endCase();
}

// route-twice on the *-params scenes: all routing parameters / options, pin classes (shared and exclusive, an exclusive class
// serving several connectors), degenerate alignments; the same API calls twice in one process with heap scrambling and unrelated
// work in between; routes, display routes and the A* vertex paths (second vertex = the chosen pin) must be bit-identical
static void caseRouteTwiceParams(long k, vh::Rng &r) {
    vh::beginCase(k, "route-twice");
    bool orth = r.coin(2, 3);
    bool withPins = r.coin(3, 4);
    g_exclMulti = true;
    // the crossing-penalty rerouting stage (crossingPenalty / fixedSharedPathPenalty) is on in every second scene and allowed in
    // the others: since fix 5dab214 Router::improveCrossings keeps the crossing connectors ordered by connector id (before,
    // a std::map keyed by ConnRef ADDRESSES decided ties in removeConnectorWithMostCrossings).  --mode twice-xstage: every scene.
    bool forceX = g_twiceXStage || r.coin();
    g_exclMulti = true;
    RScene s = genParamScene(r, orth, 4, true, withPins);
    // still address dependent on HEAD 5dab214 (reported, site not found): >= 2 connectors attached to ONE pin class — with the
    // crossing stage about 1 such scene in 1000 differs between two identical runs, without it about 1 in 5000 (the second
    // connector takes the other of two equal-cost L routes).  Default: one connector per pin class; --mode twice-multipin
    // keeps them all (exclusive classes serving several connectors included).
    if (!g_twiceMultiPin) {
        size_t nPinned = 0;
        for (Cn &c : s.conns) if (c.scls > 0 && ++nPinned > 1) { c.scls = 0; c.spin = -1; c.sx = -9 - (double) nPinned; c.sy = -9; }
    }
    // a third of the scenes: PARALLEL connectors (same two free end points, possibly swapped) with the crossing stage on — they
    // share their whole path, have equal crossing counts and equal cost estimates: exactly the tie that improveCrossings must
    // not break by address
    if (r.coin(1, 3)) {
        if (s.conns.size() < 2) s.conns.push_back(s.conns[0]);
        size_t src = 0; while (src < s.conns.size() && s.conns[src].scls > 0) ++src;
        if (src < s.conns.size()) {
            size_t dstI = (src + 1) % s.conns.size();
            if (s.conns[dstI].scls == 0 || s.conns.size() > 2) {
                if (s.conns[dstI].scls > 0) dstI = (dstI + 1) % s.conns.size();
                if (dstI != src && s.conns[dstI].scls == 0) {
                    s.conns[dstI] = s.conns[src];
                    if (r.coin()) { std::swap(s.conns[dstI].sx, s.conns[dstI].tx); std::swap(s.conns[dstI].sy, s.conns[dstI].ty); }
                    forceX = true;
                    if (s.prm[Avoid::fixedSharedPathPenalty] < 0) s.prm[Avoid::fixedSharedPathPenalty] = 110;
                }
            }
        }
    }
    if (forceX) { if (s.prm[Avoid::crossingPenalty] < 0) s.prm[Avoid::crossingPenalty] = 16; if (s.prm[Avoid::fixedSharedPathPenalty] < 0 && r.coin()) s.prm[Avoid::fixedSharedPathPenalty] = 110; }
    g_exclMulti = false;
    if (withPins) s = placeScene(r, s);
    s.capture = true;
    printScene(s);
    fflush(stdout);
    Heap heap;
    long pa = Heap::probe();
    Out a = routeScene(s);
    printOut("A", a); fflush(stdout);
    unrelatedWork(r, heap);
    // the pin edges, ANodes and visibility-list nodes of run B come back in a random address order
    static const size_t classes[] = {32, 48, 64, 80, 96, 112, 128, 144, 160};
    for (size_t c = 0; c < sizeof classes / sizeof classes[0]; ++c) heap.scramble(r, classes[c], 40);
    long pb = Heap::probe();
    Out b = routeScene(s);
    printOut("B", b);
    printf("heap %ld %ld\n", pa, pb);
    heap.release();
    vh::endCase();
}

// ------------------------------------------------------------------------------------ VPSC
struct VP {
    std::vector<double> d, w;
    struct C { int l, r; double gap; bool eq; };
    std::vector<C> cs;
};

static VP genVP(vh::Rng &r, bool allowEq) {
    VP p;
    int n = (int) r.range(2, 14);
    static const double ws[] = {1, 1, 1, 2, 0.5, 4, 8};
    bool unitW = r.coin();
    long span = r.range(2, 12);
    for (int i = 0; i < n; ++i) {
        p.d.push_back(std::ldexp((double) r.range(-4 * span, 4 * span), -2));
        p.w.push_back(unitW ? 1.0 : ws[r.range(0, 6)]);
    }
    int m = (int) r.range(1, 2 * n);
    for (int j = 0; j < m; ++j) {
        int a = (int) r.range(0, n - 2), b = (int) r.range(a + 1, n - 1);      // l < r: acyclic, always satisfiable
        VP::C c; c.l = a; c.r = b; c.gap = std::ldexp((double) r.range(0, 24), -2); c.eq = false;
        p.cs.push_back(c);
    }
    if (allowEq && r.coin(1, 3)) {     // a few equalities along a path (consistent with each other; may conflict with inequalities)
        int a = (int) r.range(0, n - 2);
        VP::C c; c.l = a; c.r = a + 1; c.gap = std::ldexp((double) r.range(0, 12), -2); c.eq = true;
        p.cs.push_back(c);
    }
    return p;
}

static void printVP(const VP &p) {
    printf("n %zu\nd", p.d.size()); for (double x : p.d) printf(" %s", H(x).c_str());
    printf("\nw"); for (double x : p.w) printf(" %s", H(x).c_str());
    printf("\n");
    for (const VP::C &c : p.cs) printf("c %d %d %s %d\n", c.l, c.r, H(c.gap).c_str(), (int) c.eq);
}

// varOrder[i] = position of variable i in the vector handed to the solver; conOrder = order of constraints
static Out solveVP(const VP &p, const std::vector<int> &varOrder, const std::vector<int> &conOrder) {
    Out o;
    size_t n = p.d.size();
    bool hasEq = false; for (const VP::C &c : p.cs) hasEq |= c.eq;
    for (int variant = 0; variant < 2; ++variant) {
        if (variant == 1 && hasEq) continue;          // static Solver: inequality DAGs only
        std::vector<vpsc::Variable *> byId(n), vs(n);
        for (size_t i = 0; i < n; ++i) { byId[i] = new vpsc::Variable((int) varOrder[i], p.d[i], p.w[i]); vs[varOrder[i]] = byId[i]; }
        std::vector<vpsc::Constraint *> cs;
        for (size_t j = 0; j < conOrder.size(); ++j) {
            const VP::C &c = p.cs[conOrder[j]];
            cs.push_back(new vpsc::Constraint(byId[c.l], byId[c.r], c.gap, c.eq));
        }
        if (variant == 0) { vpsc::IncSolver sv(vs, cs); sv.solve(); }
        else { vpsc::Solver sv(vs, cs); sv.solve(); }
        Vec v; for (size_t i = 0; i < n; ++i) v.push_back(byId[i]->finalPosition);
        o.push_back(std::make_pair(std::string(variant == 0 ? "inc" : "static"), v));
        for (size_t j = 0; j < cs.size(); ++j) delete cs[j];
        for (size_t i = 0; i < n; ++i) delete byId[i];
    }
    return o;
}

static std::vector<int> iota(size_t n) { std::vector<int> v(n); for (size_t i = 0; i < n; ++i) v[i] = (int) i; return v; }

static void caseVpscTwice(long k, vh::Rng &r) {
    vh::beginCase(k, "vpsc-twice");
    VP p = genVP(r, true);
    printVP(p); fflush(stdout);
    Heap heap;
    long pa = Heap::probe();
    Out a; pushBorders(a);
    { Out t_ = solveVP(p, iota(p.d.size()), iota(p.cs.size())); a.insert(a.end(), t_.begin(), t_.end()); }
    pushBorders(a); a.back().first = "borders-after";
    std::rotate(a.begin(), a.begin() + 1, a.end());      // results first, then borders-after, borders (before the run)
    printOut("A", a); fflush(stdout);
    unrelatedWork(r, heap);
    long pb = Heap::probe();
    Out b; pushBorders(b);
    { Out t_ = solveVP(p, iota(p.d.size()), iota(p.cs.size())); b.insert(b.end(), t_.begin(), t_.end()); }
    pushBorders(b); b.back().first = "borders-after";
    std::rotate(b.begin(), b.begin() + 1, b.end());      // results first, then borders-after, borders (before the run)
    printOut("B", b);
    printf("heap %ld %ld\n", pa, pb);
    heap.release();
    vh::endCase();
}

static void caseVpscTranslate(long k, vh::Rng &r) {
    vh::beginCase(k, "vpsc-translate");
    VP p = genVP(r, true);
    double t = std::ldexp((double) r.range(-(1L << 16), 1L << 16), -10);
    if (r.coin(1, 4)) t = std::floor(t);
    printVP(p);
    printf("shift %s\n", H(t).c_str()); fflush(stdout);
    Out a = solveVP(p, iota(p.d.size()), iota(p.cs.size()));
    printOut("A", a); fflush(stdout);
    VP q = p; for (double &x : q.d) x += t;
    Out b = solveVP(q, iota(p.d.size()), iota(p.cs.size()));
    printOut("B", b);
    vh::endCase();
}

static void caseVpscPermute(long k, vh::Rng &r) {
    vh::beginCase(k, "vpsc-permute");
    VP p = genVP(r, true);
    printVP(p);
    std::vector<int> vo = iota(p.d.size()), co = iota(p.cs.size());
    r.shuffle(vo); r.shuffle(co);
    printf("vperm"); for (int x : vo) printf(" %d", x);
    printf("\ncperm"); for (int x : co) printf(" %d", x);
    printf("\n"); fflush(stdout);
    Out a = solveVP(p, iota(p.d.size()), iota(p.cs.size()));
    printOut("A", a); fflush(stdout);
    // B: variable i gets id vo[i] and sits at position vo[i]; constraints in order co; values are reported per ORIGINAL variable
    Out b = solveVP(p, vo, co);
    printOut("B", b);
    vh::endCase();
}

// ------------------------------------------------------------------------------------ removeoverlaps
struct RO { std::vector<R4> rs; std::set<unsigned> fixed; bool third = false; bool plain = true; };   // x0,y0,x1,y1 = minX,minY,maxX,maxY

static Out runRemoveOverlaps(const RO &in, const std::vector<int> &allocOrder) {
    size_t n = in.rs.size();
    vpsc::Rectangles rs(n, nullptr);
    for (size_t j = 0; j < n; ++j) {
        int i = allocOrder[j];
        rs[i] = new vpsc::Rectangle(in.rs[i].x0, in.rs[i].x1, in.rs[i].y0, in.rs[i].y1);
    }
    if (in.plain) vpsc::removeoverlaps(rs); else vpsc::removeoverlaps(rs, in.fixed, in.third);
    Vec v;
    for (size_t i = 0; i < n; ++i) { v.push_back(rs[i]->getMinX()); v.push_back(rs[i]->getMaxX()); v.push_back(rs[i]->getMinY()); v.push_back(rs[i]->getMaxY()); }
    for (size_t i = 0; i < n; ++i) delete rs[i];
    Out o; o.push_back(std::make_pair(std::string("rects"), v));
    return o;
}

static void caseRemoveOverlaps(long k, vh::Rng &r, bool coincident) {
    vh::beginCase(k, coincident ? "removeoverlaps-coincident" : "removeoverlaps-twice");
    RO in;
    int n = (int) r.range(2, coincident ? 8 : 14);
    if (!coincident) {
        // distinct centres in x AND y: x0+x1 and y0+y1 pairwise distinct (odd offsets in units of 2^-6)
        std::vector<long> off; for (long i = 0; i < 2 * n; ++i) off.push_back(i); r.shuffle(off);
        long span = 4 + n;
        for (int i = 0; i < n; ++i) {
            double x0 = (double) r.range(0, span) + std::ldexp((double) off[2 * i], -5);
            double y0 = (double) r.range(0, span) + std::ldexp((double) off[2 * i + 1], -5);
            double w = (double) (2 * r.range(1, 5)), h = (double) (2 * r.range(1, 5));     // even sizes: centre = x0 + w/2 has the distinct fractional part of x0
            in.rs.push_back(R4{x0, y0, x0 + w, y0 + h});
        }
    } else {
        // groups of rectangles sharing a centre (same or different sizes), plus a few others
        int groups = (int) r.range(1, 2);
        for (int g = 0; g < groups; ++g) {
            double cx = (double) r.range(0, 8), cy = (double) r.range(0, 8);
            int m = (int) r.range(2, 4);
            bool same = r.coin();
            double hw0 = (double) r.range(1, 4), hh0 = (double) r.range(1, 4);
            for (int i = 0; i < m; ++i) {
                double hw = same ? hw0 : (double) r.range(1, 4), hh = same ? hh0 : (double) r.range(1, 4);
                in.rs.push_back(R4{cx - hw, cy - hh, cx + hw, cy + hh});
            }
        }
        while ((int) in.rs.size() < n) {
            double x0 = (double) r.range(0, 10), y0 = (double) r.range(0, 10);
            in.rs.push_back(R4{x0, y0, x0 + (double) r.range(1, 5), y0 + (double) r.range(1, 5)});
        }
        n = (int) in.rs.size();
    }
    if (r.coin(1, 3)) {
        in.plain = false; in.third = r.coin();
        if (r.coin()) in.fixed.insert((unsigned) r.range(0, n - 1));
    }
    printf("n %d\n", n);
    for (const R4 &q : in.rs) printf("r %s %s %s %s\n", H(q.x0).c_str(), H(q.x1).c_str(), H(q.y0).c_str(), H(q.y1).c_str());
    printf("plain %d\nthird %d\nfixed", (int) in.plain, (int) in.third); for (unsigned f : in.fixed) printf(" %u", f);
    printf("\n");
    std::vector<int> orderB = iota((size_t) n); r.shuffle(orderB);
    printf("allocB"); for (int x : orderB) printf(" %d", x);
    printf("\n"); fflush(stdout);
    Heap heap;
    // run A: compact heap state for the Node size class: addresses of consecutive `new Node` ascend or descend monotonically
    long pa = Heap::probe();
    Out a; pushBorders(a);
    { Out t_ = runRemoveOverlaps(in, iota((size_t) n)); a.insert(a.end(), t_.begin(), t_.end()); }
    pushBorders(a); a.back().first = "borders-after";
    std::rotate(a.begin(), a.begin() + 1, a.end());      // results first, then borders-after, borders (before the run)
    printOut("A", a); fflush(stdout);
    unrelatedWork(r, heap);
    // force a random address order for the next allocations of every small size class
    static const size_t classes[] = {40, 48, 56, 64, 72, 80};
    for (size_t c = 0; c < sizeof classes / sizeof classes[0]; ++c) heap.scramble(r, classes[c], 3 * n + 8);
    long pb = Heap::probe();
    // the probe freed its 6 chunks in allocation order; scramble once more so that Node addresses are random again
    heap.scramble(r, 56, 3 * n + 8);
    Out b; pushBorders(b);
    { Out t_ = runRemoveOverlaps(in, orderB); b.insert(b.end(), t_.begin(), t_.end()); }
    pushBorders(b); b.back().first = "borders-after";
    std::rotate(b.begin(), b.begin() + 1, b.end());      // results first, then borders-after, borders (before the run)
    printOut("B", b);
    printf("heap %ld %ld\n", pa, pb);
    heap.release();
    vh::endCase();
}

// ------------------------------------------------------------------------------------ layout
struct LScene {
    std::vector<R4> rects;
    std::vector<cola::Edge> edges;
    double ideal = 10;
    struct Sep { int dim, l, r; double gap; bool eq; };
    std::vector<Sep> seps;
    bool overlaps = false;
    unsigned iters = 10;
};

static Out runLayout(const LScene &s) {
    vpsc::Rectangles rs;
    for (const R4 &q : s.rects) rs.push_back(new vpsc::Rectangle(q.x0, q.x1, q.y0, q.y1));
    cola::CompoundConstraints ccs;
    for (const LScene::Sep &c : s.seps)
        ccs.push_back(new cola::SeparationConstraint(c.dim == 0 ? vpsc::XDIM : vpsc::YDIM, (unsigned) c.l, (unsigned) c.r, c.gap, c.eq));
    cola::TestConvergence test(1e-4, s.iters);
    {
        cola::ConstrainedFDLayout alg(rs, s.edges, s.ideal, cola::StandardEdgeLengths, &test);
        alg.setConstraints(ccs);
        alg.setAvoidNodeOverlaps(s.overlaps);
        alg.run();
    }
    Vec v;
    for (size_t i = 0; i < rs.size(); ++i) { v.push_back(rs[i]->getCentreX()); v.push_back(rs[i]->getCentreY()); }
    for (auto *c : ccs) delete c;
    for (auto *q : rs) delete q;
    Out o; o.push_back(std::make_pair(std::string("centres"), v));
    return o;
}

static void caseLayoutTwice(long k, vh::Rng &r) {
    vh::beginCase(k, "layout-twice");
    LScene s;
    int n = (int) r.range(2, 9);
    // the first three layout cases of a run let wall-clock time pass between the two runs (> 1 s, so that a
    // time()-derived seed would differ) and start from coincident nodes (PseudoRandom is used to separate them)
    bool slow = (k / 12) < 3;
    bool stacked = slow || r.coin(1, 3);       // all nodes start at the same position: the layout separates them with its PseudoRandom
    for (int i = 0; i < n; ++i) {
        double x = stacked ? 5.0 : (double) r.range(0, 40), y = stacked ? 5.0 : (double) r.range(0, 40);
        double w = (double) r.range(2, 8), h = (double) r.range(2, 8);
        if (stacked) { x -= w / 2; y -= h / 2; }      // identical CENTRES
        s.rects.push_back(R4{x, y, x + w, y + h});
    }
    int m = (int) r.range(1, 2 * n);
    std::set<std::pair<unsigned, unsigned> > seen;
    for (int j = 0; j < m; ++j) {
        unsigned a = (unsigned) r.range(0, n - 1), b = (unsigned) r.range(0, n - 1);
        if (a == b) continue;
        if (a > b) std::swap(a, b);
        if (seen.insert(std::make_pair(a, b)).second) s.edges.push_back(std::make_pair(a, b));
    }
    s.ideal = (double) r.range(5, 30);
    int ns = (int) r.range(0, 3);
    for (int j = 0; j < ns; ++j) {
        int a = (int) r.range(0, n - 2), b = (int) r.range(a + 1, n - 1);
        s.seps.push_back(LScene::Sep{(int) r.range(0, 1), a, b, (double) r.range(0, 12), r.coin(1, 4)});
    }
    s.overlaps = r.coin();
    s.iters = (unsigned) r.range(1, 15);
    if (slow) { s.overlaps = false; s.seps.clear(); }     // nothing separates the coincident nodes before computeForces does (offsetDir)
    printf("n %d\n", n);
    for (const R4 &q : s.rects) printf("r %s %s %s %s\n", H(q.x0).c_str(), H(q.x1).c_str(), H(q.y0).c_str(), H(q.y1).c_str());
    for (auto &e : s.edges) printf("e %u %u\n", e.first, e.second);
    for (auto &c : s.seps) printf("sep %d %d %d %s %d\n", c.dim, c.l, c.r, H(c.gap).c_str(), (int) c.eq);
    printf("ideal %s\noverlaps %d\niters %u\nstacked %d\n", H(s.ideal).c_str(), (int) s.overlaps, s.iters, (int) stacked);
    fflush(stdout);
    Heap heap;
    long pa = Heap::probe();
    Out a; pushBorders(a);
    { Out t_ = runLayout(s); a.insert(a.end(), t_.begin(), t_.end()); }
    pushBorders(a); a.back().first = "borders-after";
    std::rotate(a.begin(), a.begin() + 1, a.end());      // results first, then borders-after, borders (before the run)
    printOut("A", a); fflush(stdout);
    unrelatedWork(r, heap);
    if (slow) usleep(1100000);
    long pb = Heap::probe();
    Out b; pushBorders(b);
    { Out t_ = runLayout(s); b.insert(b.end(), t_.begin(), t_.end()); }
    pushBorders(b); b.back().first = "borders-after";
    std::rotate(b.begin(), b.begin() + 1, b.end());      // results first, then borders-after, borders (before the run)
    printOut("B", b);
    printf("heap %ld %ld\n", pa, pb);
    heap.release();
    vh::endCase();
}


// ------------------------------------------------------------------------------------ comparators
// class `cmp`: the real comparators that order std::set / std::sort / list::sort / the pairing heap are called on
// keys with many ties; the driver evaluates the comparators GENERATED from the same source (Gen/Comparators.lean,
// proved strict weak orders in Props/C20Tie, C11Tie, C06Tie) on the same keys.  One line per comparison:
//   cmp pt  ax ay bx by r | cmp vid ao an bo bn r | cmp sp a1 a2 b1 b2 r
//   cmp pin aobj acls adirs ax ay ain bobj bcls bdirs bx by bin r
//   cmp act atype aid btype bid r            (types ShapeMove..ConnChange; id = id of the action's object)
//   cmp cc  abts ats asame aslack alid arid  bbts bts bsame bslack blid brid r
static void caseCmp(long k, vh::Rng &r) {
    vh::beginCase(k, "cmp");
    static const double vals[] = {0, 0.25, 0.5, 1, -1, 2.5, 1e9, -0.0};
    const int NV = 7;      // -0.0 only where the sign cannot matter to the order: never (== and < agree), so use it too
    auto dv = [&]() { return vals[r.range(0, NV)]; };
    // Point
    for (int i = 0; i < 24; ++i) {
        Avoid::Point a(dv(), dv()), b(dv(), dv());
        if (r.coin(1, 4)) b.x = a.x;
        if (r.coin(1, 8)) b.y = a.y;
        printf("cmp pt %s %s %s %s %d\n", H(a.x).c_str(), H(a.y).c_str(), H(b.x).c_str(), H(b.y).c_str(), (int) (a < b));
    }
    // VertID (props are not part of the order)
    for (int i = 0; i < 24; ++i) {
        Avoid::VertID a((unsigned) r.range(1, 4), (unsigned short) r.range(0, 5), (Avoid::VertIDProps) r.range(0, 3));
        Avoid::VertID b((unsigned) r.range(1, 4), (unsigned short) r.range(0, 5), (Avoid::VertIDProps) r.range(0, 3));
        printf("cmp vid %u %u %u %u %d\n", a.objID, (unsigned) a.vn, b.objID, (unsigned) b.vn, (int) (a < b));
    }
    // cola::ShapePair (constructor orders the two indices)
    for (int i = 0; i < 16; ++i) {
        unsigned a1 = (unsigned) r.range(0, 4), a2 = (unsigned) r.range(0, 4), b1 = (unsigned) r.range(0, 4), b2 = (unsigned) r.range(0, 4);
        if (a1 == a2) a2 = a1 + 1;
        if (b1 == b2) b2 = b1 + 1;
        cola::ShapePair a(a1, a2), b(b1, b2);
        printf("cmp sp %u %u %u %u %d\n", (unsigned) a.index1(), (unsigned) a.index2(), (unsigned) b.index1(), (unsigned) b.index2(), (int) (a < b));
    }
    // ShapeConnectionPin / ActionInfo: real router objects
    {
        Avoid::Router *router = new Avoid::Router(Avoid::OrthogonalRouting);
        struct PK { unsigned obj, cls, dirs; double x, y, in; Avoid::ShapeConnectionPin *pin; };
        std::vector<PK> pins;
        std::vector<Avoid::ShapeRef *> shapes;
        for (int s = 0; s < 2; ++s) {
            Avoid::Rectangle rect(Avoid::Point(100 * s, 0), Avoid::Point(100 * s + 40, 40));
            shapes.push_back(new Avoid::ShapeRef(router, rect, 10 + s));
        }
        static const double offs[] = {0, 0.25, 0.5, 1};
        for (int i = 0; i < 10; ++i) {
            PK p; int s = (int) r.range(0, 1);
            p.obj = 10 + s; p.cls = (unsigned) r.range(1, 2); p.dirs = (unsigned) (r.coin() ? 0 : r.range(1, 15));
            p.x = offs[r.range(0, 3)]; p.y = offs[r.range(0, 3)]; p.in = r.coin(3, 4) ? 0.0 : 2.0;
            bool dup = false;
            for (size_t j = 0; j < pins.size(); ++j)
                if (pins[j].obj == p.obj && pins[j].cls == p.cls && pins[j].dirs == p.dirs && pins[j].x == p.x && pins[j].y == p.y && pins[j].in == p.in) dup = true;
            if (dup) continue;
            p.pin = new Avoid::ShapeConnectionPin(shapes[s], p.cls, p.x, p.y, true, p.in, (Avoid::ConnDirFlags) p.dirs);
            pins.push_back(p);
        }
        for (size_t i = 0; i < pins.size(); ++i)
            for (size_t j = 0; j < pins.size(); ++j) {
                const PK &a = pins[i], &b = pins[j];
                printf("cmp pin %u %u %u %s %s %s %u %u %u %s %s %s %d\n", a.obj, a.cls, a.dirs, H(a.x).c_str(), H(a.y).c_str(), H(a.in).c_str(),
                       b.obj, b.cls, b.dirs, H(b.x).c_str(), H(b.y).c_str(), H(b.in).c_str(), (int) (*a.pin < *b.pin));
            }
        Avoid::JunctionRef *j1 = new Avoid::JunctionRef(router, Avoid::Point(300, 300), 20);
        Avoid::JunctionRef *j2 = new Avoid::JunctionRef(router, Avoid::Point(400, 300), 21);
        Avoid::ConnRef *c1 = new Avoid::ConnRef(router, Avoid::ConnEnd(Avoid::Point(500, 500)), Avoid::ConnEnd(Avoid::Point(600, 500)), 30);
        Avoid::ConnRef *c2 = new Avoid::ConnRef(router, Avoid::ConnEnd(Avoid::Point(500, 600)), Avoid::ConnEnd(Avoid::Point(600, 600)), 31);
        std::vector<std::pair<Avoid::ActionInfo, unsigned> > acts;
        for (int s = 0; s < 2; ++s) {
            acts.push_back(std::make_pair(Avoid::ActionInfo(Avoid::ShapeMove, shapes[s]), 10u + s));
            acts.push_back(std::make_pair(Avoid::ActionInfo(Avoid::ShapeAdd, shapes[s]), 10u + s));
            acts.push_back(std::make_pair(Avoid::ActionInfo(Avoid::ShapeRemove, shapes[s]), 10u + s));
        }
        Avoid::JunctionRef *js[2] = {j1, j2};
        for (int s = 0; s < 2; ++s) {
            acts.push_back(std::make_pair(Avoid::ActionInfo(Avoid::JunctionMove, js[s]), 20u + s));
            acts.push_back(std::make_pair(Avoid::ActionInfo(Avoid::JunctionAdd, js[s]), 20u + s));
            acts.push_back(std::make_pair(Avoid::ActionInfo(Avoid::JunctionRemove, js[s]), 20u + s));
        }
        acts.push_back(std::make_pair(Avoid::ActionInfo(Avoid::ConnChange, c1), 30u));
        acts.push_back(std::make_pair(Avoid::ActionInfo(Avoid::ConnChange, c2), 31u));
        for (size_t i = 0; i < acts.size(); ++i)
            for (size_t j = 0; j < acts.size(); ++j)
                printf("cmp act %d %u %d %u %d\n", (int) acts[i].first.type, acts[i].second, (int) acts[j].first.type, acts[j].second,
                       (int) (acts[i].first < acts[j].first));
        acts.clear();
        router->processTransaction();      // queued additions become members of the router, which then frees them
        delete router;
    }
    // vpsc::CompareConstraints on the constraints of a solved incremental problem (blocks merged, time stamps moved)
    {
        size_t n = (size_t) r.range(3, 6);
        std::vector<vpsc::Variable *> vs;
        for (size_t i = 0; i < n; ++i) vs.push_back(new vpsc::Variable((int) i, (double) r.range(-3, 3), 1.0));
        std::vector<vpsc::Constraint *> cs;
        for (size_t i = 0; i + 1 < n; ++i)
            for (size_t j = i + 1; j < n; ++j)
                if (r.coin(1, 2)) cs.push_back(new vpsc::Constraint(vs[i], vs[j], (double) r.range(0, 2)));
        if (!cs.empty()) {
            vpsc::IncSolver sv(vs, cs);
            if (r.coin()) sv.solve();
            vpsc::CompareConstraints cmp;
            for (size_t i = 0; i < cs.size(); ++i)
                for (size_t j = 0; j < cs.size(); ++j) {
                    vpsc::Constraint *a = cs[i], *b = cs[j];
                    printf("cmp cc %ld %ld %d %s %d %d %ld %ld %d %s %d %d %d\n",
                           a->left->block->timeStamp, a->timeStamp, (int) (a->left->block == a->right->block), H(a->slack()).c_str(), a->left->id, a->right->id,
                           b->left->block->timeStamp, b->timeStamp, (int) (b->left->block == b->right->block), H(b->slack()).c_str(), b->left->id, b->right->id,
                           (int) cmp(a, b));
                }
        }
        for (size_t j = 0; j < cs.size(); ++j) delete cs[j];
        for (size_t i = 0; i < n; ++i) delete vs[i];
    }
    vh::endCase();
}

// ------------------------------------------------------------------------------------ main
int main(int argc, char **argv) {
    vh::Args a = vh::parseArgs(argc, argv);
    bool thorough = a.tier == "thorough";
    g_big = thorough; g_twiceXStage = (a.mode == "twice-xstage"); g_twiceMultiPin = (a.mode == "twice-multipin");
    long rounds = (thorough ? 1200 : 250) * a.scale;
    if (a.n >= 0) rounds = a.n;
    const int NCLASS = 12;       // caseLayoutTwice relies on this (k / 12 = round)
    for (long k = 0; k < rounds * NCLASS; ++k) {
        if (!a.want(k)) continue;
        vh::Rng r = vh::caseRng(a.seed, (uint64_t) k);
        switch ((int) (k % NCLASS)) {
        case 0: caseRouteTwice(k, r, false); break;
        case 1: caseRouteTwice(k, r, true); break;
        case 2: caseVpscTwice(k, r); break;
        case 3: caseLayoutTwice(k, r); break;
        case 4: caseRemoveOverlaps(k, r, false); break;
        case 5: caseRemoveOverlaps(k, r, true); break;
        case 6: caseRouteTranslate(k, r); break;
        case 7: caseRouteSymmetry(k, r, false); break;
        case 8: caseRouteSymmetry(k, r, true); break;
        case 9: caseVpscTranslate(k, r); break;
        case 10: caseVpscPermute(k, r); break;
        default: caseRouteSymmetryDirs(k, r, (k / NCLASS) % 3 != 2); break;      // 2 strict : 1 arbitrary
        }
    }
    // class `cmp` (comparators vs the generated Lean comparators): its own index range after the 12 cycled classes
    long ncmp = (thorough ? 400 : 60) * a.scale;
    for (long j = 0; j < ncmp; ++j) {
        long k = rounds * NCLASS + j;
        if (!a.want(k)) continue;
        vh::Rng r = vh::caseRng(a.seed, (uint64_t) k);
        caseCmp(k, r);
    }
    // classes *-params (all routing parameters / options, degenerate alignments): own index range after `cmp`
    long nsym = (thorough ? 4000 : 1000) * a.scale, ntr = (thorough ? 1500 : 300) * a.scale;
    long ntw = (thorough ? 1200 : 300) * a.scale;
    for (long j = 0; j < nsym + ntr + ntw; ++j) {
        long k = rounds * NCLASS + ncmp + j;
        if (!a.want(k)) continue;
        vh::Rng r = vh::caseRng(a.seed, (uint64_t) k);
        if (j < nsym) caseRouteSymmetryParams(k, r); else if (j < nsym + ntr) caseRouteTranslateParams(k, r); else caseRouteTwiceParams(k, r);
    }
    return 0;
}
