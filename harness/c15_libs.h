// C15 helper: small LEGAL API lifecycles ("histories") of libvpsc, libcola, libtopology and
// libdialect, executed in-process under ASan+UBSan+LSan with assertions on.  Included by
// harness/c15.cpp (which owns the libavoid part, the CASE/END framing and the leak attribution).
//
// Line protocol inside a case (see the C15 section of DESIGN.md):
//   lib <name>                    once, first
//   op <free text>                BEFORE every API call / step (flushed), so that a sanitizer abort
//                                 leaves the failing op as the last line of the stream
//   exc <kind>                    a documented exception was caught; the history goes on to teardown
//   res <key> <int>               small result facts
//   own <what> <allocated> <freed>   objects the HARNESS owns and frees itself per the documented
//                                 ownership rules; allocated must equal freed
//
// Ownership rules relied on (citations in the per-class comments below).  Every random choice comes
// from the vh::Rng handed in.  Inputs known to trip a defect of the clean tree are kept out of the
// four main generators and are exposed as deterministic kf_<name>() functions at the end.
#ifndef VERIF_C15_LIBS_H
#define VERIF_C15_LIBS_H
#include "common.h"
#include <cstdarg>
#include <map>
#include <set>
#include <list>
#include <deque>
#include <memory>
#include <string>
#include <sstream>
#include <utility>
#include <valarray>
#include <exception>
#include <stdexcept>
#if defined(__SANITIZE_ADDRESS__)
#include <sanitizer/lsan_interface.h>
#define C15_LSAN_SCOPED_DISABLE __lsan::ScopedDisabler c15_lsan_scoped_disabler
#else
#define C15_LSAN_SCOPED_DISABLE do {} while (0)
#endif
#include "libvpsc/rectangle.h"
#include "libvpsc/variable.h"
#include "libvpsc/constraint.h"
#include "libvpsc/solve_VPSC.h"
#include "libvpsc/exceptions.h"
#include "libvpsc/assertions.h"
#include "libcola/cola.h"
#include "libcola/cluster.h"
#include "libcola/compound_constraints.h"
#include "libcola/exceptions.h"
#include "libtopology/topology_graph.h"
#include "libtopology/topology_constraints.h"
#include "libtopology/topology_log.h"
#include "libtopology/cola_topology_addon.h"
#include "libdialect/commontypes.h"
#include "libdialect/graphs.h"
#include "libdialect/io.h"
#include "libdialect/opts.h"
#include "libdialect/peeling.h"
#include "libdialect/trees.h"
#include "libdialect/hola.h"

namespace c15 {

void vpscHist(vh::Rng &rng, bool big);
void colaHist(vh::Rng &rng, bool big);
void topologyHist(vh::Rng &rng, bool big);
void dialectHist(vh::Rng &rng, bool big);

namespace detail {

inline void op(const char *fmt, ...) {
    char buf[1024];
    va_list ap; va_start(ap, fmt); vsnprintf(buf, sizeof buf, fmt, ap); va_end(ap);
    for (char *p = buf; *p; ++p) if (*p == '\n' || *p == '\r') *p = ' ';
    printf("op %s\n", buf);
    fflush(stdout);
}
inline void lib(const char *name) { printf("lib %s\n", name); fflush(stdout); }
inline void res(const char *key, long v) { printf("res %s %ld\n", key, v); }
inline void exc(const char *kind) { printf("exc %s\n", kind); fflush(stdout); }
inline void own(const char *what, long allocated, long freed) { printf("own %s %ld %ld\n", what, allocated, freed); }
inline std::string dstr(double d) { char b[64]; snprintf(b, sizeof b, "%.17g", d); return b; }
inline double q4(vh::Rng &r, long lo, long hi) { return (double) r.range(lo * 4, hi * 4) / 4.0; }

// Runs f; a C++ exception thrown by the library is caught, classified and printed as `exc <kind>`.
// Returns true iff f returned normally.  (The char* thrown by vpsc::IncSolver::satisfy points into a
// destroyed std::string, it is never dereferenced here.)
template <class F> inline bool guarded(F f) {
    try { f(); return true; }
    catch (vpsc::UnsatisfiableException &) { exc("vpsc::UnsatisfiableException"); }
    catch (vpsc::UnsatisfiedConstraint &) { exc("vpsc::UnsatisfiedConstraint"); }
    catch (cola::InvalidVariableIndexException &) { exc("cola::InvalidVariableIndexException"); }
    catch (cola::InvalidConstraint &) { exc("cola::InvalidConstraint"); }
    catch (vpsc::CriticalFailure &) { exc("vpsc::CriticalFailure"); }
    catch (char *) { exc("char*"); }
    catch (const char *) { exc("const-char*"); }
    catch (std::exception &e) { std::string s = std::string("std::exception:") + e.what();
        for (size_t i = 0; i < s.size(); ++i) if (s[i] == ' ' || s[i] == '\n') s[i] = '_';
        exc(s.c_str()); }
    return false;
}

// ============================================================================================
// 1. libvpsc
//
// Ownership (libvpsc/solve_VPSC.{h,cpp}, blocks.cpp, tests/cycle.cpp, tests/satisfy_inc.cpp):
//  * the caller allocates Variables and Constraints and deletes them itself after the solver is gone
//    (tests: `for_each(a.begin(),a.end(),delete_object()); for_each(c.begin(),c.end(),delete_object());`);
//    ~Solver frees only its Blocks (`delete bs`), ~Blocks frees every Block, ~Block its vars vector
//    and heaps; ~Constraint and ~Variable touch nothing else, so their relative order is free;
//  * Solver keeps REFERENCES to the caller's two vectors (`std::vector<Constraint*> const &cs`), so
//    the vectors outlive the solver, and a constraint handed to IncSolver::addConstraint is first
//    pushed onto that very vector (idiom of libcola/colafd.cpp:711-713; see kf_vpsc_addconstraint_oob
//    for what happens when only the documented call is made);
//  * IncSolver reports unsatisfiable systems (directed cycles of positive total gap, inconsistent
//    equality cycles) through Constraint::unsatisfiable ("Denote whether this constraint was
//    unsatisifable (once the VPSC instance has been solved or satisfied)", constraint.h) and goes on;
//    the static Solver handles inequality DAGs only ("the directed acyclic graph of constraints",
//    solve_VPSC.cpp) and throws UnsatisfiedConstraint otherwise (see kf_vpsc_static_cycle_leak);
//  * generateXConstraints/generateYConstraints append `new Constraint`s to the caller's vector; the
//    caller deletes them (rectangle.cpp: removeoverlaps itself does `for_each(cs..., delete_object())`);
//    Rectangles are the caller's throughout.
// ============================================================================================

struct VpscCounts { long va, vf, ca, cf, ra, rf; VpscCounts() : va(0), vf(0), ca(0), cf(0), ra(0), rf(0) {} };

inline void vpscTeardown(vh::Rng &rng, vpsc::Variables &vs, vpsc::Constraints &cs, VpscCounts &n) {
    bool varsFirst = rng.coin();
    op("delete %s then %s", varsFirst ? "variables" : "constraints", varsFirst ? "constraints" : "variables");
    for (int pass = 0; pass < 2; ++pass) {
        if ((pass == 0) == varsFirst) { for (size_t i = 0; i < vs.size(); ++i) { delete vs[i]; ++n.vf; } vs.clear(); }
        else { for (size_t j = 0; j < cs.size(); ++j) { delete cs[j]; ++n.cf; } cs.clear(); }
    }
}

inline void vpscReport(const vpsc::Constraints &cs) {
    long uns = 0, act = 0;
    for (size_t j = 0; j < cs.size(); ++j) { if (cs[j]->unsatisfiable) ++uns; if (cs[j]->active) ++act; }
    res("unsatisfiable", uns);
    res("active", act);
}

// IncSolver history: problem with planted infeasibilities, ops satisfy/solve/move/reweight/addConstraint
inline void vpscIncHistory(vh::Rng &rng, bool big) {
    VpscCounts n;
    int nv = (int) rng.range(2, big ? 9 : 6);
    bool scaled = rng.coin(1, 6);
    vpsc::Variables vs;
    vpsc::Constraints cs;
    static const double wts[] = {1, 1, 1, 2, 0.5, 10, 1000};
    static const double scs[] = {1, 2, 0.5, 4};
    for (int i = 0; i < nv; ++i) {
        double des = q4(rng, -10, 10), w = wts[rng.range(0, 6)], sc = scaled ? scs[rng.range(0, 3)] : 1.0;
        op("new Variable %d des=%s w=%s scale=%s", i, dstr(des).c_str(), dstr(w).c_str(), dstr(sc).c_str());
        vs.push_back(new vpsc::Variable(i, des, w, sc)); ++n.va;
    }
    // the pool of constraints: the first m0 go to the constructor, the rest arrive by addConstraint
    struct PC { int l, r; double gap; bool eq; };
    std::vector<PC> pool;
    int m = (int) rng.range(0, big ? 12 : 7);
    for (int j = 0; j < m; ++j) {
        PC c; c.l = (int) rng.range(0, nv - 1); c.r = (int) rng.range(0, nv - 2); if (c.r >= c.l) ++c.r;
        c.gap = q4(rng, -2, 6); c.eq = rng.coin(1, 5);
        pool.push_back(c);
    }
    int plant = (int) rng.range(0, 5);
    if (plant == 0) {                       // contradictory inequalities a+g<=b, b+g<=a (tests/cycle.cpp)
        PC c; c.l = 0; c.r = 1; c.gap = (double) rng.range(1, 4); c.eq = false; pool.push_back(c);
        std::swap(c.l, c.r); pool.push_back(c);
    } else if (plant == 1 && nv >= 3) {     // equality cycle, consistent or not
        double g1 = q4(rng, 0, 4), g2 = q4(rng, 0, 4), g3 = rng.coin() ? g1 + g2 : g1 + g2 + (double) rng.range(1, 3);
        PC a = {0, 1, g1, true}, b = {1, 2, g2, true}, c = {0, 2, g3, true};
        pool.push_back(a); pool.push_back(b); pool.push_back(c);
    } else if (plant == 2 && nv >= 3) {     // directed inequality 3-cycle with positive total gap
        PC a = {0, 1, 1, false}, b = {1, 2, 1, false}, c = {2, 0, (double) rng.range(-1, 2), false};
        pool.push_back(a); pool.push_back(b); pool.push_back(c);
    } else if (plant == 3) {                // equality against an opposing inequality
        PC a = {0, 1, 2, true}, b = {1, 0, (double) rng.range(-3, 1), false};
        pool.push_back(a); pool.push_back(b);
    }
    rng.shuffle(pool);
    size_t m0 = (size_t) rng.range(0, (long) pool.size());
    for (size_t j = 0; j < m0; ++j) {
        op("new Constraint %zu: v%d + %s %s v%d", j, pool[j].l, dstr(pool[j].gap).c_str(), pool[j].eq ? "==" : "<=", pool[j].r);
        cs.push_back(new vpsc::Constraint(vs[pool[j].l], vs[pool[j].r], pool[j].gap, pool[j].eq)); ++n.ca;
    }
    op("new IncSolver nvars=%d ncons=%zu", nv, m0);
    vpsc::IncSolver *solver = new vpsc::IncSolver(vs, cs);
    size_t next = m0;
    int nops = (int) rng.range(2, big ? 12 : 7);
    bool alive = true;
    long solves = 0;
    for (int t = 0; t < nops && alive; ++t) {
        int k = (int) rng.range(0, 9);
        if (k <= 2 && next < pool.size()) {
            const PC &p = pool[next];
            op("new Constraint %zu: v%d + %s %s v%d; cs.push_back; IncSolver::addConstraint", next, p.l, dstr(p.gap).c_str(), p.eq ? "==" : "<=", p.r);
            vpsc::Constraint *c = new vpsc::Constraint(vs[p.l], vs[p.r], p.gap, p.eq); ++n.ca;
            cs.push_back(c);
            solver->addConstraint(c);
            ++next;
        } else if (k <= 4) {
            int i = (int) rng.range(0, nv - 1); double d = q4(rng, -12, 12);
            op("set desiredPosition v%d = %s", i, dstr(d).c_str());
            vs[i]->desiredPosition = d;
            if (rng.coin(1, 4)) { double w = wts[rng.range(0, 6)]; op("set weight v%d = %s", i, dstr(w).c_str()); vs[i]->weight = w; }
        } else if (k <= 6) {
            op("IncSolver::satisfy");
            alive = guarded([&]() { solver->satisfy(); }); ++solves;
        } else {
            op("IncSolver::solve");
            alive = guarded([&]() { solver->solve(); }); ++solves;
        }
    }
    if (alive) { op("IncSolver::solve (final)"); alive = guarded([&]() { solver->solve(); }); ++solves; }
    vpscReport(cs);
    res("solves", solves);
    op("delete IncSolver");
    delete solver;
    vpscTeardown(rng, vs, cs, n);
    own("vpsc::Variable", n.va, n.vf);
    own("vpsc::Constraint", n.ca, n.cf);
}

// static Solver: inequality DAG, unit scales; satisfy() or solve(), then destroy
inline void vpscStaticHistory(vh::Rng &rng, bool big) {
    VpscCounts n;
    int nv = (int) rng.range(1, big ? 9 : 6);
    vpsc::Variables vs;
    vpsc::Constraints cs;
    static const double wts[] = {1, 1, 1, 2, 0.5, 10};
    std::vector<int> rank;
    for (int i = 0; i < nv; ++i) rank.push_back(i);
    rng.shuffle(rank);
    for (int i = 0; i < nv; ++i) {
        double des = q4(rng, -10, 10), w = wts[rng.range(0, 5)];
        op("new Variable %d des=%s w=%s", i, dstr(des).c_str(), dstr(w).c_str());
        vs.push_back(new vpsc::Variable(i, des, w)); ++n.va;
    }
    int m = nv >= 2 ? (int) rng.range(0, big ? 12 : 7) : 0;
    for (int j = 0; j < m; ++j) {
        int a = (int) rng.range(0, nv - 1), b = (int) rng.range(0, nv - 2); if (b >= a) ++b;
        if (rank[a] > rank[b]) std::swap(a, b);                 // edges follow a hidden order: acyclic
        double gap = q4(rng, -2, 6);
        op("new Constraint %d: v%d + %s <= v%d", j, a, dstr(gap).c_str(), b);
        cs.push_back(new vpsc::Constraint(vs[a], vs[b], gap)); ++n.ca;
    }
    {
        op("Solver on stack nvars=%d ncons=%d", nv, m);
        vpsc::Solver solver(vs, cs);
        bool useSolve = rng.coin(2, 3);
        op(useSolve ? "Solver::solve" : "Solver::satisfy");
        bool ok = guarded([&]() { if (useSolve) solver.solve(); else solver.satisfy(); });
        if (ok) { op("Solver::getVariables"); res("nvars", (long) solver.getVariables().size()); }
        vpscReport(cs);
        op("~Solver (scope end)");
    }
    vpscTeardown(rng, vs, cs, n);
    own("vpsc::Variable", n.va, n.vf);
    own("vpsc::Constraint", n.ca, n.cf);
}

inline void makeRects(vh::Rng &rng, int nr, vpsc::Rectangles &rs, long field, long maxSize) {
    for (int i = 0; i < nr; ++i) {
        double x = (double) rng.range(0, field), y = (double) rng.range(0, field);
        double w = (double) rng.range(1, maxSize), h = (double) rng.range(1, maxSize);
        if (rng.coin(1, 4)) { x += 0.5; y += 0.25; }
        op("new Rectangle %d [%s,%s]x[%s,%s]", i, dstr(x).c_str(), dstr(x + w).c_str(), dstr(y).c_str(), dstr(y + h).c_str());
        rs.push_back(new vpsc::Rectangle(x, x + w, y, y + h));
    }
}

// rectangles: removeoverlaps() or the manual generateXConstraints / generateYConstraints + solver passes
inline void vpscRectHistory(vh::Rng &rng, bool big) {
    VpscCounts n;
    int nr = (int) rng.range(1, big ? 9 : 6);
    vpsc::Rectangles rs;
    makeRects(rng, nr, rs, rng.coin() ? 6 : 20, 10);
    n.ra = nr;
    int mode = (int) rng.range(0, 3);
    if (mode == 0) {
        op("removeoverlaps(rs)");
        guarded([&]() { vpsc::removeoverlaps(rs); });
    } else if (mode == 1) {
        std::set<unsigned> fixed;
        if (rng.coin()) fixed.insert((unsigned) rng.range(0, nr - 1));
        bool third = rng.coin();
        op("removeoverlaps(rs, fixed(%zu), thirdPass=%d)", fixed.size(), (int) third);
        guarded([&]() { vpsc::removeoverlaps(rs, fixed, third); });
    } else {
        vpsc::Variables vs;
        for (int i = 0; i < nr; ++i) { vs.push_back(new vpsc::Variable(i, 0, 1)); ++n.va; }
        op("new Variable x%d (id, 0, 1)", nr);
        bool inc = rng.coin();
        for (int pass = 0; pass < 2; ++pass) {
            vpsc::Constraints cs;
            bool ok;
            if (pass == 0) {
                bool nl = rng.coin();
                op("generateXConstraints(useNeighbourLists=%d)", (int) nl);
                ok = guarded([&]() { vpsc::generateXConstraints(rs, vs, cs, nl); });
            } else {
                op("generateYConstraints");
                ok = guarded([&]() { vpsc::generateYConstraints(rs, vs, cs); });
            }
            n.ca += (long) cs.size();
            res(pass == 0 ? "xconstraints" : "yconstraints", (long) cs.size());
            if (ok) {
                op("%s(vs, cs) on stack; solve; ~%s", inc ? "IncSolver" : "Solver", inc ? "IncSolver" : "Solver");
                ok = guarded([&]() {
                    if (inc) { vpsc::IncSolver s(vs, cs); s.solve(); }
                    else { vpsc::Solver s(vs, cs); s.solve(); }
                });
            }
            if (ok) {
                op("Rectangle::moveCentre%c to finalPosition", pass == 0 ? 'X' : 'Y');
                for (int i = 0; i < nr; ++i) { if (pass == 0) rs[i]->moveCentreX(vs[i]->finalPosition); else rs[i]->moveCentreY(vs[i]->finalPosition); }
            }
            op("delete generated constraints");
            for (size_t j = 0; j < cs.size(); ++j) { delete cs[j]; ++n.cf; }
        }
        op("delete variables");
        for (size_t i = 0; i < vs.size(); ++i) { delete vs[i]; ++n.vf; }
        own("vpsc::Variable", n.va, n.vf);
        own("vpsc::Constraint", n.ca, n.cf);
    }
    if (mode <= 1) {        // "Useful for assertions": it asserts; the manual passes (no EXTRA_GAP border) may leave rounding-size overlaps
        op("noRectangleOverlaps");
        res("nooverlaps", (long) vpsc::noRectangleOverlaps(rs));
    }
    op("delete rectangles");
    for (size_t i = 0; i < rs.size(); ++i) { delete rs[i]; ++n.rf; }
    own("vpsc::Rectangle", n.ra, n.rf);
}

// ============================================================================================
// 2. libcola
//
// Ownership (libcola/cola.h, colafd.cpp, cluster.cpp, tests/):
//  * ConstrainedFDLayout / ConstrainedMajorizationLayout BORROW the rectangles, the compound
//    constraints, the cluster hierarchy, the TestConvergence / PreIteration objects, the
//    DesiredPositions and the UnsatisfiableConstraintInfos vectors: ~ConstrainedFDLayout frees only
//    its own matrices, its default `done`, its clone of the topology addon and the exemption table
//    (colafd.cpp:898-914); tests/constrained.cpp, unsatisfiable.cpp, ... delete rs[] themselves.
//  * ...unless ConstrainedFDLayout::freeAssociatedObjects() is called: "This assumes that the
//    ConstrainedFDLayout instance takes ownership of all the objects passed to it" (cola.h) -- it
//    deletes the Rectangles, the CompoundConstraints and the cluster hierarchy handed over with
//    setClusterHierarchy (colafd.cpp:916-942; tests/overlappingClusters02.cpp).  The harness then
//    deletes none of them.
//  * Cluster::~Cluster deletes its child clusters (cluster.cpp:48-52): deleting the RootCluster frees
//    the whole hierarchy; child clusters are heap objects (tests/overlappingClusters02.cpp).
//  * UnsatisfiableConstraintInfo objects are `new`ed by the layout into the caller's vectors
//    (colafd.cpp:1042-1049) and nothing in the library deletes them: the caller does.
//  * ConstrainedFDLayout::getTopology() returns a clone (colafd.cpp:951) that the caller deletes.
//  * ConstrainedMajorizationLayout::setConstraints takes a POINTER to the caller's vector, which
//    must outlive the layout.
// Legal-use restrictions honoured: DistributionConstraint::setSeparation is always called (`sep` is
// not initialised by the constructor); separation / multi-separation / distribution constraints only
// refer to AlignmentConstraints of the same dimension that are themselves in the list; node indices
// < rs.size(); page xLow<xHigh, yLow<yHigh; CML never gets UnsatisfiableConstraintInfos (see
// kf_cola_cml_unsatinfo_leak).
// ============================================================================================

struct ColaScene {
    vpsc::Rectangles rs;
    std::vector<cola::Edge> es;
    cola::EdgeLengths el;
    double ideal;
    cola::CompoundConstraints ccs;
    std::vector<cola::AlignmentConstraint *> al[2];
    cola::RootCluster *root;
    std::set<cola::CompoundConstraint *> refsAlignments;    // ccs whose toString() reads AlignmentConstraint::variable
    long rectsAlloc, ccsAlloc, clustersAlloc;
    bool planted;
    // sat mode: every constraint is derived from a hidden overlap-free placement h, so the whole system is
    // jointly satisfiable (also together with non-overlap); required before makeFeasible() is used
    bool sat;
    std::vector<double> h[2];
    ColaScene() : ideal(30), root(nullptr), rectsAlloc(0), ccsAlloc(0), clustersAlloc(0), planted(false), sat(false) {}
};

inline void colaGenGraph(vh::Rng &rng, ColaScene &s, unsigned n) {
    int kind = (int) rng.range(0, 4);
    if (kind == 0) { op("edges: none (constraint satisfaction only)"); }
    else {
        unsigned first = (kind == 1 && n > 3) ? 2 : 1;          // kind 1: node 0 isolated (disconnected graph)
        for (unsigned i = first; i < n; ++i) s.es.push_back(std::make_pair((unsigned) rng.range(first - 1, i - 1), i));
        if (kind >= 3) for (unsigned k = 0; k < n / 2; ++k) {
            unsigned u = (unsigned) rng.range(0, n - 1), v = (unsigned) rng.range(0, n - 1);
            if (u != v) s.es.push_back(std::make_pair(u, v));
        }
        std::string t;
        for (size_t i = 0; i < s.es.size(); ++i) { char b[32]; snprintf(b, sizeof b, " %u-%u", s.es[i].first, s.es[i].second); t += b; }
        op("edges:%s", t.c_str());
    }
    if (!s.es.empty() && rng.coin(1, 3)) {
        static const double ls[] = {0.5, 1, 1, 2};
        for (size_t i = 0; i < s.es.size(); ++i) s.el.push_back(ls[rng.range(0, 3)]);
        op("eLengths: %zu individual lengths", s.el.size());
    }
    static const double ideals[] = {10, 30, 50};
    s.ideal = ideals[rng.range(0, 2)];
}

inline void colaGenRects(vh::Rng &rng, ColaScene &s, unsigned n) {
    int kind = (int) rng.range(0, 2);       // spread / clump / coincident
    double cx0 = q4(rng, -40, 40), cy0 = q4(rng, -40, 40);
    for (unsigned i = 0; i < n; ++i) {
        double w = (double) rng.range(2, 15) * 2, h = (double) rng.range(2, 15) * 2, cx, cy;
        if (kind == 0) { cx = q4(rng, -80, 80); cy = q4(rng, -80, 80); }
        else if (kind == 1) { cx = cx0 + q4(rng, -10, 10); cy = cy0 + q4(rng, -10, 10); }
        else { cx = cx0; cy = cy0; }
        op("new Rectangle %u centre=(%s,%s) w=%s h=%s", i, dstr(cx).c_str(), dstr(cy).c_str(), dstr(w).c_str(), dstr(h).c_str());
        s.rs.push_back(new vpsc::Rectangle(cx - w / 2, cx + w / 2, cy - h / 2, cy + h / 2));
        ++s.rectsAlloc;
    }
}

inline void colaGenHidden(vh::Rng &rng, ColaScene &s, unsigned n) {
    unsigned side = 1; while (side * side < n) ++side;
    side += (unsigned) rng.range(0, 1);
    std::vector<unsigned> cells; for (unsigned i = 0; i < side * side; ++i) cells.push_back(i);
    rng.shuffle(cells);
    for (unsigned i = 0; i < n; ++i) { s.h[0].push_back((double) (cells[i] % side) * 40.0 - 60.0); s.h[1].push_back((double) (cells[i] / side) * 40.0 - 60.0); }
    s.sat = true;
}

inline std::vector<unsigned> colaSubset(vh::Rng &rng, unsigned n, unsigned k) {
    std::vector<unsigned> all; for (unsigned i = 0; i < n; ++i) all.push_back(i);
    rng.shuffle(all); if (k < all.size()) all.resize(k); return all;
}

inline cola::AlignmentConstraint *colaNewAlignment(vh::Rng &rng, ColaScene &s, int d, unsigned n, bool usePos = false, double atPos = 0) {
    double pos = usePos ? atPos : q4(rng, -50, 50);
    cola::AlignmentConstraint *a = new cola::AlignmentConstraint((vpsc::Dim) d, pos);
    std::vector<unsigned> nodes = colaSubset(rng, n, (unsigned) rng.range(1, std::min(n, 3u)));
    std::string t;
    for (size_t i = 0; i < nodes.size(); ++i) {
        double off = rng.coin(2, 3) ? 0.0 : q4(rng, -10, 10);
        if (s.sat) off = s.h[d][nodes[i]] - pos;
        a->addShape(nodes[i], off);
        char b[64]; snprintf(b, sizeof b, " %u@%s", nodes[i], dstr(off).c_str()); t += b;
    }
    bool fix = rng.coin(1, 6);
    if (fix) a->fixPos(pos);
    op("new AlignmentConstraint cc%zu dim=%d pos=%s fixed=%d shapes:%s", s.ccs.size(), d, dstr(pos).c_str(), (int) fix, t.c_str());
    s.ccs.push_back(a); s.al[d].push_back(a); ++s.ccsAlloc;
    return a;
}

inline void colaGenConstraints(vh::Rng &rng, ColaScene &s, unsigned n, int count, bool allowFixedRel) {
    for (int k = 0; k < count; ++k) {
        int d = (int) rng.range(0, 1);
        int t = (int) rng.range(0, 9);
        if (n < 2 && (t <= 1 || t == 7)) t = 2;
        switch (t) {
        case 0: case 1: {
            unsigned a = (unsigned) rng.range(0, n - 1), b = (unsigned) rng.range(0, n - 2); if (b >= a) ++b;
            double gap = q4(rng, -5, 30); bool eq = rng.coin(1, 4);
            if (s.sat) {
                if (s.h[d][a] > s.h[d][b]) std::swap(a, b);
                double diff = s.h[d][b] - s.h[d][a];
                gap = eq ? diff : (rng.coin() ? diff / 2 : std::min(gap, diff));
            }
            op("new SeparationConstraint cc%zu dim=%d n%u + %s %s n%u", s.ccs.size(), d, a, dstr(gap).c_str(), eq ? "==" : "<=", b);
            s.ccs.push_back(new cola::SeparationConstraint((vpsc::Dim) d, a, b, gap, eq)); ++s.ccsAlloc;
            break; }
        case 2: case 3: colaNewAlignment(rng, s, d, n); break;
        case 4: {
            cola::BoundaryConstraint *b = new cola::BoundaryConstraint((vpsc::Dim) d);
            double bpos = (double) rng.range(-2, 2) * 40.0 - 40.0 + 20.0;       // between two hidden grid lines
            std::vector<unsigned> nodes = colaSubset(rng, n, (unsigned) rng.range(1, std::min(n, 4u)));
            std::string txt;
            for (size_t i = 0; i < nodes.size(); ++i) {
                double off = (rng.coin() ? 1 : -1) * q4(rng, 1, 20);
                if (s.sat) { off = s.h[d][nodes[i]] - bpos; if (off == 0) off = 0.25; }
                b->addShape(nodes[i], off);
                char bb[64]; snprintf(bb, sizeof bb, " %u@%s", nodes[i], dstr(off).c_str()); txt += bb;
            }
            op("new BoundaryConstraint cc%zu dim=%d shapes:%s", s.ccs.size(), d, txt.c_str());
            s.ccs.push_back(b); ++s.ccsAlloc;
            break; }
        case 5: {
            double p1 = q4(rng, -50, 50), p2 = p1 + q4(rng, 0, 60);
            cola::AlignmentConstraint *a1 = colaNewAlignment(rng, s, d, n, s.sat, p1), *a2 = colaNewAlignment(rng, s, d, n, s.sat, p2);
            double gap = q4(rng, 0, 40); bool eq = rng.coin(1, 3);
            if (s.sat) gap = eq ? p2 - p1 : (p2 - p1) / 2;
            op("new SeparationConstraint cc%zu dim=%d between the two alignments gap=%s eq=%d", s.ccs.size(), d, dstr(gap).c_str(), (int) eq);
            s.ccs.push_back(new cola::SeparationConstraint((vpsc::Dim) d, a1, a2, gap, eq)); ++s.ccsAlloc;
            s.refsAlignments.insert(s.ccs.back());
            break; }
        case 6: {
            unsigned m = (unsigned) rng.range(2, 3);
            std::vector<cola::AlignmentConstraint *> chain;
            double sep = q4(rng, 5, 40), p0 = q4(rng, -50, 50);
            for (unsigned j = 0; j < m; ++j) chain.push_back(colaNewAlignment(rng, s, d, n, s.sat, p0 + sep * j));
            bool dist = rng.coin();
            if (dist) {
                cola::DistributionConstraint *dc = new cola::DistributionConstraint((vpsc::Dim) d);
                dc->setSeparation(sep);
                for (unsigned j = 0; j + 1 < m; ++j) dc->addAlignmentPair(chain[j], chain[j + 1]);
                op("new DistributionConstraint cc%zu dim=%d sep=%s over %u alignments", s.ccs.size(), d, dstr(sep).c_str(), m);
                s.ccs.push_back(dc);
            } else {
                bool eq = rng.coin(1, 3);
                cola::MultiSeparationConstraint *mc = new cola::MultiSeparationConstraint((vpsc::Dim) d, sep, eq);
                for (unsigned j = 0; j + 1 < m; ++j) mc->addAlignmentPair(chain[j], chain[j + 1]);
                op("new MultiSeparationConstraint cc%zu dim=%d sep=%s eq=%d over %u alignments", s.ccs.size(), d, dstr(sep).c_str(), (int) eq, m);
                s.ccs.push_back(mc);
            }
            ++s.ccsAlloc;
            s.refsAlignments.insert(s.ccs.back());
            break; }
        case 7: {
            if (!allowFixedRel) break;
            std::vector<unsigned> ids = colaSubset(rng, n, (unsigned) rng.range(2, std::min(n, 3u)));
            bool fixedPos = rng.coin(1, 3);
            if (s.sat) {        // the constraint captures the CURRENT relative positions: put the group on the hidden placement first
                double sx = q4(rng, -20, 20), sy = q4(rng, -20, 20);
                for (size_t i = 0; i < ids.size(); ++i) s.rs[ids[i]]->moveCentre(s.h[0][ids[i]] + sx, s.h[1][ids[i]] + sy);
                op("Rectangle::moveCentre of the group to its hidden placement + (%s,%s)", dstr(sx).c_str(), dstr(sy).c_str());
            }
            op("new FixedRelativeConstraint cc%zu ids=%u,%u%s fixedPosition=%d", s.ccs.size(), ids[0], ids[1], ids.size() > 2 ? ",.." : "", (int) fixedPos);
            s.ccs.push_back(new cola::FixedRelativeConstraint(s.rs, ids, fixedPos)); ++s.ccsAlloc;
            break; }
        case 8: {
            double xl = q4(rng, -120, -20), xh = q4(rng, 20, 120), yl = q4(rng, -120, -20), yh = q4(rng, 20, 120);
            if (s.sat) { xl -= 100; yl -= 100; xh += 150; yh += 150; }
            cola::PageBoundaryConstraints *p = new cola::PageBoundaryConstraints(xl, xh, yl, yh, rng.coin() ? 100.0 : 10.0);
            std::vector<unsigned> nodes = colaSubset(rng, n, (unsigned) rng.range(1, n));
            for (size_t i = 0; i < nodes.size(); ++i) p->addShape(nodes[i], s.rs[nodes[i]]->width() / 2, s.rs[nodes[i]]->height() / 2);
            op("new PageBoundaryConstraints cc%zu [%s,%s]x[%s,%s] %zu shapes", s.ccs.size(), dstr(xl).c_str(), dstr(xh).c_str(), dstr(yl).c_str(), dstr(yh).c_str(), nodes.size());
            s.ccs.push_back(p); ++s.ccsAlloc;
            break; }
        default: {      // planted unsatisfiable pair (tests/unsatisfiable.cpp: alignment + separation on the same nodes; or a 2-cycle)
            if (n < 2 || s.sat) break;
            unsigned a = (unsigned) rng.range(0, n - 1), b = (unsigned) rng.range(0, n - 2); if (b >= a) ++b;
            s.planted = true;
            if (rng.coin()) {
                cola::AlignmentConstraint *ac = new cola::AlignmentConstraint((vpsc::Dim) d, 1);
                ac->addShape(a, 0); ac->addShape(b, 0);
                op("new AlignmentConstraint cc%zu dim=%d n%u,n%u + new SeparationConstraint cc%zu n%u+10<=n%u (unsatisfiable together)", s.ccs.size(), d, a, b, s.ccs.size() + 1, a, b);
                s.ccs.push_back(ac); s.al[d].push_back(ac); ++s.ccsAlloc;
                s.ccs.push_back(new cola::SeparationConstraint((vpsc::Dim) d, a, b, 10)); ++s.ccsAlloc;
            } else {
                op("new SeparationConstraint cc%zu n%u+10<=n%u and cc%zu n%u+10<=n%u dim=%d (unsatisfiable together)", s.ccs.size(), a, b, s.ccs.size() + 1, b, a, d);
                s.ccs.push_back(new cola::SeparationConstraint((vpsc::Dim) d, a, b, 10)); ++s.ccsAlloc;
                s.ccs.push_back(new cola::SeparationConstraint((vpsc::Dim) d, b, a, 10)); ++s.ccsAlloc;
            }
            break; }
        }
    }
}

// RootCluster with up to two child clusters over disjoint node sets, optionally one nested level
inline void colaGenClusters(vh::Rng &rng, ColaScene &s, unsigned n, bool allowConvex) {
    s.root = new cola::RootCluster(); ++s.clustersAlloc;
    op("new RootCluster");
    std::vector<unsigned> perm = colaSubset(rng, n, n);
    unsigned used = 0;
    int nc = (int) rng.range(1, 2);
    for (int c = 0; c < nc && used < n; ++c) {
        unsigned take = (unsigned) rng.range(1, std::max(1u, (n - used) / 2 + 0u));
        if (take > n - used) take = n - used;
        bool convex = allowConvex && rng.coin(1, 3);
        cola::Cluster *cl;
        if (convex) { cl = new cola::ConvexCluster(); }
        else {
            cola::RectangularCluster *rc = new cola::RectangularCluster();
            if (rng.coin()) rc->setPadding((double) rng.range(0, 6));
            if (rng.coin(1, 3)) rc->setMargin((double) rng.range(0, 6));
            cl = rc;
        }
        ++s.clustersAlloc;
        std::string t;
        for (unsigned i = 0; i < take; ++i) { cl->addChildNode(perm[used + i]); char b[16]; snprintf(b, sizeof b, " %u", perm[used + i]); t += b; }
        used += take;
        op("new %s nodes:%s; root->addChildCluster", convex ? "ConvexCluster" : "RectangularCluster", t.c_str());
        if (!convex && used < n && rng.coin(1, 3)) {
            cola::RectangularCluster *in = new cola::RectangularCluster(); ++s.clustersAlloc;
            in->addChildNode(perm[used]);
            op("new RectangularCluster (nested) node %u; addChildCluster", perm[used]);
            ++used;
            cl->addChildCluster(in);
        }
        s.root->addChildCluster(cl);
    }
    if (rng.coin(1, 3)) for (; used < n; ++used) { s.root->addChildNode(perm[used]); }
}

struct ColaLocksPre : public cola::PreIteration {
    cola::Locks lk; cola::Resizes rz;
    ColaLocksPre() : cola::PreIteration(lk, rz) {}
    bool operator()() { changed = true; return true; }
};

inline void colaFreeInfos(cola::UnsatisfiableConstraintInfos &ux, cola::UnsatisfiableConstraintInfos &uy) {
    long a = (long) (ux.size() + uy.size()), f = 0;
    res("unsatisfiable_x", (long) ux.size());
    res("unsatisfiable_y", (long) uy.size());
    op("delete UnsatisfiableConstraintInfos");
    for (size_t i = 0; i < ux.size(); ++i) { delete ux[i]; ++f; }
    for (size_t i = 0; i < uy.size(); ++i) { delete uy[i]; ++f; }
    ux.clear(); uy.clear();
    own("cola::UnsatisfiableConstraintInfo", a, f);
}

inline void colaManualTeardown(ColaScene &s) {
    long cf = 0, rf = 0, kf = 0;
    op("delete compound constraints (caller-owned)");
    for (size_t i = 0; i < s.ccs.size(); ++i) { delete s.ccs[i]; ++cf; }
    if (s.root) { op("delete RootCluster (frees child clusters)"); delete s.root; kf = s.clustersAlloc; s.root = nullptr; }
    op("delete rectangles (caller-owned)");
    for (size_t i = 0; i < s.rs.size(); ++i) { delete s.rs[i]; ++rf; }
    own("cola::CompoundConstraint", s.ccsAlloc, cf);
    own("cola::Cluster", s.clustersAlloc, kf);
    own("vpsc::Rectangle", s.rectsAlloc, rf);
}

inline void colaFdHistory(vh::Rng &rng, bool big) {
    ColaScene s;
    unsigned n = (unsigned) rng.range(3, big ? 10 : 8);
    colaGenGraph(rng, s, n);
    colaGenRects(rng, s, n);
    // makeFeasible() can loop forever inside vpsc::IncSolver::satisfy when the constraints (together with the
    // generated non-overlap constraints) are not jointly satisfiable (kf_cola_makefeasible_hang); histories that
    // use it get a jointly satisfiable system, the others may be contradictory and are only run()
    bool useMF = rng.coin(2, 5);
    if (useMF) { colaGenHidden(rng, s, n); op("constraint mode: jointly satisfiable (hidden placement)"); }
    else op("constraint mode: arbitrary (may be contradictory)");
    colaGenConstraints(rng, s, n, (int) rng.range(0, big ? 6 : 4), true);
    bool clusters = rng.coin(1, 3);
    if (clusters) colaGenClusters(rng, s, n, true);
    bool handOver = rng.coin(1, 3);                 // freeAssociatedObjects() at the end
    unsigned iters = (unsigned) rng.range(1, big ? 10 : 5);
    cola::UnsatisfiableConstraintInfos ux, uy;
    cola::DesiredPositions dps;
    ColaLocksPre pre;
    bool usePre = rng.coin(1, 3), ownTest = rng.coin(3, 4);
    if (usePre) {
        unsigned id = (unsigned) rng.range(0, n - 1);
        pre.lk.push_back(cola::Lock(id, q4(rng, -50, 50), q4(rng, -50, 50)));
        op("PreIteration with Lock on node %u", id);
        if (rng.coin(1, 3)) { unsigned rid = (unsigned) rng.range(0, n - 1); pre.rz.push_back(cola::Resize(rid, 0, 0, 20, 10)); op("PreIteration with Resize of node %u", rid); }
    }
    cola::TestConvergence test(1e-4, iters);
    {
        op("ConstrainedFDLayout(rs, es, ideal=%s, eLengths(%zu), %s, %s) maxiter=%u", dstr(s.ideal).c_str(), s.el.size(),
           ownTest ? "&test" : "default-done", usePre ? "&pre" : "no-pre", iters);
        cola::ConstrainedFDLayout alg(s.rs, s.es, s.ideal, s.el, ownTest ? &test : nullptr, usePre ? &pre : nullptr);
        op("setConstraints (%zu)", s.ccs.size());
        alg.setConstraints(s.ccs);
        if (rng.coin(3, 4)) { op("setUnsatisfiableConstraintInfo"); alg.setUnsatisfiableConstraintInfo(&ux, &uy); }
        if (rng.coin()) {
            cola::ListOfNodeIndexes groups;
            if (rng.coin(1, 3)) { groups.push_back(colaSubset(rng, n, 2)); }
            op("setAvoidNodeOverlaps(true, %zu exempt groups)", groups.size());
            alg.setAvoidNodeOverlaps(true, groups);
        }
        if (rng.coin(1, 4)) { op("setUseNeighbourStress(true)"); alg.setUseNeighbourStress(true); }
        if (s.root) { op("setClusterHierarchy"); alg.setClusterHierarchy(s.root); }
        if (rng.coin(1, 4)) {
            cola::DesiredPosition dp; dp.id = (unsigned) rng.range(0, n - 1); dp.x = q4(rng, -40, 40); dp.y = q4(rng, -40, 40); dp.weight = 10;
            dps.push_back(dp);
            op("setDesiredPositions node %u", dp.id);
            alg.setDesiredPositions(&dps);
        }
        int steps = (int) rng.range(1, 3);
        bool ok = true;
        for (int t = 0; t < steps && ok; ++t) {
            int k = (int) rng.range(0, 5);
            if (k <= 1 && !useMF) k = 4;
            if (useMF && t == 0) k = 0;
            if (k <= 1) { op("makeFeasible()"); ok = guarded([&]() { alg.makeFeasible(); }); }
            else if (k == 2) { bool x = rng.coin(3, 4), y = rng.coin(3, 4); op("run(%d,%d)", (int) x, (int) y); ok = guarded([&]() { alg.run(x, y); }); }
            else if (k == 3) { op("runOnce()"); ok = guarded([&]() { alg.runOnce(); }); }
            else { op("run()"); ok = guarded([&]() { alg.run(); }); }
            if (ok && rng.coin(1, 3)) { op("computeStress"); double st = alg.computeStress(); res("stress_finite", (long) std::isfinite(st)); }
        }
        if (ok && rng.coin(1, 4)) { op("readLinearD / readLinearG"); res("dsize", (long) alg.readLinearD().size()); res("gsize", (long) alg.readLinearG().size()); }
        if (rng.coin(1, 5)) { op("getTopology (clone) ; delete clone"); cola::TopologyAddonInterface *t = alg.getTopology(); delete t; }
        if (ownTest) res("iterations", (long) test.iterations);
        // toString() is only called on infos whose `cc` is one of the caller's own constraints and does not
        // refer to AlignmentConstraints: an info about a library-generated non-overlap / cluster constraint
        // keeps a `cc` that run() has already deleted (kf_cola_unsatinfo_internal_cc_uaf), and the toString()
        // of separation / multi-separation / distribution constraints over alignments reads the alignments'
        // vpsc::Variable, freed at the end of every iteration (kf_cola_unsatinfo_alignment_var_uaf)
        for (int d = 0; d < 2; ++d) {
            cola::UnsatisfiableConstraintInfos &u = d == 0 ? ux : uy;
            for (size_t i = 0; i < u.size(); ++i)
                if (std::find(s.ccs.begin(), s.ccs.end(), u[i]->cc) != s.ccs.end() && !s.refsAlignments.count(u[i]->cc)) {
                op("UnsatisfiableConstraintInfo::toString (dim %d, its CompoundConstraint is alive)", d);
                res("infostrlen", (long) u[i]->toString().size());
                break;
            }
        }
        if (handOver && ok) {
            op("freeAssociatedObjects() (layout takes over rectangles, compound constraints, cluster hierarchy)");
            alg.freeAssociatedObjects();
            res("handed_over_rects", s.rectsAlloc); res("handed_over_ccs", s.ccsAlloc);
            if (s.root) res("handed_over_clusters", s.clustersAlloc);
            s.rs.clear(); s.ccs.clear(); s.root = nullptr; s.rectsAlloc = s.ccsAlloc = s.clustersAlloc = 0;
        }
        op("~ConstrainedFDLayout");
    }
    colaFreeInfos(ux, uy);
    colaManualTeardown(s);
}

inline void colaCmlHistory(vh::Rng &rng, bool big) {
    ColaScene s;
    unsigned n = (unsigned) rng.range(3, big ? 9 : 7);
    colaGenGraph(rng, s, n);
    colaGenRects(rng, s, n);
    colaGenConstraints(rng, s, n, (int) rng.range(0, big ? 5 : 3), false);
    bool clusters = rng.coin(1, 4);
    if (clusters) colaGenClusters(rng, s, n, false);
    unsigned iters = (unsigned) rng.range(1, big ? 8 : 4);
    cola::TestConvergence test(1e-4, iters);
    bool ownTest = rng.coin(3, 4), nstress = rng.coin(1, 4);
    {
        op("ConstrainedMajorizationLayout(rs, es, %s, ideal=%s, eLengths(%zu), %s, nullptr, neighbourStress=%d) maxiter=%u",
           s.root ? "root" : "nullptr", dstr(s.ideal).c_str(), s.el.size(), ownTest ? "&test" : "default-done", (int) nstress, iters);
        cola::ConstrainedMajorizationLayout alg(s.rs, s.es, s.root, s.ideal, s.el, ownTest ? &test : nullptr, nullptr, nstress);
        bool constrained = false;
        if (!s.ccs.empty() || rng.coin(1, 3)) { op("setConstraints(&ccs) (%zu)", s.ccs.size()); alg.setConstraints(&s.ccs); constrained = true; }
        if (rng.coin()) { op("setScaling(true)"); alg.setScaling(true); }
        if (rng.coin(1, 3)) { bool h = rng.coin(); op("setAvoidOverlaps(%d)", (int) h); alg.setAvoidOverlaps(h); constrained = true; }
        if (s.root && rng.coin()) { op("setNonOverlappingClusters"); alg.setNonOverlappingClusters(); constrained = true; }
        if (rng.coin(1, 5)) {
            constrained = true;
            std::valarray<double> sx(n), sy(n);
            for (unsigned i = 0; i < n; ++i) { sx[i] = s.rs[i]->getCentreX(); sy[i] = s.rs[i]->getCentreY(); }
            op("setStickyNodes(0.1, startX, startY)");
            alg.setStickyNodes(0.1, sx, sy);
        }
        // a constrained CML allocates a fresh GradientProjection pair in every run()/runOnce() and frees only
        // the last one (kf_cola_cml_rerun_leak): constrained instances are run once here
        int steps = constrained ? 1 : (int) rng.range(1, 3);
        bool ok = true;
        for (int t = 0; t < steps && ok; ++t) {
            if (rng.coin(1, 3)) { op("runOnce()"); ok = guarded([&]() { alg.runOnce(); }); }
            else { bool x = rng.coin(4, 5), y = rng.coin(4, 5); op("run(%d,%d)", (int) x, (int) y); ok = guarded([&]() { alg.run(x, y); }); }
        }
        if (ok && rng.coin(1, 3)) { op("computeStress"); res("stress_finite", (long) std::isfinite(alg.computeStress())); }
        op("~ConstrainedMajorizationLayout");
    }
    colaManualTeardown(s);
}

// ============================================================================================
// 3. libtopology
//
// Ownership (libtopology/topology_graph.h, topology_constraints.h, cola_topology_addon.{h,cpp}, tests/):
//  * topology::Node borrows its Rectangle and its Variable (tests/test.h: `delete_node` deletes
//    v->rect and v; variables are deleted separately: `for_each(vs..., delete_object())`);
//  * topology::Edge owns its Segments and the EdgePoints handed to its constructor
//    (~Edge: `forEach(delete_object(),delete_object(),true)`); the caller deletes the Edges;
//  * TopologyConstraints appends generated non-overlap constraints to the caller's `cs` ("list will
//    be appended with automatically generated non-overlap constraints") -- the caller deletes them
//    (tests/simple_bend.cpp, nooverlap.cpp); the TopologyConstraints object must be destroyed BEFORE
//    the edges ("scope for t, so that t gets destroyed before es", simple_bend.cpp) because its
//    destructor walks them to delete bend / straight constraints;
//  * ColaTopologyAddon(nodes, edges) copies the two pointer vectors; ConstrainedFDLayout::setTopology
//    clones the addon; neither frees Nodes/Edges unless freeAssociatedObjects() is called, so the
//    caller deletes rs, edges, nodes after the layout (tests/nodedragging.cpp);
//  * an EMPTY ColaTopologyAddon handed to the layout is populated by makeFeasible() ("will cause libcola
//    to populate it with current topology information", cola_topology_addon.h) with Nodes/Edges that
//    only ConstrainedFDLayout::freeAssociatedObjects() releases (cola_topology_addon.cpp:56-69).
// Legal-use restrictions honoured (preconditions the library asserts itself): rectangles do not
// overlap and are >= 2 apart, routes do not pass through nodes, bends are tight and convex.  The
// generator additionally keeps the x-ranges and the y-ranges of all nodes pairwise disjoint and the
// moves small, which keeps the clean tree away from two known assertion failures on legal scenes
// (kf_topology_endnode_visibility_assert; "turn not tight" after the library itself pressed nodes
// together).
// ============================================================================================

struct TopoScene {
    vpsc::Rectangles rs;
    topology::Nodes nodes;
    topology::Edges edges;
    std::vector<std::pair<unsigned, unsigned> > ends;
    long ra, rf, na, nf, ea, ef, va, vf, ca, cf;
    TopoScene() : ra(0), rf(0), na(0), nf(0), ea(0), ef(0), va(0), vf(0), ca(0), cf(0) {}
    void addNode(double x, double X, double y, double Y) {
        op("new Rectangle + new topology::Node %zu [%s,%s]x[%s,%s]", nodes.size(), dstr(x).c_str(), dstr(X).c_str(), dstr(y).c_str(), dstr(Y).c_str());
        vpsc::Rectangle *r = new vpsc::Rectangle(x, X, y, Y); ++ra;
        rs.push_back(r);
        nodes.push_back(new topology::Node((unsigned) nodes.size(), r)); ++na;
    }
    void teardown() {
        op("delete topology::Edges (each frees its Segments and EdgePoints)");
        for (size_t i = 0; i < edges.size(); ++i) { delete edges[i]; ++ef; }
        op("delete topology::Nodes, then their Rectangles");
        for (size_t i = 0; i < nodes.size(); ++i) { delete nodes[i]; ++nf; }
        for (size_t i = 0; i < rs.size(); ++i) { delete rs[i]; ++rf; }
        edges.clear(); nodes.clear(); rs.clear();
        own("topology::Edge", ea, ef);
        own("topology::Node", na, nf);
        own("vpsc::Rectangle", ra, rf);
        own("vpsc::Variable", va, vf);
        own("vpsc::Constraint", ca, cf);
    }
};

// closed segment meets the open rectangle shrunk by eps?
inline bool topoSegHitsRect(double x1, double y1, double x2, double y2, const vpsc::Rectangle *r, double eps) {
    double lo = 0, hi = 1;
    double a[4] = {x1 - (r->getMinX() + eps), (r->getMaxX() - eps) - x1, y1 - (r->getMinY() + eps), (r->getMaxY() - eps) - y1};
    double d[4] = {x2 - x1, -(x2 - x1), y2 - y1, -(y2 - y1)};
    for (int i = 0; i < 4; ++i) {
        if (d[i] == 0) { if (a[i] <= 0) return false; }
        else if (d[i] > 0) lo = std::max(lo, -a[i] / d[i]);
        else hi = std::min(hi, -a[i] / d[i]);
    }
    return lo < hi;
}

// "staircase" scene: slot i of a random x-permutation and slot j of a random y-permutation per node, so
// that all x-ranges and all y-ranges are pairwise disjoint with a gap of at least `gap`
inline void topoGenStaircase(vh::Rng &rng, TopoScene &sc, int n, double gap) {
    std::vector<int> px, py;
    for (int i = 0; i < n; ++i) { px.push_back(i); py.push_back(i); }
    rng.shuffle(px); rng.shuffle(py);
    const double pitch = 30 + gap;
    for (int i = 0; i < n; ++i) {
        double w = (double) rng.range(6, 30), h = (double) rng.range(6, 30);
        double x = px[i] * pitch + (double) rng.range(0, (long) (30 - w)), y = py[i] * pitch + (double) rng.range(0, (long) (30 - h));
        sc.addNode(x, x + w, y, y + h);
    }
}

// scattered scene: random non-overlapping rectangles at least `gap` apart (scan lines are shared)
inline void topoGenScatter(vh::Rng &rng, TopoScene &sc, int n, long field, double gap) {
    int tries = 0;
    while ((int) sc.rs.size() < n && tries++ < 2000) {
        double w = (double) rng.range(4, 28), h = (double) rng.range(4, 28), x = (double) rng.range(0, field), y = (double) rng.range(0, field);
        bool ok = true;
        for (size_t i = 0; i < sc.rs.size() && ok; ++i) {
            const vpsc::Rectangle *r = sc.rs[i];
            ok = !(x < r->getMaxX() + gap && r->getMinX() < x + w + gap && y < r->getMaxY() + gap && r->getMinY() < y + h + gap);
        }
        if (ok) sc.addNode(x, x + w, y, y + h);
    }
}

inline bool topoStraightFree(const TopoScene &sc, unsigned a, unsigned b) {
    const vpsc::Rectangle *ra = sc.rs[a], *rb = sc.rs[b];
    for (size_t k = 0; k < sc.rs.size(); ++k) {
        if (k == a || k == b) continue;
        if (topoSegHitsRect(ra->getCentreX(), ra->getCentreY(), rb->getCentreX(), rb->getCentreY(), sc.rs[k], -1.0)) return false;   // 1 unit clearance
    }
    return true;
}

inline void topoAddStraightEdges(vh::Rng &rng, TopoScene &sc, int m) {
    unsigned n = (unsigned) sc.nodes.size();
    for (int i = 0; i < m; ++i) {
        unsigned a = (unsigned) rng.range(0, n - 1), b = (unsigned) rng.range(0, n - 2); if (b >= a) ++b;
        bool dup = false;
        for (size_t e = 0; e < sc.ends.size(); ++e) if ((sc.ends[e].first == a && sc.ends[e].second == b) || (sc.ends[e].first == b && sc.ends[e].second == a)) dup = true;
        if (dup || !topoStraightFree(sc, a, b)) continue;
        topology::EdgePoints eps;
        eps.push_back(new topology::EdgePoint(sc.nodes[a], topology::EdgePoint::CENTRE));
        eps.push_back(new topology::EdgePoint(sc.nodes[b], topology::EdgePoint::CENTRE));
        op("new topology::Edge %zu: 2 new EdgePoints CENTRE(n%u) - CENTRE(n%u)", sc.edges.size(), a, b);
        sc.edges.push_back(new topology::Edge((unsigned) sc.edges.size(), 40, eps)); ++sc.ea;
        sc.ends.push_back(std::make_pair(a, b));
    }
}

// One TopologyConstraints instance in one axis, `rounds` sets of desired positions, solve() until it
// reports no interruption (as ColaTopologyAddon::moveTo does).
inline void topoSolvePhase(vh::Rng &rng, TopoScene &sc, vpsc::Dim dim, int rounds, long amp) {
    unsigned n = (unsigned) sc.nodes.size();
    vpsc::Variables vs;
    vpsc::Constraints cs;
    op("new vpsc::Variable x%u; setNodeVariables", n);
    for (unsigned i = 0; i < n; ++i) { vs.push_back(new vpsc::Variable(i, sc.rs[i]->getCentreD(dim))); ++sc.va; }
    topology::setNodeVariables(sc.nodes, vs);
    {
        op("TopologyConstraints(dim=%d, nodes, edges, nullptr, vs, cs) on stack", (int) dim);
        topology::TopologyConstraints t(dim, sc.nodes, sc.edges, nullptr, vs, cs);
        res("generated_constraints", (long) cs.size());
        for (int round = 0; round < rounds; ++round) {
            unsigned drag = (unsigned) rng.range(0, n - 1);
            bool all = rng.coin();
            for (unsigned i = 0; i < n; ++i) {
                double cur = sc.rs[i]->getCentreD(dim), d = cur, w = 1;
                if (all) d = cur + (double) rng.range(-2 * amp, 2 * amp) / 2.0;
                else if (i == drag) { d = cur + (double) rng.range(-amp, amp); w = 10000; }
                vs[i]->desiredPosition = d; vs[i]->weight = w;
            }
            op("set desired positions (%s, amplitude %ld)", all ? "all nodes" : "one dragged node", amp);
            int loop = 20; bool again; long solves = 0;
            do { op("TopologyConstraints::solve"); again = t.solve(); ++solves; } while (again && --loop > 0);
            res("solves", solves);
        }
        if (rng.coin(1, 3)) {
            std::vector<topology::TopologyConstraint *> ts;
            op("TopologyConstraints::constraints"); t.constraints(ts); res("topology_constraints", (long) ts.size());
        }
        op("~TopologyConstraints (before the edges)");
    }
    sc.ca += (long) cs.size();
    op("delete generated constraints and variables");
    for (size_t i = 0; i < cs.size(); ++i) { delete cs[i]; ++sc.cf; }
    for (size_t i = 0; i < vs.size(); ++i) { delete vs[i]; ++sc.vf; }
    for (unsigned i = 0; i < n; ++i) sc.nodes[i]->var = nullptr;
}

inline void topoResizeStep(vh::Rng &rng, TopoScene &sc) {
    unsigned n = (unsigned) sc.nodes.size();
    unsigned id = (unsigned) rng.range(0, n - 1);
    vpsc::Rectangle *o = sc.rs[id];
    double w = std::max(2.0, o->width() + (double) rng.range(-3, 3)), h = std::max(2.0, o->height() + (double) rng.range(-3, 3));
    vpsc::Rectangle *target = new vpsc::Rectangle(o->getCentreX() - w / 2, o->getCentreX() + w / 2, o->getCentreY() - h / 2, o->getCentreY() + h / 2);
    ++sc.ra;
    topology::ResizeMap resizes;
    resizes.insert(std::make_pair(id, topology::ResizeInfo(sc.nodes[id], target)));
    vpsc::Variables xvs, yvs; vpsc::Constraints xcs, ycs;
    for (unsigned i = 0; i < n; ++i) { xvs.push_back(new vpsc::Variable(i, sc.rs[i]->getCentreX())); yvs.push_back(new vpsc::Variable(i, sc.rs[i]->getCentreY())); sc.va += 2; }
    op("applyResizes node %u -> %sx%s", id, dstr(w).c_str(), dstr(h).c_str());
    topology::applyResizes(sc.nodes, sc.edges, nullptr, resizes, xvs, xcs, yvs, ycs);
    sc.ca += (long) (xcs.size() + ycs.size());
    // applyResizes appends its own dummy variables to xvs / yvs; the caller frees them with the rest
    // (as ColaTopologyAddon::handleResizes does)
    sc.va += (long) (xvs.size() - n) + (long) (yvs.size() - n);
    op("delete resize variables, constraints, target rectangle");
    for (size_t i = 0; i < xvs.size(); ++i) { delete xvs[i]; ++sc.vf; }
    for (size_t i = 0; i < yvs.size(); ++i) { delete yvs[i]; ++sc.vf; }
    for (size_t i = 0; i < xcs.size(); ++i) { delete xcs[i]; ++sc.cf; }
    for (size_t i = 0; i < ycs.size(); ++i) { delete ycs[i]; ++sc.cf; }
    delete target; ++sc.rf;
    for (unsigned i = 0; i < n; ++i) sc.nodes[i]->var = nullptr;
}

// tests/simple_bend.cpp: the five hand-made scenes with the desired positions the test file gives
inline void topoSimpleBend(vh::Rng &rng, bool big) {
    TopoScene sc;
    int which = (int) rng.range(0, 4);
    struct N { double x, y, w, h; };
    struct P { unsigned node; int ri; };
    static const N n0[] = {{400, 170, 50, 30}, {420, 65, 50, 30}, {280, 220, 50, 30}};
    static const N n1[] = {{0, 0, 54, 34}, {100, 100, 54, 34}, {0, 50, 54, 34}};
    static const N n2[] = {{0, 0, 54, 34}, {100, 100, 54, 34}, {100, 50, 54, 34}};
    static const N n3[] = {{455.95, 324.166331, 54, 34}, {416.252794, 290.166331, 54, 34}, {620.342448, 342.224389, 54, 34}};
    static const N n4[] = {{0, 0, 10, 10}, {40, 50, 10, 10}, {10, 20, 10, 10}, {20, 20, 10, 10}, {15, 30, 10, 10}, {25, 30, 10, 10}};
    static const P p0[] = {{2, 4}, {1, 4}}, p1[] = {{0, 4}, {1, 4}}, p3[] = {{2, 4}, {0, 1}, {1, 4}};
    static const P p4[] = {{0, 4}, {2, 1}, {3, 3}, {4, 1}, {5, 3}, {1, 4}};
    const N *ns; const P *ps; int nn, np; unsigned dnode; double dpos;
    switch (which) {
    case 0: ns = n0; nn = 3; ps = p0; np = 2; dnode = 0; dpos = 361; break;
    case 1: ns = n1; nn = 3; ps = p1; np = 2; dnode = 2; dpos = 150; break;
    case 2: ns = n2; nn = 3; ps = p1; np = 2; dnode = 2; dpos = 0; break;
    case 3: ns = n3; nn = 3; ps = p3; np = 3; dnode = 0; dpos = 339; break;
    default: ns = n4; nn = 6; ps = p4; np = 6; dnode = 2; dpos = 40; break;
    }
    printf("scene simple_bend-test%d\n", which + 1);
    for (int i = 0; i < nn; ++i) sc.addNode(ns[i].x, ns[i].x + ns[i].w, ns[i].y, ns[i].y + ns[i].h);
    topology::EdgePoints eps;
    for (int i = 0; i < np; ++i) eps.push_back(new topology::EdgePoint(sc.nodes[ps[i].node], (topology::EdgePoint::RectIntersect) ps[i].ri));
    op("new topology::Edge 0 with %d new EdgePoints", np);
    sc.edges.push_back(new topology::Edge(0, 210, eps)); ++sc.ea;
    vpsc::Variables vs; vpsc::Constraints cs;
    unsigned n = (unsigned) nn;
    for (unsigned i = 0; i < n; ++i) { vs.push_back(new vpsc::Variable(i, sc.rs[i]->getCentreX())); ++sc.va; }
    op("setNodeVariables");
    topology::setNodeVariables(sc.nodes, vs);
    {
        op("TopologyConstraints(HORIZONTAL, nodes, edges, nullptr, vs, cs) on stack");
        topology::TopologyConstraints t(vpsc::HORIZONTAL, sc.nodes, sc.edges, nullptr, vs, cs);
        op("computeStress(edges)"); res("stress_finite", (long) std::isfinite(topology::computeStress(sc.edges)));
        int iters = (int) rng.range(1, big ? 9 : 4);
        for (int it = 0; it < iters; ++it) {
            for (unsigned i = 0; i < n; ++i) { vs[i]->desiredPosition = sc.rs[i]->getCentreX(); vs[i]->weight = 1; }
            vs[dnode]->desiredPosition = dpos; vs[dnode]->weight = 10000;
            op("set desired: node %u -> %s (weight 10000), others stay; TopologyConstraints::solve", dnode, dstr(dpos).c_str());
            t.solve();
        }
        op("Edge::getRoute; delete route");
        straightener::Route *r = sc.edges[0]->getRoute(); res("route_points", (long) r->n); delete r;
        op("~TopologyConstraints (before the edges)");
    }
    sc.ca += (long) cs.size();
    op("delete generated constraints and variables");
    for (size_t i = 0; i < cs.size(); ++i) { delete cs[i]; ++sc.cf; }
    for (size_t i = 0; i < vs.size(); ++i) { delete vs[i]; ++sc.vf; }
    sc.teardown();
}

inline void topoSolveHistory(vh::Rng &rng, bool big, bool withEdges) {
    TopoScene sc;
    int n = (int) rng.range(2, big ? 8 : 6);
    if (withEdges) { topoGenStaircase(rng, sc, n, 14); topoAddStraightEdges(rng, sc, (int) rng.range(1, 4)); }
    else topoGenScatter(rng, sc, n, 80, 2);             // without edges shared scan lines and big moves are safe
    res("edges", (long) sc.edges.size());
    int phases = (int) rng.range(1, withEdges ? 2 : 3);
    vpsc::Dim dim = rng.coin() ? vpsc::XDIM : vpsc::YDIM;
    for (int ph = 0; ph < phases; ++ph) {
        topoSolvePhase(rng, sc, dim, withEdges ? 1 : (int) rng.range(1, 2), withEdges ? 3 : 40);
        dim = (dim == vpsc::XDIM) ? vpsc::YDIM : vpsc::XDIM;
        if (rng.coin(1, 4)) topoResizeStep(rng, sc);
    }
    sc.teardown();
}

// nooverlap-style (tests/nooverlap.cpp): overlapping rectangles are first separated with
// removeoverlaps(), no edges, nodes created WITH their variables, getVariables(), one solve
inline void topoNoOverlapHistory(vh::Rng &rng, bool big) {
    TopoScene sc;
    int n = (int) rng.range(2, big ? 9 : 6);
    makeRects(rng, n, sc.rs, 20, 12);
    sc.ra = n;
    op("removeoverlaps(rs)");
    vpsc::removeoverlaps(sc.rs);
    for (int i = 0; i < n; ++i) {
        vpsc::Variable *v = new vpsc::Variable(i); ++sc.va;
        sc.nodes.push_back(new topology::Node((unsigned) i, sc.rs[i], v)); ++sc.na;
    }
    op("new topology::Node(id, rect, new Variable) x%d; getVariables", n);
    vpsc::Variables vs;
    topology::getVariables(sc.nodes, vs);
    vpsc::Constraints cs;
    vpsc::Dim dim = rng.coin() ? vpsc::XDIM : vpsc::YDIM;
    {
        op("TopologyConstraints(dim=%d, nodes, no edges, nullptr, vs, cs) on stack", (int) dim);
        topology::TopologyConstraints t(dim, sc.nodes, sc.edges, nullptr, vs, cs);
        for (int i = 0; i < n; ++i) sc.nodes[i]->var->desiredPosition = (double) rng.range(0, 20) / 4.0;
        op("set desired positions in [0,5]; TopologyConstraints::solve");
        t.solve();
        op("~TopologyConstraints");
    }
    sc.ca += (long) cs.size();
    op("noRectangleOverlaps");
    res("nooverlaps", (long) vpsc::noRectangleOverlaps(sc.rs));
    op("delete generated constraints and variables");
    for (size_t i = 0; i < cs.size(); ++i) { delete cs[i]; ++sc.cf; }
    for (size_t i = 0; i < vs.size(); ++i) { delete vs[i]; ++sc.vf; }
    sc.teardown();
}

// tests/nodedragging.cpp: ConstrainedFDLayout + ColaTopologyAddon(nodes, edges), one node dragged by a Lock
inline void topoFdHistory(vh::Rng &rng, bool big) {
    TopoScene sc;
    int n = (int) rng.range(3, big ? 8 : 6);
    topoGenStaircase(rng, sc, n, 14);
    bool withEdges = rng.coin();
    if (withEdges) topoAddStraightEdges(rng, sc, (int) rng.range(1, 3));
    std::vector<cola::Edge> ces;
    for (size_t e = 0; e < sc.ends.size(); ++e) ces.push_back(std::make_pair(sc.ends[e].first, sc.ends[e].second));
    if (!withEdges) for (int i = 1; i < n; ++i) ces.push_back(std::make_pair((unsigned) rng.range(0, i - 1), (unsigned) i));
    res("edges", (long) sc.edges.size());
    cola::Locks locks; cola::Resizes resizes;
    unsigned did = (unsigned) rng.range(0, n - 1);
    bool useLock = rng.coin();
    if (useLock) locks.push_back(cola::Lock(did, sc.rs[did]->getCentreX(), sc.rs[did]->getCentreY()));
    cola::PreIteration pre(locks, resizes);
    unsigned iters = (unsigned) rng.range(1, big ? 4 : 2);
    cola::TestConvergence test(1e-5, iters);
    {
        op("ConstrainedFDLayout(rs, es(%zu), 60, StandardEdgeLengths, &test, &preIteration(lock=%d)) maxiter=%u", ces.size(), (int) useLock, iters);
        cola::ConstrainedFDLayout alg(sc.rs, ces, 60, cola::StandardEdgeLengths, &test, &pre);
        if (rng.coin(3, 4)) { op("setAvoidNodeOverlaps(true)"); alg.setAvoidNodeOverlaps(true); }
        op("ColaTopologyAddon(nodes, edges) on stack; setTopology (clones it)");
        topology::ColaTopologyAddon addon(sc.nodes, sc.edges);
        alg.setTopology(&addon);
        int runs = (int) rng.range(1, 2);
        for (int i = 0; i < runs; ++i) {
            if (useLock) { double step = (double) rng.range(-2, 2); locks[0] = cola::Lock(did, sc.rs[did]->getCentreX() + step, sc.rs[did]->getCentreY() - step); }
            op("run(true,true)");
            alg.run(true, true);
        }
        op("computeStress"); res("stress_finite", (long) std::isfinite(alg.computeStress()));
        if (rng.coin(1, 3)) { op("getTopology (clone); delete clone"); cola::TopologyAddonInterface *c = alg.getTopology(); delete c; }
        op("~ConstrainedFDLayout (deletes its addon clone, not the nodes/edges)");
    }
    for (size_t i = 0; i < sc.nodes.size(); ++i) sc.nodes[i]->var = nullptr;
    sc.teardown();
}

// empty ColaTopologyAddon populated by makeFeasible(); everything released by freeAssociatedObjects()
inline void topoEmptyAddonHistory(vh::Rng &rng, bool big) {
    int n = (int) rng.range(3, big ? 7 : 5);
    vpsc::Rectangles rs;
    std::vector<int> px, py;
    for (int i = 0; i < n; ++i) { px.push_back(i); py.push_back(i); }
    rng.shuffle(px); rng.shuffle(py);
    for (int i = 0; i < n; ++i) {
        double w = (double) rng.range(6, 30), h = (double) rng.range(6, 30), x = px[i] * 44.0, y = py[i] * 44.0;
        op("new Rectangle %d [%s,%s]x[%s,%s]", i, dstr(x).c_str(), dstr(x + w).c_str(), dstr(y).c_str(), dstr(y + h).c_str());
        rs.push_back(new vpsc::Rectangle(x, x + w, y, y + h));
    }
    std::vector<cola::Edge> ces;
    for (int i = 1; i < n; ++i) ces.push_back(std::make_pair((unsigned) rng.range(0, i - 1), (unsigned) i));
    cola::RootCluster *root = nullptr;
    if (rng.coin()) {
        root = new cola::RootCluster();
        cola::ConvexCluster *cc = new cola::ConvexCluster();
        cc->addChildNode(0); cc->addChildNode(1);
        root->addChildCluster(cc);
        op("new RootCluster + new ConvexCluster{0,1}");
    }
    unsigned iters = (unsigned) rng.range(1, 2);
    cola::TestConvergence test(1e-4, iters);
    {
        op("ConstrainedFDLayout(rs, es(%zu), 50, StandardEdgeLengths, &test) maxiter=%u", ces.size(), iters);
        cola::ConstrainedFDLayout alg(rs, ces, 50, cola::StandardEdgeLengths, &test);
        op("setAvoidNodeOverlaps(true)"); alg.setAvoidNodeOverlaps(true);
        if (root) { op("setClusterHierarchy"); alg.setClusterHierarchy(root); }
        op("empty ColaTopologyAddon on stack; setTopology");
        topology::ColaTopologyAddon addon;
        alg.setTopology(&addon);
        op("makeFeasible() (populates the addon's topologyNodes / topologyRoutes)");
        alg.makeFeasible();
        op("getTopology (clone)");
        cola::TopologyAddonInterface *c = alg.getTopology();
        topology::ColaTopologyAddon *tc = dynamic_cast<topology::ColaTopologyAddon *>(c);
        if (tc) { res("topology_nodes", (long) tc->topologyNodes.size()); res("topology_routes", (long) tc->topologyRoutes.size()); }
        op("delete clone");
        delete c;
        if (rng.coin()) { op("run()"); alg.run(); }
        op("freeAssociatedObjects() (rectangles, cluster hierarchy, topology nodes and routes)");
        alg.freeAssociatedObjects();
        res("handed_over_rects", (long) n);
        op("~ConstrainedFDLayout");
    }
}

// ============================================================================================
// 4. libdialect
//
// Ownership (libdialect/graphs.h, commontypes.h, tests/): everything is shared_ptr based -- Node_SP /
// Edge_SP / Graph_SP / Tree_SP; Node::allocate / Edge::allocate / Graph::addNode / addEdge are the only
// ways objects are made ("static Node_SP allocate", graphs.h).  The harness therefore owns no raw
// objects here; `own` lines report the shared handles it created and dropped.  peel(G) removes the
// trees from G and returns them (tests/peel.cpp); doHOLA(G[, opts]) lays G out in place (tests/
// hola_tree.cpp, holalonenode.cpp); Graph::writeTglf() / buildGraphFromTglf(string&) round-trip a graph
// (tests/tglf01.cpp) -- the parser relies on COLA_ASSERT(iss >> ...) and so needs assertions ON.
// Legal-use restrictions honoured: connected simple graphs (no self-loops / multi-edges), w,h > 0,
// peel() only on graphs with at least one edge (kf_dialect_peel_edgeless).  doHOLA on a graph that is
// not a tree leaks in four libdialect functions on the clean tree (kf_dialect_hola_leak): in the main
// class such calls run with LeakSanitizer disabled for the duration of the call only (ASan/UBSan and
// the assertions stay armed), and the op line says so.
// ============================================================================================

struct DiaSpec {
    int n;
    std::vector<std::pair<int, int> > es;
    std::set<std::pair<int, int> > have;
    std::string shape;
    DiaSpec() : n(0) {}
    bool add(int a, int b) {
        if (a == b) return false;
        std::pair<int, int> k(std::min(a, b), std::max(a, b));
        if (have.count(k)) return false;
        have.insert(k); es.push_back(std::make_pair(a, b)); return true;
    }
    bool isTree() const { return (int) es.size() == n - 1; }
};

inline DiaSpec diaGenSpec(vh::Rng &rng, bool big) {
    DiaSpec g;
    int nmax = big ? 8 : 7;
    int kind = (int) rng.range(0, 6);
    switch (kind) {
    case 0: g.shape = "path"; g.n = (int) rng.range(2, nmax); for (int i = 1; i < g.n; ++i) g.add(i - 1, i); break;
    case 1: g.shape = "tree"; g.n = (int) rng.range(2, nmax); for (int i = 1; i < g.n; ++i) g.add((int) rng.range(0, i - 1), i); break;
    case 2: g.shape = "star"; g.n = (int) rng.range(3, nmax); for (int i = 1; i < g.n; ++i) g.add(0, i); break;
    case 3: g.shape = "cycle"; g.n = (int) rng.range(3, 6); for (int i = 0; i < g.n; ++i) g.add(i, (i + 1) % g.n); break;
    case 4: { g.shape = "unicyclic"; int c = (int) rng.range(3, 4); g.n = (int) rng.range(c + 1, nmax);
        for (int i = 0; i < c; ++i) g.add(i, (i + 1) % c);
        for (int i = c; i < g.n; ++i) g.add((int) rng.range(0, i - 1), i);
        break; }
    case 5: { g.shape = "random"; g.n = (int) rng.range(4, nmax);
        for (int i = 1; i < g.n; ++i) g.add((int) rng.range(0, i - 1), i);
        int extra = (int) rng.range(1, 3);
        for (int k = 0; k < extra; ++k) g.add((int) rng.range(0, g.n - 1), (int) rng.range(0, g.n - 1));
        break; }
    default: g.shape = "lone-node"; g.n = 1; break;
    }
    return g;
}

struct DiaBuilt {
    dialect::Graph_SP G;
    std::vector<dialect::Node_SP> nodes;
    long handles;
    DiaBuilt() : handles(0) {}
};

inline DiaBuilt diaBuild(vh::Rng &rng, const DiaSpec &g) {
    DiaBuilt b;
    op("make_shared<Graph>");
    b.G = std::make_shared<dialect::Graph>(); ++b.handles;
    // nodes left at the default position (0,0) are only used for trees: on graphs with a cycle doHOLA then
    // often ends with a core at x <= 0 and asserts (kf_dialect_faces_negative_x_assert)
    bool positioned = rng.coin() || !g.isTree();
    for (int i = 0; i < g.n; ++i) {
        double w = (double) rng.range(2, 12) * 5, h = (double) rng.range(2, 12) * 5;
        // positive coordinates only: doHOLA asserts when no core node has a positive x (kf_dialect_faces_negative_x_assert)
        double cx = q4(rng, 300, 600), cy = q4(rng, 300, 600);
        int how = (int) rng.range(0, 2);
        dialect::Node_SP u;
        if (how == 0) { op("Node::allocate(%s,%s)%s; Graph::addNode(node)", dstr(w).c_str(), dstr(h).c_str(), positioned ? "; setCentre" : ""); u = dialect::Node::allocate(w, h); if (positioned) u->setCentre(cx, cy); b.G->addNode(u); }
        else if (how == 1 && positioned) { op("Graph::addNode(%s,%s,%s,%s)", dstr(cx).c_str(), dstr(cy).c_str(), dstr(w).c_str(), dstr(h).c_str()); u = b.G->addNode(cx, cy, w, h); }
        else { op("Graph::addNode(%s,%s)%s", dstr(w).c_str(), dstr(h).c_str(), positioned ? "; setCentre" : ""); u = b.G->addNode(w, h); if (positioned) u->setCentre(cx, cy); }
        b.nodes.push_back(u); ++b.handles;
    }
    for (size_t e = 0; e < g.es.size(); ++e) {
        int how = (int) rng.range(0, 2);
        dialect::Node_SP s = b.nodes[g.es[e].first], t = b.nodes[g.es[e].second];
        if (how == 0) { op("Graph::addEdge(n%d, n%d)", g.es[e].first, g.es[e].second); b.G->addEdge(s, t); }
        else if (how == 1) { op("Edge::allocate(n%d, n%d); Graph::addEdge(edge)", g.es[e].first, g.es[e].second); b.G->addEdge(dialect::Edge::allocate(s, t)); }
        else { op("Graph::addEdge(id(n%d), id(n%d))", g.es[e].first, g.es[e].second); b.G->addEdge(s->id(), t->id()); }
    }
    return b;
}

inline void diaPeelAndLayout(vh::Rng &rng, dialect::Graph &H) {
    double iel = H.getIEL();
    op("peel(H)");
    dialect::Trees trees = dialect::peel(H);
    res("trees", (long) trees.size());
    res("core_nodes", (long) H.getNumNodes());
    static const dialect::CardinalDir dirs[4] = {dialect::CardinalDir::NORTH, dialect::CardinalDir::EAST, dialect::CardinalDir::SOUTH, dialect::CardinalDir::WEST};
    for (dialect::Trees::iterator it = trees.begin(); it != trees.end(); ++it) {
        dialect::Tree_SP t = *it;
        double maxDim = 0;
        const dialect::NodesById &lk = t->underlyingGraph()->getNodeLookup();
        for (dialect::NodesById::const_iterator p = lk.begin(); p != lk.end(); ++p) {
            dialect::dimensions dm = p->second->getDimensions();
            maxDim = std::max(maxDim, std::max(dm.first, dm.second));
        }
        int d = (int) rng.range(0, 3);
        op("Tree::symmetricLayout(dir %d, nodeSep=IEL/4, rankSep=max(IEL, maxDim)) on a tree of %zu nodes", d, t->size());
        t->symmetricLayout(dirs[d], iel / 4, std::max(iel, maxDim), rng.coin());
        if (rng.coin(1, 3)) { op("Tree::flip"); t->flip(); }
        if (rng.coin(1, 3)) { op("Tree::translate"); t->translate(Avoid::Point(10, -5)); }
    }
    op("drop trees");
}

inline void diaHistory(vh::Rng &rng, bool big) {
    DiaSpec g = diaGenSpec(rng, big);
    printf("shape %s %d %zu\n", g.shape.c_str(), g.n, g.es.size());
    DiaBuilt b = diaBuild(rng, g);
    long dropped = 0;
    res("nodes", (long) b.G->getNumNodes());
    res("edges", (long) b.G->getNumEdges());
    int nops = (int) rng.range(2, 4);
    bool didHola = false;
    for (int t = 0; t < nops; ++t) {
        int k = (int) rng.range(0, 6);
        if (k == 0) {
            op("Graph::writeTglf; buildGraphFromTglf(string); writeTglf again");
            std::string s = b.G->writeTglf();
            dialect::Graph_SP R = dialect::buildGraphFromTglf(s);
            res("roundtrip_nodes", (long) R->getNumNodes());
            res("roundtrip_edges", (long) R->getNumEdges());
            std::string s2 = R->writeTglf(true);
            res("roundtrip_same_length", (long) (s2.size() == s.size()));
            op("drop round-trip graph");
        } else if (k == 1) {
            op("Graph copy constructor; copy assignment; drop copies");
            dialect::Graph H(*b.G);
            dialect::Graph J;
            J = H;
            res("copy_nodes", (long) J.getNumNodes());
        } else if (k == 2) {
            op("Graph::getConnComps");
            std::vector<dialect::Graph_SP> comps = b.G->getConnComps();
            res("components", (long) comps.size());
        } else if (k == 3) {
            if (g.es.empty()) continue;             // peel() needs an edge (kf_dialect_peel_edgeless)
            // Graph's copy constructor shares the Node/Edge objects, and peel() severs edges inside the Nodes:
            // an independent graph is made through TGLF
            op("independent copy for peeling: buildGraphFromTglf(G.writeTglf())");
            std::string s = b.G->writeTglf();
            dialect::Graph_SP H = dialect::buildGraphFromTglf(s);
            diaPeelAndLayout(rng, *H);
        } else if (k == 4) {
            op("Graph::getChainsAndCycles on an independent copy (via TGLF)");
            std::string s = b.G->writeTglf();
            dialect::Graph_SP H = dialect::buildGraphFromTglf(s);
            std::vector<std::deque<dialect::Node_SP> > chains, cycles;
            H->getChainsAndCycles(chains, cycles);
            res("chains", (long) chains.size()); res("cycles", (long) cycles.size());
        } else if (!didHola) {
            didHola = true;
            bool useOpts = rng.coin();
            if (g.isTree() || g.n == 1) {
                op("doHOLA(G%s) on a %s", useOpts ? ", HolaOpts()" : "", g.n == 1 ? "lone node" : "tree");
                if (useOpts) { dialect::HolaOpts opts; dialect::doHOLA(*b.G, opts); } else dialect::doHOLA(*b.G);
            } else {
                op("doHOLA(G%s) on a graph with a cycle [LeakSanitizer disabled during this call: kf_dialect_hola_leak]", useOpts ? ", HolaOpts()" : "");
                C15_LSAN_SCOPED_DISABLE;
                if (useOpts) { dialect::HolaOpts opts; dialect::doHOLA(*b.G, opts); } else dialect::doHOLA(*b.G);
            }
            res("hola_nodes", (long) b.G->getNumNodes());
            res("hola_edges", (long) b.G->getNumEdges());
            op("Graph::writeTglf after layout");
            res("tglf_length_positive", (long) !b.G->writeTglf().empty());
        }
    }
    if (rng.coin(1, 3) && g.n >= 2) {
        int i = (int) rng.range(0, g.n - 1);
        op("Graph::severAndRemoveNode(n%d)", i);
        b.G->severAndRemoveNode(*b.nodes[i]);
        res("nodes_after_remove", (long) b.G->getNumNodes());
    }
    bool graphFirst = rng.coin();
    op("drop handles (%s first)", graphFirst ? "graph" : "nodes");
    if (graphFirst) { b.G.reset(); ++dropped; }
    dropped += (long) b.nodes.size(); b.nodes.clear();
    if (!graphFirst) { b.G.reset(); ++dropped; }
    own("dialect::shared-handles", b.handles, dropped);
}

} // namespace detail

inline void vpscHist(vh::Rng &rng, bool big) {
    detail::lib("libvpsc");
    int k = (int) rng.range(0, 9);
    if (k <= 4) { printf("kind inc\n"); detail::vpscIncHistory(rng, big); }
    else if (k <= 6) { printf("kind static\n"); detail::vpscStaticHistory(rng, big); }
    else { printf("kind rect\n"); detail::vpscRectHistory(rng, big); }
}

inline void colaHist(vh::Rng &rng, bool big) {
    detail::lib("libcola");
    if (rng.coin(7, 10)) { printf("kind fd\n"); detail::colaFdHistory(rng, big); }
    else { printf("kind cml\n"); detail::colaCmlHistory(rng, big); }
}
inline void topologyHist(vh::Rng &rng, bool big) {
    detail::lib("libtopology");
    topology::FILELog::ReportingLevel() = topology::logERROR;       // the library's default logs DEBUG1 to stderr
    int k = (int) rng.range(0, 9);
    if (k <= 1) { printf("kind nooverlap\n"); detail::topoNoOverlapHistory(rng, big); }
    else if (k <= 3) { printf("kind solve-noedges\n"); detail::topoSolveHistory(rng, big, false); }
    else if (k <= 5) { printf("kind solve-straight\n"); detail::topoSolveHistory(rng, big, true); }
    else if (k == 6) { printf("kind simple-bend\n"); detail::topoSimpleBend(rng, big); }
    else if (k <= 8) { printf("kind fd-addon\n"); detail::topoFdHistory(rng, big); }
    else { printf("kind fd-empty-addon\n"); detail::topoEmptyAddonHistory(rng, big); }
}
inline void dialectHist(vh::Rng &rng, bool big) {
    detail::lib("libdialect");
    detail::diaHistory(rng, big);
}

// ============================================================================================
// Known findings: deterministic minimal histories of documented-legal use on which the clean tree
// reports a sanitizer error / assertion failure / leak (or hangs).  NOT part of the four main classes.
// ============================================================================================

// faces.cpp:177  `double max_x = std::numeric_limits<double>::min();` (smallest POSITIVE double) -- when no
// node of the planarised core has a positive x coordinate no node is selected and
// `COLA_ASSERT(u != nullptr)` (faces.cpp:185) fails inside doHOLA.
inline void kf_dialect_faces_negative_x_assert(void) {
    using namespace detail;
    lib("libdialect");
    op("make_shared<Graph>; 4 nodes 30x30 at negative x; triangle n0-n1-n2 plus leaf n3 on n0");
    dialect::Graph_SP G = std::make_shared<dialect::Graph>();
    dialect::Node_SP a = G->addNode(-300, 0, 30, 30), b = G->addNode(-200, 0, 30, 30), c = G->addNode(-250, -100, 30, 30), d = G->addNode(-400, 50, 30, 30);
    G->addEdge(a, b); G->addEdge(b, c); G->addEdge(c, a); G->addEdge(a, d);
    op("doHOLA(G)");
    C15_LSAN_SCOPED_DISABLE;        // the independent leak of kf_dialect_hola_leak is not the subject here
    dialect::doHOLA(*G);
    op("returned");
}

// doHOLA on any graph with a cycle leaks (LSan: Graph::buildRootCluster graphs.cpp:674/677, ACALayout::completeOrdAlign
// aca.cpp:1286-1292, ACALayout::initOrdAlign aca.cpp:1227, SepCo::generateColaConstraints constraints.cpp:1000)
inline void kf_dialect_hola_leak(void) {
    using namespace detail;
    lib("libdialect");
    op("make_shared<Graph>; 4 nodes 30x30 at positive coordinates; 4-cycle");
    dialect::Graph_SP G = std::make_shared<dialect::Graph>();
    dialect::Node_SP a = G->addNode(300, 300, 30, 30), b = G->addNode(400, 300, 30, 30), c = G->addNode(400, 400, 30, 30), d = G->addNode(300, 400, 30, 30);
    G->addEdge(a, b); G->addEdge(b, c); G->addEdge(c, d); G->addEdge(d, a);
    op("doHOLA(G)");
    dialect::doHOLA(*G);
    op("drop graph (leak is reported by the next leak check)");
}

// peel() on a graph without edges: heap-buffer-overflow in NodeBuckets::takeLeaves (reads m_buckets[1] of a one-element vector)
inline void kf_dialect_peel_edgeless(void) {
    using namespace detail;
    lib("libdialect");
    op("make_shared<Graph>; one node");
    dialect::Graph_SP G = std::make_shared<dialect::Graph>();
    G->addNode(300, 300, 30, 30);
    op("peel(G)");
    dialect::Trees t = dialect::peel(*G);
    op("returned");
}

// ConstrainedMajorizationLayout::run()/runOnce() allocate gpX/gpY (cola.cpp:329,332 / 405,408) on every call of a
// constrained instance; only the last pair is freed by the destructor.  runOnce() exists to be called repeatedly.
inline void kf_cola_cml_rerun_leak(void) {
    using namespace detail;
    lib("libcola");
    vpsc::Rectangles rs;
    rs.push_back(new vpsc::Rectangle(0, 10, 0, 10)); rs.push_back(new vpsc::Rectangle(30, 40, 5, 15));
    std::vector<cola::Edge> es(1, std::make_pair(0u, 1u));
    cola::CompoundConstraints ccs;
    ccs.push_back(new cola::SeparationConstraint(vpsc::XDIM, 0, 1, 20));
    {
        op("ConstrainedMajorizationLayout(2 rects, 1 edge); setConstraints(&ccs)");
        cola::ConstrainedMajorizationLayout alg(rs, es, nullptr, 30);
        alg.setConstraints(&ccs);
        op("runOnce()"); alg.runOnce();
        op("runOnce()"); alg.runOnce();
        op("~ConstrainedMajorizationLayout");
    }
    delete ccs[0]; delete rs[0]; delete rs[1];
}

// CML: GradientProjection::destroyVPSC (gradient_projection.cpp ~436) clear()s the caller's UnsatisfiableConstraintInfos
// without deleting the entries of the previous iteration
inline void kf_cola_cml_unsatinfo_leak(void) {
    using namespace detail;
    lib("libcola");
    vpsc::Rectangles rs;
    rs.push_back(new vpsc::Rectangle(0, 10, 0, 10)); rs.push_back(new vpsc::Rectangle(30, 40, 5, 15));
    std::vector<cola::Edge> es(1, std::make_pair(0u, 1u));
    cola::CompoundConstraints ccs;
    ccs.push_back(new cola::SeparationConstraint(vpsc::XDIM, 0, 1, 20));
    ccs.push_back(new cola::SeparationConstraint(vpsc::XDIM, 1, 0, 20));
    cola::UnsatisfiableConstraintInfos ux, uy;
    cola::TestConvergence test(1e-9, 3);
    {
        op("ConstrainedMajorizationLayout; setConstraints(n0+20<=n1, n1+20<=n0); setUnsatisfiableConstraintInfo");
        cola::ConstrainedMajorizationLayout alg(rs, es, nullptr, 30, cola::StandardEdgeLengths, &test);
        alg.setConstraints(&ccs);
        alg.setUnsatisfiableConstraintInfo(&ux, &uy);
        op("run() (3 iterations)"); alg.run();
    }
    op("delete the infos the caller can still see, constraints, rectangles");
    for (size_t i = 0; i < ux.size(); ++i) delete ux[i];
    for (size_t i = 0; i < uy.size(); ++i) delete uy[i];
    delete ccs[0]; delete ccs[1]; delete rs[0]; delete rs[1];
}

// UnsatisfiableConstraintInfo::cc of an info about a library-generated non-overlap constraint points to a
// NonOverlapConstraints object that run() deleted before returning (colafd.cpp:369); toString() (the usage of
// libcola/tests/overlappingClusters02.cpp) then reads freed memory.
inline void kf_cola_unsatinfo_internal_cc_uaf(void) {
    using namespace detail;
    lib("libcola");
    vpsc::Rectangles rs;
    rs.push_back(new vpsc::Rectangle(0, 20, 0, 20)); rs.push_back(new vpsc::Rectangle(0, 20, 0, 20));
    std::vector<cola::Edge> es(1, std::make_pair(0u, 1u));
    cola::CompoundConstraints ccs;
    cola::AlignmentConstraint *ax = new cola::AlignmentConstraint(vpsc::XDIM), *ay = new cola::AlignmentConstraint(vpsc::YDIM);
    ax->addShape(0, 0); ax->addShape(1, 0); ay->addShape(0, 0); ay->addShape(1, 0);
    ccs.push_back(ax); ccs.push_back(ay);
    cola::UnsatisfiableConstraintInfos ux, uy;
    cola::TestConvergence test(1e-4, 2);
    {
        op("ConstrainedFDLayout(2 coincident rects); both aligned in x and in y; setAvoidNodeOverlaps(true); setUnsatisfiableConstraintInfo");
        cola::ConstrainedFDLayout alg(rs, es, 30, cola::StandardEdgeLengths, &test);
        alg.setConstraints(ccs);
        alg.setAvoidNodeOverlaps(true);
        alg.setUnsatisfiableConstraintInfo(&ux, &uy);
        op("run()"); alg.run();
        res("unsatisfiable_x", (long) ux.size()); res("unsatisfiable_y", (long) uy.size());
        for (size_t i = 0; i < ux.size(); ++i) { op("UnsatisfiableConstraintInfo::toString (x %zu)", i); res("len", (long) ux[i]->toString().size()); }
        for (size_t i = 0; i < uy.size(); ++i) { op("UnsatisfiableConstraintInfo::toString (y %zu)", i); res("len", (long) uy[i]->toString().size()); }
    }
    for (size_t i = 0; i < ux.size(); ++i) delete ux[i];
    for (size_t i = 0; i < uy.size(); ++i) delete uy[i];
    delete ax; delete ay; delete rs[0]; delete rs[1];
}

// toString() of Separation(alignments)/MultiSeparation/Distribution constraints reads AlignmentConstraint::variable
// (compound_constraints.cpp:805,956; VarIndexPair::indexL/R), a vpsc::Variable the layout deletes at the end of every
// iteration (colafd.cpp:1096)
inline void kf_cola_unsatinfo_alignment_var_uaf(void) {
    using namespace detail;
    lib("libcola");
    vpsc::Rectangles rs;
    rs.push_back(new vpsc::Rectangle(0, 10, 0, 10)); rs.push_back(new vpsc::Rectangle(30, 40, 5, 15));
    std::vector<cola::Edge> es(1, std::make_pair(0u, 1u));
    cola::CompoundConstraints ccs;
    cola::AlignmentConstraint *a1 = new cola::AlignmentConstraint(vpsc::XDIM), *a2 = new cola::AlignmentConstraint(vpsc::XDIM);
    a1->addShape(0, 0); a2->addShape(1, 0);
    cola::MultiSeparationConstraint *m1 = new cola::MultiSeparationConstraint(vpsc::XDIM, 20), *m2 = new cola::MultiSeparationConstraint(vpsc::XDIM, 20);
    m1->addAlignmentPair(a1, a2); m2->addAlignmentPair(a2, a1);
    ccs.push_back(a1); ccs.push_back(a2); ccs.push_back(m1); ccs.push_back(m2);
    cola::UnsatisfiableConstraintInfos ux, uy;
    cola::TestConvergence test(1e-4, 2);
    {
        op("ConstrainedFDLayout; alignments a1{n0}, a2{n1}; MultiSeparation(a1,a2,20) and MultiSeparation(a2,a1,20); setUnsatisfiableConstraintInfo");
        cola::ConstrainedFDLayout alg(rs, es, 30, cola::StandardEdgeLengths, &test);
        alg.setConstraints(ccs);
        alg.setUnsatisfiableConstraintInfo(&ux, &uy);
        op("run()"); alg.run();
        res("unsatisfiable_x", (long) ux.size());
        for (size_t i = 0; i < ux.size(); ++i) { op("UnsatisfiableConstraintInfo::toString (x %zu)", i); res("len", (long) ux[i]->toString().size()); }
    }
    for (size_t i = 0; i < ux.size(); ++i) delete ux[i];
    for (size_t i = 0; i < uy.size(); ++i) delete uy[i];
    for (size_t i = 0; i < ccs.size(); ++i) delete ccs[i];
    delete rs[0]; delete rs[1];
}

// makeFeasible() never returns (vpsc::IncSolver::satisfy, solve_VPSC.cpp:246-300, loops): FixedRelative(n1,n2) against an
// x-alignment of all three nodes, plus non-overlap.  HANGS: run under alarm().
inline void kf_cola_makefeasible_hang(void) {
    using namespace detail;
    lib("libcola");
    vpsc::Rectangles rs;
    rs.push_back(new vpsc::Rectangle(-7.25, 6.75, -4.5, 11.5));
    rs.push_back(new vpsc::Rectangle(23.75, 43.75, -73.25, -47.25));
    rs.push_back(new vpsc::Rectangle(21.5, 47.5, -53, -31));
    std::vector<cola::Edge> es; es.push_back(std::make_pair(0u, 1u)); es.push_back(std::make_pair(0u, 2u));
    cola::CompoundConstraints ccs;
    std::vector<unsigned> ids; ids.push_back(1); ids.push_back(2);
    ccs.push_back(new cola::FixedRelativeConstraint(rs, ids, false));
    ccs.push_back(new cola::SeparationConstraint(vpsc::YDIM, 0, 2, 4, true));
    cola::AlignmentConstraint *a = new cola::AlignmentConstraint(vpsc::XDIM, -11);
    a->addShape(2, 0); a->addShape(1, 0); a->addShape(0, 0);
    ccs.push_back(a);
    cola::TestConvergence test(1e-4, 5);
    {
        op("ConstrainedFDLayout(3 rects); FixedRelative(1,2), n0+4==n2 (y), x-alignment of 0,1,2; setAvoidNodeOverlaps(true, {exempt pair}); neighbour stress");
        cola::ConstrainedFDLayout alg(rs, es, 30, cola::StandardEdgeLengths, &test);
        alg.setConstraints(ccs);
        cola::ListOfNodeIndexes groups; cola::NodeIndexes grp; grp.push_back(0); grp.push_back(1); groups.push_back(grp);
        alg.setAvoidNodeOverlaps(true, groups);
        alg.setUseNeighbourStress(true);
        op("makeFeasible()");
        alg.makeFeasible();
        op("returned");
    }
    for (size_t i = 0; i < ccs.size(); ++i) delete ccs[i];
    for (size_t i = 0; i < rs.size(); ++i) delete rs[i];
}

// IncSolver::addConstraint as documented ("Adds a constraint to the existing VPSC solver") without also pushing the
// constraint onto the caller's vector: satisfy() indexes that vector up to the solver's own count m (solve_VPSC.cpp:313)
inline void kf_vpsc_addconstraint_oob(void) {
    using namespace detail;
    lib("libvpsc");
    vpsc::Variables vs; vs.push_back(new vpsc::Variable(0, 0)); vs.push_back(new vpsc::Variable(1, 1)); vs.push_back(new vpsc::Variable(2, 2));
    vpsc::Constraints cs(1, nullptr);
    cs[0] = new vpsc::Constraint(vs[0], vs[1], 3);
    vpsc::Constraint *extra = new vpsc::Constraint(vs[1], vs[2], 3);
    {
        op("IncSolver(3 vars, 1 constraint); addConstraint(extra) (not pushed onto the caller's vector)");
        vpsc::IncSolver s(vs, cs);
        s.addConstraint(extra);
        op("IncSolver::solve");
        s.solve();
    }
    delete extra; delete cs[0]; for (size_t i = 0; i < vs.size(); ++i) delete vs[i];
}

// static Solver on a cyclic system: satisfy() throws UnsatisfiedConstraint before `delete vList` (solve_VPSC.cpp:150/155)
inline void kf_vpsc_static_cycle_leak(void) {
    using namespace detail;
    lib("libvpsc");
    vpsc::Variables vs; vs.push_back(new vpsc::Variable(0, 0)); vs.push_back(new vpsc::Variable(1, 1));
    vpsc::Constraints cs; cs.push_back(new vpsc::Constraint(vs[0], vs[1], 2)); cs.push_back(new vpsc::Constraint(vs[1], vs[0], 2));
    {
        op("Solver(2 vars; v0+2<=v1, v1+2<=v0)");
        vpsc::Solver s(vs, cs);
        op("Solver::satisfy");
        guarded([&]() { s.satisfy(); });
    }
    delete cs[0]; delete cs[1]; delete vs[0]; delete vs[1];
}

// C13's witness: straight edge n0-n2, node 1 shares scan lines with end node 0; dragging node 2 sweeps the segment over
// node 1 and solve() fails `Assertion false` in NoIntersection::operator() (topology_graph.cpp:468)
inline void kf_topology_endnode_visibility_assert(void) {
    using namespace detail;
    lib("libtopology");
    topology::FILELog::ReportingLevel() = topology::logERROR;
    TopoScene sc;
    sc.addNode(0, 20, 0, 20); sc.addNode(22, 35, 5, 18); sc.addNode(-40, -20, 40, 60);
    topology::EdgePoints eps;
    eps.push_back(new topology::EdgePoint(sc.nodes[0], topology::EdgePoint::CENTRE));
    eps.push_back(new topology::EdgePoint(sc.nodes[2], topology::EdgePoint::CENTRE));
    sc.edges.push_back(new topology::Edge(0, 40, eps)); ++sc.ea;
    vpsc::Variables vs; vpsc::Constraints cs;
    for (unsigned i = 0; i < 3; ++i) vs.push_back(new vpsc::Variable(i, sc.rs[i]->getCentreX()));
    topology::setNodeVariables(sc.nodes, vs);
    {
        op("TopologyConstraints(XDIM); desired x of node 2 = 100 (weight 10000)");
        topology::TopologyConstraints t(vpsc::XDIM, sc.nodes, sc.edges, nullptr, vs, cs);
        vs[2]->desiredPosition = 100; vs[2]->weight = 10000;
        int loop = 20; bool again;
        do { op("TopologyConstraints::solve"); again = t.solve(); } while (again && --loop > 0);
    }
    for (size_t i = 0; i < cs.size(); ++i) delete cs[i];
    for (size_t i = 0; i < vs.size(); ++i) delete vs[i];
    sc.teardown();
}

typedef void (*KnownFindingFn)(void);
struct KnownFinding { const char *name; KnownFindingFn fn; };
inline const KnownFinding *knownFindings(size_t *count) {
    static const KnownFinding t[] = {
        {"dialect_faces_negative_x_assert", kf_dialect_faces_negative_x_assert},
        {"dialect_hola_leak", kf_dialect_hola_leak},
        {"dialect_peel_edgeless", kf_dialect_peel_edgeless},
        {"cola_cml_rerun_leak", kf_cola_cml_rerun_leak},
        {"cola_cml_unsatinfo_leak", kf_cola_cml_unsatinfo_leak},
        {"cola_unsatinfo_internal_cc_uaf", kf_cola_unsatinfo_internal_cc_uaf},
        {"cola_unsatinfo_alignment_var_uaf", kf_cola_unsatinfo_alignment_var_uaf},
        {"cola_makefeasible_hang", kf_cola_makefeasible_hang},
        {"vpsc_addconstraint_oob", kf_vpsc_addconstraint_oob},
        {"vpsc_static_cycle_leak", kf_vpsc_static_cycle_leak},
        {"topology_endnode_visibility_assert", kf_topology_endnode_visibility_assert},
    };
    if (count) *count = sizeof t / sizeof t[0];
    return t;
}
inline bool runKnownFinding(const char *name) {
    size_t n; const KnownFinding *t = knownFindings(&n);
    for (size_t i = 0; i < n; ++i) if (std::string(name) == t[i].name) { t[i].fn(); return true; }
    return false;
}

} // namespace c15
#endif
