// C01 correspondence harness: VPSC solvers (vpsc::IncSolver, Avoid::IncSolver, vpsc::Solver)
// vs the Lean model.  One case = one problem (variables + separation constraints) together with
// a history of add/move/satisfy/solve operations, executed on ONE implementation.
//
// Case schedule: case k -> group g = k/3, r = k%3.  The problem + history is a pure function of
// (seed, tier, g); r selects the implementation: 0 vpsc-inc, 1 avoid-inc (identical input),
// 2 vpsc-static (same variables/constraints, init=M, one op; skipped -- a hole in the k
// numbering -- when the problem has an equality constraint or a directed cycle; in the default
// mode also when some variable has a non-unit scale, see heldBack()).
// Groups 0..E-1 are the exhaustive-small block (independent of the seed), random groups follow.
//
// Options: --seed S --tier quick|thorough --only K --scale M (random budget multiplier)
//          --n N (number of random groups)
//          --mode risky: emit exactly the cases that the default stream holds back because the
//          real library asserts there (see heldBack()); the k numbering is the same in both modes,
//          so `--mode risky --only K` replays such a case.
#include "common.h"
#include <unistd.h>
#include <map>
#if defined(__SANITIZE_ADDRESS__)
#include <sanitizer/lsan_interface.h>
#define C01_LSAN_DISABLE __lsan::ScopedDisabler c01_lsan_disabler
#else
#define C01_LSAN_DISABLE do {} while (0)
#endif
#include "libvpsc/solve_VPSC.h"
#include "libvpsc/variable.h"
#include "libvpsc/constraint.h"
#include "libvpsc/exceptions.h"
#include "libavoid/vpsc.h"

namespace {

// ------------------------------------------------------------------------------ problem model
struct PCon { int l, r; double gap; int eq; };
enum OpKind { OP_ADD, OP_MOVE, OP_SATISFY, OP_SOLVE };
struct POp { OpKind kind; int idx; double val; };
struct Problem {
    std::string tag;
    int n;
    std::vector<double> des, wt, sc;
    std::vector<PCon> cons;
    int m0;                 // constraints 0..m0-1 go to the constructor
    std::vector<POp> ops;   // history for the incremental solvers
    bool staticSolve;       // op used for the static solver: solve (true) or satisfy (false)
    bool riskyClass;        // whole class held back for --mode risky
    Problem() : n(0), m0(0), staticSolve(true), riskyClass(false) {}
    void setN(int nn) { n = nn; des.assign(n, 0.0); wt.assign(n, 1.0); sc.assign(n, 1.0); }
};

static bool hasScale(const Problem &p) {
    for (int i = 0; i < p.n; ++i) if (p.sc[i] != 1.0) return true;
    return false;
}
static bool hasEquality(const Problem &p) {
    for (size_t j = 0; j < p.cons.size(); ++j) if (p.cons[j].eq) return true;
    return false;
}
// directed cycle (self loops included) in the constraint graph: Kahn's algorithm
static bool hasCycle(const Problem &p) {
    std::vector<int> indeg(p.n, 0);
    std::vector<std::vector<int> > out(p.n);
    for (size_t j = 0; j < p.cons.size(); ++j) {
        if (p.cons[j].l == p.cons[j].r) return true;
        out[p.cons[j].l].push_back(p.cons[j].r);
        indeg[p.cons[j].r]++;
    }
    std::vector<int> st;
    for (int i = 0; i < p.n; ++i) if (!indeg[i]) st.push_back(i);
    int seen = 0;
    while (!st.empty()) {
        int u = st.back(); st.pop_back(); ++seen;
        for (size_t e = 0; e < out[u].size(); ++e) if (--indeg[out[u][e]] == 0) st.push_back(out[u][e]);
    }
    return seen != p.n;
}

// ------------------------------------------------------------------------------ value generators
struct Style {
    bool tiny;       // desired in {0,1,2}, gaps in {-1,0,1,2}
    int fracPct;     // percentage of "generic" k/2^j values (the rest are small integers)
    bool wild;       // wild weights
    bool scaled;     // non-unit scales
    bool fine;       // small integers + k/1024: slacks of about 1e-3 are frequent (tolerance mutants)
    Style() : tiny(false), fracPct(85), wild(false), scaled(false), fine(false) {}
};

static double genDesired(vh::Rng &r, const Style &s) {
    if (s.tiny) return (double) r.range(0, 2);
    if (s.fine) return (double) r.range(-6, 6) + (double) r.range(-3, 3) / 1024.0;
    if (r.range(0, 99) >= s.fracPct) return (double) r.range(-20, 20);
    int j = (int) r.range(1, 6);
    long lim = std::min(4096L, 20L << j);
    return (double) r.range(-lim, lim) / (double) (1L << j);
}
// negPct = percentage of non-positive gaps (a third of those are exactly 0)
static double genGap(vh::Rng &r, const Style &s, int negPct) {
    if (s.tiny) return (double) r.range(-1, 2);
    if (s.fine) return (double) r.range(negPct >= 50 ? -3 : -1, 4) + (double) r.range(-3, 3) / 1024.0;
    bool neg = r.range(0, 99) < negPct;
    bool integer = r.range(0, 99) >= s.fracPct;
    if (neg) {
        if (r.coin(1, 3)) return 0.0;
        return integer ? -(double) r.range(1, 6) : -(double) r.range(1, 96) / 16.0;
    }
    return integer ? (double) r.range(1, 10) : (double) r.range(1, 160) / 16.0;
}
static void genVarData(vh::Rng &r, Problem &p, const Style &s, bool keepDesired = false) {
    static const double W[8] = {1, 1, 1, 2, 7, 1000, 1.0 / 1024, 0.5};
    static const double S[6] = {1, 2, 0.5, 3, 1, 1};
    for (int i = 0; i < p.n; ++i) {
        if (!keepDesired) p.des[i] = genDesired(r, s);
        p.wt[i] = s.wild ? W[r.range(0, 7)] : 1.0;
        p.sc[i] = s.scaled ? S[r.range(0, 5)] : 1.0;
    }
    if (s.scaled) {                 // make sure the scaled code path is really taken
        bool any = false;
        for (int i = 0; i < p.n; ++i) any |= (p.sc[i] != 1.0);
        if (!any && p.n > 0) p.sc[r.range(0, p.n - 1)] = r.coin() ? 2.0 : 0.5;
    }
}
static std::vector<int> randomPerm(vh::Rng &r, int n) {
    std::vector<int> o(n);
    for (int i = 0; i < n; ++i) o[i] = i;
    r.shuffle(o);
    return o;
}

// ------------------------------------------------------------------------------ structures
// m random DAG edges order[a] -> order[b] (a<b).  Positions in [excLo,excHi) are never linked
// to each other (they host a cycle that is added separately).  15% of the edges are parallel
// copies of an earlier edge with a fresh gap.
static void genDagEdges(vh::Rng &r, Problem &p, const Style &s, const std::vector<int> &order,
                        int m, int negPct, int excLo = -1, int excHi = -1) {
    int n = (int) order.size();
    if (n < 2) return;
    size_t first = p.cons.size();
    for (int e = 0; e < m; ++e) {
        if (p.cons.size() > first && r.coin(15, 100)) {
            PCon c = p.cons[first + r.next() % (p.cons.size() - first)];
            c.gap = genGap(r, s, negPct);
            p.cons.push_back(c);
            continue;
        }
        for (int attempt = 0; attempt < 20; ++attempt) {
            int a = (int) r.range(0, n - 1), b = (int) r.range(0, n - 1);
            if (a == b) continue;
            if (a > b) std::swap(a, b);
            if (a >= excLo && a < excHi && b >= excLo && b < excHi) continue;
            PCon c = {order[a], order[b], genGap(r, s, negPct), 0};
            p.cons.push_back(c);
            break;
        }
    }
}
// random multigraph: cycles allowed, self loops with probability 2%
static void genMultiEdges(vh::Rng &r, Problem &p, const Style &s, int m, int negPct) {
    for (int e = 0; e < m; ++e) {
        int l = (int) r.range(0, p.n - 1), rr = (int) r.range(0, p.n - 1);
        bool self = r.coin(2, 100);
        if (self) rr = l;
        else if (p.n < 2) continue;
        else while (rr == l) rr = (int) r.range(0, p.n - 1);
        PCon c = {l, rr, genGap(r, s, negPct), 0};
        p.cons.push_back(c);
    }
}
// k-cycle over vars[0..k-1] whose gaps sum to `total` (all values are multiples of 1/16)
static void genCycle(vh::Rng &r, Problem &p, const std::vector<int> &vars, double total, int eq) {
    int k = (int) vars.size();
    double sum = 0;
    for (int i = 0; i < k; ++i) {
        double g;
        if (i + 1 < k) {
            g = r.coin(1, 3) ? (double) r.range(-6, 10) : (double) r.range(-96, 160) / 16.0;
            sum += g;
        } else g = total - sum;
        PCon c = {vars[i], vars[(i + 1) % k], g, eq};
        p.cons.push_back(c);
    }
}

// ------------------------------------------------------------------------------ histories
static void genHistory(vh::Rng &r, Problem &p, const Style &s) {
    int M = (int) p.cons.size();
    p.ops.clear();
    if (r.coin(40, 100)) {
        p.m0 = M;
        POp o = {r.coin(60, 100) ? OP_SOLVE : OP_SATISFY, 0, 0.0};
        p.ops.push_back(o);
    } else {
        int R = (int) r.range(1, 6);
        int rem = r.coin(15, 100) ? M : std::min(M, (int) r.range(0, 3 * R));
        p.m0 = M - rem;
        int next = p.m0;
        for (int round = 0; round < R; ++round) {
            bool last = (round == R - 1);
            bool doAdd = (next < M) && (last || r.coin(60, 100));
            if (doAdd) {
                int cnt = last ? (M - next) : std::min(M - next, (int) r.range(0, 3));
                for (int c = 0; c < cnt; ++c) { POp o = {OP_ADD, next++, 0.0}; p.ops.push_back(o); }
            } else {
                int cnt = (int) r.range(0, p.n);
                std::vector<int> idx = randomPerm(r, p.n);
                for (int c = 0; c < cnt; ++c) { POp o = {OP_MOVE, idx[c], genDesired(r, s)}; p.ops.push_back(o); }
            }
            POp o = {r.coin(60, 100) ? OP_SOLVE : OP_SATISFY, 0, 0.0};
            p.ops.push_back(o);
        }
    }
    p.staticSolve = r.coin(60, 100);
}

// ------------------------------------------------------------------------------ random classes
enum Base { B_DAG, B_CHAIN, B_STAR, B_MULTI, B_CYC_NEG, B_CYC_ZERO, B_CYC_POS, B_CYC_ANY,
            B_TINY, B_BIG };
struct ClassRow {
    const char *name; Base base;
    bool eq, scaled, wild;
    int wQuick, wThorough;
    bool risky;          // all three implementations emitted only with --mode risky
};
static const ClassRow CLASSES[] = {
    // name           base        eq     scaled wild   wq  wt  risky
    {"dag",           B_DAG,      false, false, false, 14, 14, false},
    {"chain",         B_CHAIN,    false, false, false,  6,  6, false},
    {"star",          B_STAR,     false, false, false,  5,  5, false},
    {"multi",         B_MULTI,    false, false, false, 14, 14, false},
    {"cyc-neg",       B_CYC_NEG,  false, false, false,  5,  5, false},
    {"cyc-zero",      B_CYC_ZERO, false, false, false,  5,  5, false},
    {"cyc-pos",       B_CYC_POS,  false, false, false,  7,  7, false},
    {"eq-dag",        B_DAG,      true,  false, false,  6,  6, false},
    {"eq-multi",      B_MULTI,    true,  false, false,  6,  6, false},
    {"scaled-dag",    B_DAG,      false, true,  false,  5,  5, false},
    {"scaled-multi",  B_MULTI,    false, true,  false,  5,  5, false},
    {"scaled-cyc",    B_CYC_ANY,  false, true,  false,  4,  4, false},
    {"weights-dag",   B_DAG,      false, false, true,   5,  5, false},
    {"weights-multi", B_MULTI,    false, false, true,   5,  5, false},
    {"tiny",          B_TINY,     false, false, false,  8,  6, false},
    {"big",           B_BIG,      false, false, false,  0,  2, false},
    {"fine-dag",      B_DAG,      false, false, false,  4,  4, false},
    {"fine-multi",    B_MULTI,    false, false, false,  4,  4, false},
    {"fine-eq-multi", B_MULTI,    true,  false, false,  2,  2, false},
    // makeFeasible-like use (libcola/colafd.cpp): mostly equalities, added one at a time to a live
    // solver with a satisfy() after each addConstraint
    {"eq-incr",       B_MULTI,    true,  false, false,  4,  4, false},
    {"eq-incr-dag",   B_DAG,      true,  false, false,  3,  3, false},
    {"eq-incr-scaled",B_MULTI,    true,  true,  false,  2,  2, false},
};
static const int NCLASSES = sizeof(CLASSES) / sizeof(CLASSES[0]);

static int pickN(vh::Rng &r, bool thorough, int minN) {
    if (thorough && r.coin(40, 100)) return (int) r.range(13, 60);
    return (int) r.range(minN, 12);
}

static void addEqualityExtras(vh::Rng &r, Problem &p, const Style &s) {
    for (size_t j = 0; j < p.cons.size(); ++j) p.cons[j].eq = r.coin(30, 100) ? 1 : 0;
    std::vector<int> eqs;
    for (size_t j = 0; j < p.cons.size(); ++j) if (p.cons[j].eq) eqs.push_back((int) j);
    if (!eqs.empty() && r.coin(40, 100)) {       // redundant copy of an equality
        PCon c = p.cons[eqs[r.next() % eqs.size()]];
        switch (r.range(0, 3)) {
        case 0: break;                                                    // same pair, same gap
        case 1: c.gap += (double) r.range(1, 32) / 16.0; break;          // inconsistent
        case 2: std::swap(c.l, c.r); c.gap = -c.gap; break;              // reversed, consistent
        default: c.eq = 0; c.gap += (double) r.range(-16, 16) / 16.0; break; // inequality on same pair
        }
        p.cons.insert(p.cons.begin() + r.range(0, (long) p.cons.size()), c);
    }
    if (p.n >= 2 && r.coin(25, 100)) {             // equality cycle, consistent or not
        int k = (int) r.range(2, std::min(4, p.n));
        std::vector<int> o = randomPerm(r, p.n);
        o.resize(k);
        double total = r.coin() ? 0.0 : (double) r.range(-32, 32) / 16.0;
        genCycle(r, p, o, total, 1);
    }
    r.shuffle(p.cons);
}

static Problem genRandom(uint64_t seed, long g, bool thorough) {
    vh::Rng r = vh::caseRng(seed, (uint64_t) g);
    // class choice from the tier's weight table
    int tot = 0;
    for (int c = 0; c < NCLASSES; ++c) tot += thorough ? CLASSES[c].wThorough : CLASSES[c].wQuick;
    Problem p;
    long w = r.range(0, tot - 1);
    int ci = 0;
    for (int c = 0; c < NCLASSES; ++c) {
        int wc = thorough ? CLASSES[c].wThorough : CLASSES[c].wQuick;
        if (w < wc) { ci = c; break; }
        w -= wc;
    }
    const ClassRow &cl = CLASSES[ci];
    p.tag = cl.name;
    p.riskyClass = cl.risky;
    Style s;
    s.scaled = cl.scaled; s.wild = cl.wild;
    s.fine = (p.tag.compare(0, 5, "fine-") == 0);
    Base base = cl.base;
    if (base == B_CYC_ANY) {
        static const Base B3[3] = {B_CYC_NEG, B_CYC_ZERO, B_CYC_POS};
        static const char *N3[3] = {"-neg", "-zero", "-pos"};
        int w3 = (int) r.range(0, 2);
        base = B3[w3]; p.tag += N3[w3];
    }
    bool keepDesired = false;
    switch (base) {
    case B_DAG: {
        p.setN(pickN(r, thorough, 1));
        genDagEdges(r, p, s, randomPerm(r, p.n), (int) r.range(0, 3 * p.n), 20);
        break; }
    case B_MULTI: {
        p.setN(pickN(r, thorough, 1));
        genMultiEdges(r, p, s, (int) r.range(0, 3 * p.n), 50);
        break; }
    case B_CHAIN: {
        p.setN(pickN(r, thorough, 2));
        std::vector<int> o = randomPerm(r, p.n);
        if (r.coin()) std::sort(o.begin(), o.end());
        for (int i = 0; i + 1 < p.n; ++i) { PCon c = {o[i], o[i + 1], genGap(r, s, 10), 0}; p.cons.push_back(c); }
        for (int i = 0; i + 2 < p.n; ++i) if (r.coin(20, 100)) { PCon c = {o[i], o[i + 2], genGap(r, s, 10), 0}; p.cons.push_back(c); }
        double b0 = genDesired(r, s), step = (double) r.range(1, 64) / 16.0;
        for (int i = 0; i < p.n; ++i) p.des[o[i]] = b0 - i * step + (double) r.range(-8, 8) / 16.0;
        keepDesired = true;
        if (r.coin()) r.shuffle(p.cons);
        break; }
    case B_STAR: {
        p.setN(pickN(r, thorough, 2));
        std::vector<int> o = randomPerm(r, p.n);
        int kind = (int) r.range(0, 2);           // 0 out-star, 1 in-star, 2 mixed
        double b0 = genDesired(r, s);
        p.des[o[0]] = b0;
        for (int i = 1; i < p.n; ++i) {
            bool outward = kind == 0 || (kind == 2 && r.coin());
            double d = (double) r.range(0, 64) / 16.0;
            if (outward) { PCon c = {o[0], o[i], genGap(r, s, 10), 0}; p.cons.push_back(c); p.des[o[i]] = b0 - d; }
            else         { PCon c = {o[i], o[0], genGap(r, s, 10), 0}; p.cons.push_back(c); p.des[o[i]] = b0 + d; }
            if (r.coin(10, 100)) { PCon c = p.cons.back(); c.gap = genGap(r, s, 10); p.cons.push_back(c); }
        }
        keepDesired = true;
        break; }
    case B_CYC_NEG: case B_CYC_ZERO: case B_CYC_POS: {
        p.setN(pickN(r, thorough, 2));
        int k = (int) r.range(2, std::min(6, p.n));
        std::vector<int> o = randomPerm(r, p.n);
        int st = (int) r.range(0, p.n - k);
        genDagEdges(r, p, s, o, (int) r.range(0, 2 * p.n), 20, st, st + k);
        std::vector<int> cyc(o.begin() + st, o.begin() + st + k);
        double margin = (double) r.range(1, 48) / 16.0;
        genCycle(r, p, cyc, base == B_CYC_NEG ? -margin : base == B_CYC_ZERO ? 0.0 : margin, 0);
        r.shuffle(p.cons);
        break; }
    case B_TINY: {
        s.tiny = true;
        p.setN((int) r.range(1, 4));
        genMultiEdges(r, p, s, (int) r.range(0, 2 * p.n + 1), 0);
        if (r.coin(25, 100)) {
            p.tag += "-eq";
            for (size_t j = 0; j < p.cons.size(); ++j) p.cons[j].eq = r.coin(25, 100) ? 1 : 0;
        }
        break; }
    case B_BIG: {
        p.setN((int) r.range(61, 300));
        std::vector<int> o = randomPerm(r, p.n);
        if (r.coin()) {
            p.tag += "-dag";
            genDagEdges(r, p, s, o, (int) r.range(p.n / 2, 3 * p.n / 2), 20);
        } else {
            p.tag += "-chain";
            for (int i = 0; i + 1 < p.n; ++i) if (r.coin(90, 100)) { PCon c = {o[i], o[i + 1], genGap(r, s, 10), 0}; p.cons.push_back(c); }
            double b0 = genDesired(r, s), step = (double) r.range(1, 16) / 16.0;
            for (int i = 0; i < p.n; ++i) p.des[o[i]] = b0 - i * step + (double) r.range(-8, 8) / 16.0;
            keepDesired = true;
            r.shuffle(p.cons);
        }
        break; }
    default: break;
    }
    genVarData(r, p, s, keepDesired);
    if (cl.eq) addEqualityExtras(r, p, s);
    genHistory(r, p, s);
    if (p.tag.compare(0, 7, "eq-incr") == 0) {
        int pct = (int) r.range(50, 100);
        for (size_t j = 0; j < p.cons.size(); ++j) p.cons[j].eq = r.coin(pct, 100) ? 1 : 0;
        if (r.coin(60, 100)) {
            // consistent (hence highly redundant) equalities: gaps read off a hidden placement, as the
            // alignment/distribution guidelines of libcola produce them; inequalities are mostly loose
            // w.r.t. the hidden placement, some tight, some contradicting it
            p.tag += "-cons";
            std::vector<double> hid(p.n);
            for (int i = 0; i < p.n; ++i) hid[i] = (double) r.range(-160, 160) / 8.0;
            for (size_t j = 0; j < p.cons.size(); ++j) {
                PCon &c = p.cons[j];
                double d = (hid[c.r] * p.sc[c.r]) - (hid[c.l] * p.sc[c.l]);
                if (c.eq) c.gap = d;
                else {
                    long w = r.range(0, 9);
                    c.gap = (w < 6) ? d - (double) r.range(0, 64) / 8.0 : (w < 8) ? d : d + (double) r.range(1, 32) / 8.0;
                }
            }
        }
        int M = (int) p.cons.size();
        p.m0 = std::min(M, (int) r.range(0, 2));
        p.ops.clear();
        if (p.m0 == M) { POp o = {OP_SATISFY, 0, 0.0}; p.ops.push_back(o); }
        for (int j = p.m0; j < M; ++j) {
            POp a = {OP_ADD, j, 0.0}; p.ops.push_back(a);
            POp o = {r.coin(85, 100) ? OP_SATISFY : OP_SOLVE, 0, 0.0}; p.ops.push_back(o);
        }
    }
    return p;
}


// ------------------------------------------------------------------------------ extension block
// Groups G .. G+X-1 (after the exhaustive and the random block, so that the numbering of the older
// cases is unchanged).  Group kind by (g-G)%4:
//   0,1,2 : static-solver classes (only r=2 is emitted), built to reach what the random DAGs rarely
//           reach: out-of-date time stamps at a heap root, internal constraints in heaps, merges in both
//           directions in mergeLeft AND mergeRight, refine splits, several refine rounds, weights
//   3     : `eq-sameblock` histories for the incremental solvers (r=0,1): an equality is added between
//           two variables of ONE block that holds several stretched inequalities
static double q16(vh::Rng &r, long lo, long hi) { return (double) r.range(lo, hi) / 16.0; }

// the "stale" motif on fresh variables u,w,x,v:  u->x, u->w (in this order in u's out list), x->v, w->v;
// w is processed (its in-heap built) before x merges with u, and v then merges with w: u->w is out of
// date at the root of w's heap.
static void addStaleMotif(vh::Rng &r, Problem &p, int u, int w, int x, int v) {
    double base = q16(r, -320, 320);
    p.des[u] = base; p.des[w] = base + q16(r, 64, 320);
    p.des[x] = base - q16(r, 16, 320); p.des[v] = base - q16(r, 16, 320);
    PCon c0 = {u, x, q16(r, 1, 64), 0}, c1 = {u, w, q16(r, 1, 48), 0}, c2 = {x, v, q16(r, 1, 64), 0}, c3 = {w, v, q16(r, 1, 64), 0};
    p.cons.push_back(c0); p.cons.push_back(c1); p.cons.push_back(c2); p.cons.push_back(c3);
}

static Problem genStatic(uint64_t seed, long g, bool thorough) {
    vh::Rng r = vh::caseRng(seed, (uint64_t) g);
    Problem p;
    Style s;
    int kind = (int) r.range(0, 4);
    bool wild = r.coin(40, 100);
    static const double W[8] = {1, 1, 2, 4, 0.5, 8, 1000, 0.25};
    switch (kind) {
    case 0: {           // stale motifs (1..3 copies) + a few random forward edges between them
        p.tag = "st-stale";
        int copies = (int) r.range(1, thorough ? 4 : 3);
        int extra = (int) r.range(0, 3);
        p.setN(4 * copies + extra);
        std::vector<int> o = randomPerm(r, p.n);
        for (int i = 0; i < p.n; ++i) p.des[i] = q16(r, -320, 320);
        for (int c = 0; c < copies; ++c) addStaleMotif(r, p, o[4 * c], o[4 * c + 1], o[4 * c + 2], o[4 * c + 3]);
        int m = (int) r.range(0, p.n);
        for (int e = 0; e < m; ++e) {
            int a = (int) r.range(0, p.n - 1), b = (int) r.range(0, p.n - 1);
            if (a == b) continue;
            if (a > b) std::swap(a, b);
            if (a / 4 == b / 4 && a < 4 * copies) continue;      // keep the motifs' out-list order
            PCon c = {o[a], o[b], q16(r, -32, 96), 0};
            p.cons.push_back(c);
        }
        break; }
    case 1: {           // drag: random DAG, a few heavy far-out variables pull blocks apart again
        p.tag = "st-drag";
        p.setN((int) r.range(3, thorough ? 24 : 12));
        std::vector<int> o = randomPerm(r, p.n);
        genDagEdges(r, p, s, o, (int) r.range(p.n - 1, 2 * p.n), 10);
        for (int i = 0; i < p.n; ++i) p.des[i] = q16(r, -160, 160);
        wild = false;
        for (int i = 0; i < p.n; ++i) {
            if (r.coin(25, 100)) { p.wt[i] = r.coin() ? 1000.0 : 64.0; p.des[i] = (r.coin() ? 1.0 : -1.0) * (double) r.range(50, 200); }
            else p.wt[i] = W[r.range(0, 5)];
        }
        break; }
    case 2: {           // descending: desired positions against the constraint order -> long merge chains,
                        // diamonds -> internal constraints in merged heaps
        p.tag = "st-desc";
        p.setN((int) r.range(3, thorough ? 30 : 12));
        std::vector<int> o = randomPerm(r, p.n);
        genDagEdges(r, p, s, o, (int) r.range(p.n, 3 * p.n), 10);
        double step = q16(r, 0, 64);
        for (int i = 0; i < p.n; ++i) p.des[o[i]] = -i * step + q16(r, -64, 64);
        break; }
    case 3: {           // layered: blocks of very different sizes meet (both merge directions)
        p.tag = "st-layers";
        int L = (int) r.range(2, 4);
        std::vector<std::vector<int> > layer(L);
        int n = 0;
        for (int l = 0; l < L; ++l) { int sz = (int) r.range(1, l % 2 ? 2 : 5); for (int i = 0; i < sz; ++i) layer[l].push_back(n++); }
        p.setN(n);
        for (int l = 0; l + 1 < L; ++l)
            for (size_t a = 0; a < layer[l].size(); ++a)
                for (size_t b = 0; b < layer[l + 1].size(); ++b)
                    if (r.coin(70, 100)) { PCon c = {layer[l][a], layer[l + 1][b], q16(r, 1, 64), 0}; p.cons.push_back(c); }
        for (int l = 0; l < L; ++l) for (size_t a = 0; a + 1 < layer[l].size(); ++a)
            if (r.coin(60, 100)) { PCon c = {layer[l][a], layer[l][a + 1], q16(r, 1, 32), 0}; p.cons.push_back(c); }
        for (int l = 0; l < L; ++l) for (size_t a = 0; a < layer[l].size(); ++a)
            p.des[layer[l][a]] = -(double) l * q16(r, 0, 64) + q16(r, -32, 32);
        if (r.coin()) r.shuffle(p.cons);
        break; }
    default: {          // zig-zag chain with skip edges: alternating pulls, many refine rounds
        p.tag = "st-zigzag";
        p.setN((int) r.range(3, thorough ? 40 : 14));
        std::vector<int> o = randomPerm(r, p.n);
        for (int i = 0; i + 1 < p.n; ++i) { PCon c = {o[i], o[i + 1], q16(r, 1, 48), 0}; p.cons.push_back(c); }
        for (int i = 0; i + 2 < p.n; ++i) if (r.coin(25, 100)) { PCon c = {o[i], o[i + 2], q16(r, 1, 96), 0}; p.cons.push_back(c); }
        for (int i = 0; i < p.n; ++i) p.des[o[i]] = ((i / 2) % 2 ? 1.0 : -1.0) * q16(r, 0, 480) ;
        if (r.coin()) r.shuffle(p.cons);
        break; }
    }
    if (wild && kind != 1) for (int i = 0; i < p.n; ++i) p.wt[i] = W[r.range(0, 7)];
    p.m0 = (int) p.cons.size();
    p.staticSolve = r.coin(75, 100);
    POp o = {p.staticSolve ? OP_SOLVE : OP_SATISFY, 0, 0.0};
    p.ops.push_back(o);
    return p;
}

// `eq-sameblock`: hub m with k>=2 satellites a_i, a_i + g_i <= m (mirror: m + g_i <= a_i), all tight after
// the first satisfy; then a heavy far-away z drags m (z + G <= m, mirror: m + G <= z), so that every
// a_i -> m is stretched (negative multiplier) while only ONE of them is split by splitBlocks() per satisfy;
// then an equality between one satellite and m is added whose gap lies between g_j and the distance the
// two halves spring apart to; in either orientation; followed by satisfy/solve calls.
static Problem genEqSameBlock(uint64_t seed, long g, bool thorough) {
    vh::Rng r = vh::caseRng(seed, (uint64_t) g);
    Problem p;
    p.tag = "eq-sameblock";
    int k = (int) r.range(2, thorough ? 5 : 4);
    int extra = (int) r.range(0, 2);
    p.setN(k + 2 + extra);
    const int m = k, z = k + 1;
    bool mirror = r.coin();
    double sgn = mirror ? -1.0 : 1.0;
    std::vector<double> gi(k);
    for (int i = 0; i < k; ++i) {
        gi[i] = (double) r.range(1, 40);
        p.des[i] = sgn * (double) r.range(0, 8);          // satellites want to sit beyond m: tight
        PCon c = mirror ? PCon{m, i, gi[i], 0} : PCon{i, m, gi[i], 0};
        p.cons.push_back(c);
    }
    p.des[m] = 0; p.des[z] = 0; p.wt[z] = r.coin() ? 1000.0 : 64.0;
    for (int i = 0; i < extra; ++i) p.des[k + 2 + i] = (double) r.range(-20, 20);
    p.m0 = k;
    double G = (double) r.range(80, 240);
    PCon cz = mirror ? PCon{m, z, G, 0} : PCon{z, m, G, 0};
    int j = (int) r.range(0, k - 1);
    double ge = gi[j] + (double) r.range(1, 40);           // > g_j, < the spring distance (about G)
    bool flipE = r.coin(30, 100);
    PCon ce = mirror ? PCon{m, j, ge, 1} : PCon{j, m, ge, 1};
    if (flipE) { std::swap(ce.l, ce.r); ce.gap = -ce.gap; }
    p.cons.push_back(cz); p.cons.push_back(ce);
    for (int i = 0; i < extra; ++i) {                       // bystander inequalities, added at the end
        PCon c = {k + 2 + i, (int) r.range(0, k), (double) r.range(-10, 10), 0};
        if (r.coin()) std::swap(c.l, c.r);
        p.cons.push_back(c);
    }
    POp sat = {OP_SATISFY, 0, 0.0}, sol = {OP_SOLVE, 0, 0.0};
    p.ops.push_back(r.coin(80, 100) ? sat : sol);
    POp a1 = {OP_ADD, k, 0.0}; p.ops.push_back(a1);
    p.ops.push_back(r.coin(85, 100) ? sat : sol);          // one satisfy: z merged, satellites stretched
    if (r.coin(20, 100)) p.ops.push_back(sat);             // sometimes one more: one satellite already split off
    POp a2 = {OP_ADD, k + 1, 0.0}; p.ops.push_back(a2);
    p.ops.push_back(r.coin(75, 100) ? sat : sol);
    for (int i = 0; i < extra; ++i) { POp a = {OP_ADD, k + 2 + i, 0.0}; p.ops.push_back(a); }
    int tail = (int) r.range(0, 2);
    for (int i = 0; i < tail; ++i) p.ops.push_back(r.coin() ? sat : sol);
    if (extra > 0 && tail == 0) p.ops.push_back(sat);
    p.staticSolve = true;
    return p;
}

// ------------------------------------------------------------------------------ exhaustive block
// Level n: all multisets (non-decreasing index sequences) of k <= K (pair,gap) combos over the
// ordered pairs l != r, times a fixed list of desired-position patterns; weights = scales = 1,
// history = [solve].  A level larger than its cap is subsampled with a fixed stride that is
// coprime to the radices of the enumeration (so patterns/gaps keep rotating).
static uint64_t binom(uint64_t n, uint64_t k) {
    if (k > n) return 0;
    uint64_t b = 1;
    for (uint64_t i = 1; i <= k; ++i) b = b * (n - k + i) / i;
    return b;
}
static uint64_t multisets(uint64_t c, uint64_t k) { return k == 0 ? 1 : (c == 0 ? 0 : binom(c + k - 1, k)); }

static const double PAT1[][4] = {{0}};
static const double PAT2[][4] = {{0, 0}, {0, 1}, {1, 0}, {0, 3}, {3, 0}, {0.5, 0}};
static const double PAT3[][4] = {{0, 0, 0}, {0, 1, 2}, {2, 1, 0}, {1, 0, 2}, {0, 4, 1}, {3, 0, 3}, {0.5, 0, 1.25}};
static const double PAT4[][4] = {{0, 0, 0, 0}, {0, 1, 2, 3}, {3, 2, 1, 0}, {1, 0, 3, 2}, {0, 5, 1, 4}, {2, 0, 2, 0}, {0.25, 1.5, 0, 0.75}};

struct ExhLevel {
    int n, K, P; const double (*pat)[4];
    std::vector<double> gaps;
    std::vector<std::pair<int, int> > pairs;
    uint64_t c, total, stride, count;
};
struct Exh {
    std::vector<ExhLevel> levels;
    uint64_t count;
    explicit Exh(bool thorough) : count(0) {
        int N = thorough ? 4 : 3, K = thorough ? 4 : 3;
        static const double GQ[] = {-1, 1, 2}, GT[] = {-1, 0, 1, 2};
        uint64_t capTotal = thorough ? 40000 : 3000;
        for (int n = 1; n <= N; ++n) {
            ExhLevel L;
            L.n = n; L.K = K;
            if (n == 1) { L.pat = PAT1; L.P = 1; } else if (n == 2) { L.pat = PAT2; L.P = 6; }
            else if (n == 3) { L.pat = PAT3; L.P = 7; } else { L.pat = PAT4; L.P = 7; }
            L.gaps = thorough ? std::vector<double>(GT, GT + 4) : std::vector<double>(GQ, GQ + 3);
            for (int l = 0; l < n; ++l) for (int r = 0; r < n; ++r) if (l != r) L.pairs.push_back(std::make_pair(l, r));
            L.c = L.pairs.size() * L.gaps.size();
            L.total = 0;
            for (int k = 0; k <= K; ++k) L.total += multisets(L.c, k);
            L.total *= L.P;
            uint64_t cap = (n == N) ? capTotal - count : (n == 3 ? 12000 : L.total);
            L.stride = (L.total + cap - 1) / cap;
            while (L.stride > 1 && (L.stride % 2 == 0 || L.stride % 3 == 0 || L.stride % 7 == 0)) ++L.stride;
            L.count = (L.total + L.stride - 1) / L.stride;
            count += L.count;
            levels.push_back(L);
        }
    }
    Problem make(uint64_t g) const {
        size_t li = 0;
        while (g >= levels[li].count) { g -= levels[li].count; ++li; }
        const ExhLevel &L = levels[li];
        uint64_t idx = g * L.stride;
        Problem p;
        p.tag = "exh";
        p.setN(L.n);
        int pat = (int) (idx % L.P);
        uint64_t rank = idx / L.P;
        for (int i = 0; i < L.n; ++i) p.des[i] = L.pat[pat][i];
        int k = 0;
        while (rank >= multisets(L.c, k)) { rank -= multisets(L.c, k); ++k; }
        // unrank the multiset of size k (lexicographic, non-decreasing)
        uint64_t lo = 0;
        for (int pos = 0; pos < k; ++pos) {
            for (uint64_t v = lo; v < L.c; ++v) {
                uint64_t cnt = multisets(L.c - v, k - pos - 1);
                if (rank < cnt) {
                    PCon c = {L.pairs[v / L.gaps.size()].first, L.pairs[v / L.gaps.size()].second, L.gaps[v % L.gaps.size()], 0};
                    p.cons.push_back(c);
                    lo = v;
                    break;
                }
                rank -= cnt;
            }
        }
        p.m0 = (int) p.cons.size();
        POp o = {OP_SOLVE, 0, 0.0};
        p.ops.push_back(o);
        p.staticSolve = (g % 2 == 0);
        return p;
    }
};

// ------------------------------------------------------------------------------ implementations
struct VpscInc {
    typedef vpsc::Variable Var; typedef vpsc::Constraint Con; typedef vpsc::IncSolver Solver;
    static const char *impl() { return "vpsc-inc"; }
    static bool isStatic() { return false; }
    static void add(Solver &s, Con *c) { s.addConstraint(c); }
    static bool satisfy(Solver &s) { return s.satisfy(); }
    static bool solve(Solver &s) { return s.solve(); }
};
struct AvoidInc {
    typedef Avoid::Variable Var; typedef Avoid::Constraint Con; typedef Avoid::IncSolver Solver;
    static const char *impl() { return "avoid-inc"; }
    static bool isStatic() { return false; }
    static void add(Solver &s, Con *c) { s.addConstraint(c); }
    static bool satisfy(Solver &s) { return s.satisfy(); }
    static bool solve(Solver &s) { return s.solve(); }
};
struct VpscStatic {
    typedef vpsc::Variable Var; typedef vpsc::Constraint Con; typedef vpsc::Solver Solver;
    static const char *impl() { return "vpsc-static"; }
    static bool isStatic() { return true; }
    static void add(Solver &, Con *) { abort(); }           // the static solver has no addConstraint
    // vpsc::Solver::satisfy leaks its vList when it throws: known, excluded from leak checking
    static bool satisfy(Solver &s) { C01_LSAN_DISABLE; return s.satisfy(); }
    static bool solve(Solver &s) { C01_LSAN_DISABLE; return s.solve(); }
};

template <class T>
static void runCase(long k, const Problem &p, int m0, const std::vector<POp> &ops) {
    typedef typename T::Var Var;
    typedef typename T::Con Con;
    typedef typename T::Solver Solver;
    const int M = (int) p.cons.size();
    alarm(20);
    // ---- inputs
    vh::beginCase(k, p.tag.c_str());
    printf("impl %s\nn %d\n", T::impl(), p.n);
    for (int i = 0; i < p.n; ++i)
        printf("var %d %s %s %s\n", i, vh::hx(p.des[i]).c_str(), vh::hx(p.wt[i]).c_str(), vh::hx(p.sc[i]).c_str());
    printf("ncon %d\n", M);
    for (int j = 0; j < M; ++j)
        printf("con %d %d %d %s %d\n", j, p.cons[j].l, p.cons[j].r, vh::hx(p.cons[j].gap).c_str(), p.cons[j].eq);
    printf("init %d\n", m0);
    for (size_t t = 0; t < ops.size(); ++t) {
        switch (ops[t].kind) {
        case OP_ADD: printf("op %zu add %d\n", t, ops[t].idx); break;
        case OP_MOVE: printf("op %zu move %d %s\n", t, ops[t].idx, vh::hx(ops[t].val).c_str()); break;
        case OP_SATISFY: printf("op %zu satisfy\n", t); break;
        case OP_SOLVE: printf("op %zu solve\n", t); break;
        }
    }
    fflush(stdout);
    // ---- execution (caller idiom of libcola/colafd.cpp: the solver keeps references to vs/cs;
    //      a later constraint is pushed onto the very same vector and handed to addConstraint)
    std::vector<Var *> vs;
    std::vector<Con *> cs;
    for (int i = 0; i < p.n; ++i) {
        Var *v = new Var(i, p.des[i], p.wt[i], p.sc[i]);
        v->finalPosition = p.des[i];     // Avoid::Variable leaves it uninitialised
        vs.push_back(v);
    }
    for (int j = 0; j < m0; ++j)
        cs.push_back(new Con(vs[p.cons[j].l], vs[p.cons[j].r], p.cons[j].gap, p.cons[j].eq != 0));
    Solver *solver = new Solver(vs, cs);
    bool stop = false;
    for (size_t t = 0; t < ops.size() && !stop; ++t) {
        const POp &o = ops[t];
        if (o.kind == OP_ADD) {
            const PCon &pc = p.cons[o.idx];
            Con *c = new Con(vs[pc.l], vs[pc.r], pc.gap, pc.eq != 0);
            cs.push_back(c);
            T::add(*solver, c);
            continue;
        }
        if (o.kind == OP_MOVE) { vs[o.idx]->desiredPosition = o.val; continue; }
        const char *res = "ret";
        bool ret = false;
        try {
            ret = (o.kind == OP_SOLVE) ? T::solve(*solver) : T::satisfy(*solver);
        } catch (vpsc::UnsatisfiedConstraint &) { res = "threw-unsatisfied"; stop = true;
        } catch (Avoid::UnsatisfiedConstraint &) { res = "threw-unsatisfied"; stop = true;
        } catch (char *) { res = "threw-str"; stop = true;          // dangling pointer: never dereferenced
        } catch (const char *) { res = "threw-str"; stop = true;
        } catch (...) { res = "threw-other"; stop = true; }
        printf("out %zu %s %d\n", t, res, (!stop && ret) ? 1 : 0);
        printf("pos %zu", t);
        for (int i = 0; i < p.n; ++i) printf(" %s", vh::hx(vs[i]->finalPosition).c_str());
        printf("\n");
        std::string uns(M, '0'), act(M, '0');
        for (size_t j = 0; j < cs.size(); ++j) {
            if (cs[j]->unsatisfiable) uns[j] = '1';
            if (cs[j]->active) act[j] = '1';
        }
        printf("uns %zu %s\nact %zu %s\n", t, uns.c_str(), t, act.c_str());
        if (T::isStatic() && !stop) {
            // block partition: every variable's block named by the smallest variable id in it
            std::map<const void *, int> rep;
            for (int i = 0; i < p.n; ++i) {
                const void *b = (const void *) vs[i]->block;
                if (!rep.count(b)) rep[b] = i;
            }
            printf("sblk %zu", t);
            for (int i = 0; i < p.n; ++i) printf(" %d", rep[(const void *) vs[i]->block]);
            printf("\n");
        }
    }
    delete solver;
    for (size_t j = 0; j < cs.size(); ++j) delete cs[j];
    for (size_t i = 0; i < vs.size(); ++i) delete vs[i];
    vh::endCase();
    alarm(0);
}

// Cases on which the REAL library is known to assert/crash are kept out of the default stream
// (it must stay clean) and are emitted only -- and exclusively -- with --mode risky:
//  * vpsc-static on a problem with a non-unit scale: vpsc::Solver::solve() -> refine() can leave
//    a violated constraint inside a block and then fails
//    `COLA_ASSERT(cs[i]->slack()>ZERO_UPPERBOUND)` (solve_VPSC.cpp:194), e.g.
//    --seed 3 --tier thorough --mode risky --only 131684.
static bool heldBack(const Problem &p, int r) {
    // the static solver's satisfy() never splits, so it is safe (and tied to the model) on scaled systems too;
    // only solve() -> refine() -> Blocks::split has the scale defect
    return p.riskyClass || (r == 2 && hasScale(p) && p.staticSolve);
}

// --mode stdin: re-run case blocks given on stdin in the harness's own line format (the input lines
// CASE/impl/n/var/ncon/con/init/op; output lines of an earlier run are ignored).  Used to replay stored
// cases (corpus, minimised findings) independently of the generator's numbering.
static int runFromStdin() {
    char line[1 << 16];
    Problem p; std::string impl; long k = 0; int m0 = 0; std::vector<POp> ops; bool open = false;
    while (fgets(line, sizeof line, stdin)) {
        char kw[64] = {0};
        if (sscanf(line, "%63s", kw) != 1) continue;
        std::string w = kw;
        if (w == "CASE") {
            char tag[256] = {0};
            sscanf(line, "CASE %ld %255s", &k, tag);
            p = Problem(); p.tag = tag; ops.clear(); m0 = 0; impl.clear(); open = true;
        } else if (!open) continue;
        else if (w == "impl") { char b[64]; sscanf(line, "impl %63s", b); impl = b; }
        else if (w == "n") { int n; sscanf(line, "n %d", &n); p.setN(n); }
        else if (w == "var") {
            int i; char a[64], b[64], c[64];
            if (sscanf(line, "var %d %63s %63s %63s", &i, a, b, c) == 4 && i >= 0 && i < p.n) {
                p.des[i] = strtod(a, 0); p.wt[i] = strtod(b, 0); p.sc[i] = strtod(c, 0);
            }
        } else if (w == "con") {
            int j, l, r, eq; char g[64];
            if (sscanf(line, "con %d %d %d %63s %d", &j, &l, &r, g, &eq) == 5) {
                PCon c = {l, r, strtod(g, 0), eq}; p.cons.push_back(c);
            }
        } else if (w == "init") sscanf(line, "init %d", &m0);
        else if (w == "op") {
            long t; char kind[32] = {0}; int idx = 0; char val[64] = {0};
            int got = sscanf(line, "op %ld %31s %d %63s", &t, kind, &idx, val);
            std::string kd = kind;
            POp o = {OP_SOLVE, 0, 0.0};
            if (kd == "add") { o.kind = OP_ADD; o.idx = idx; }
            else if (kd == "move") { o.kind = OP_MOVE; o.idx = idx; o.val = got >= 4 ? strtod(val, 0) : 0.0; }
            else if (kd == "satisfy") o.kind = OP_SATISFY;
            ops.push_back(o);
        } else if (w == "END") {
            if (impl == "vpsc-inc") runCase<VpscInc>(k, p, m0, ops);
            else if (impl == "avoid-inc") runCase<AvoidInc>(k, p, m0, ops);
            else if (impl == "vpsc-static") runCase<VpscStatic>(k, p, m0, ops);
            open = false;
        }
    }
    return 0;
}

} // namespace

int main(int argc, char **argv) {
    vh::Args a = vh::parseArgs(argc, argv);
    if (a.mode == "stdin") return runFromStdin();
    const bool thorough = (a.tier == "thorough");
    const bool risky = (a.mode == "risky");
    Exh exh(thorough);
    const long E = (long) exh.count;
    long R = (thorough ? 6000 : 400) * a.scale;
    if (a.n >= 0) R = a.n;
    const long G = E + R;
    const long X = (thorough ? 3200 : 240) * a.scale;          // extension block, see genStatic / genEqSameBlock
    long gLo = 0, gHi = G + X;
    if (a.only >= 0) { gLo = a.only / 3; gHi = std::min(G + X, gLo + 1); }
    if (a.mode == "findings") {
        // Known-defect streams, NOT part of the default plan (the clean tree must stay quiet):
        //  tag static-eq     : static vpsc::Solver on an acyclic system that contains equalities
        //                      (the static solver ignores Constraint::equality and returns with
        //                      unflagged equalities violated)
        //  tag static-scaled : static vpsc::Solver with non-unit scales (Blocks::split copies posn
        //                      between blocks of different ps.scale; refine() can then assert/throw)
        for (long g = std::max(gLo, E); g < std::min(gHi, G); ++g) {
            Problem p = genRandom(a.seed, g, thorough);
            long k = 3 * g + 2;
            if (!a.want(k) || hasCycle(p)) continue;
            if (hasEquality(p)) p.tag = "static-eq";
            else if (hasScale(p)) p.tag = "static-scaled";
            else continue;
            POp o = {p.staticSolve ? OP_SOLVE : OP_SATISFY, 0, 0.0};
            runCase<VpscStatic>(k, p, (int) p.cons.size(), std::vector<POp>(1, o));
        }
        return 0;
    }
    for (long g = std::max(gLo, G); g < gHi && !risky; ++g) {     // extension block
        if ((g - G) % 4 == 3) {
            Problem p = genEqSameBlock(a.seed, g, thorough);
            if (a.want(3 * g)) runCase<VpscInc>(3 * g, p, p.m0, p.ops);
            if (a.want(3 * g + 1)) runCase<AvoidInc>(3 * g + 1, p, p.m0, p.ops);
        } else {
            Problem p = genStatic(a.seed, g, thorough);
            if (a.want(3 * g + 2)) runCase<VpscStatic>(3 * g + 2, p, p.m0, p.ops);
        }
    }
    gHi = std::min(gHi, G);
    for (long g = gLo; g < gHi; ++g) {
        if (risky && g < E) continue;           // nothing is held back in the exhaustive block
        Problem p = (g < E) ? exh.make((uint64_t) g) : genRandom(a.seed, g, thorough);
        for (int r = 0; r < 3; ++r) {
            long k = 3 * g + r;
            if (!a.want(k)) continue;
            if (heldBack(p, r) != risky) continue;
            if (r == 0) runCase<VpscInc>(k, p, p.m0, p.ops);
            else if (r == 1) runCase<AvoidInc>(k, p, p.m0, p.ops);
            else {
                if (hasEquality(p) || hasCycle(p)) continue;       // static solver: inequality DAGs only
                POp o = {p.staticSolve ? OP_SOLVE : OP_SATISFY, 0, 0.0};
                runCase<VpscStatic>(k, p, (int) p.cons.size(), std::vector<POp>(1, o));
            }
        }
    }
    return 0;
}
