// C11 harness, part "search": what every orthogonal A* search of a transaction was given and what it
// returned, observed through the library's own DebugHandler interface (no hook):
//   beginningSearchWithEndpoints(start, tar)  - called first thing in AStarPathPrivate::search: the
//        orthogonal visibility graph exactly as this search sees it is copied (every vertex of
//        Router::vertices: point, orthogVisPropFlags, VertID props; every orthogVisList entry in list
//        order: other end, getDist(), isDummyConnection(), isDisabled()) - including the temporary edges
//        dummy end vertex -> pin vertices that ConnEnd::assignPinVisibilityTo has just added and the
//        edges VertInf::setVisibleDirections has just disabled for a checkpoint leg;
//   updateConnectorRoute(conn, -1, -1)        - called at the end of ConnRef::generatePath: the connector
//        has (re)taken its pins (usePinVertex), route() is the clipped path.
// The result of a search is read from the pathNext pointers (as generateStandardPath /
// generateCheckpointsPath do) when the next event arrives.
// Lines (between the `route`/`disp` lines and `endstep`; events in the order they happened):
//   sbegin
//   ssearch <conn> <nverts|0> <src> <tar> <prevOfStart|-1> <lineSrc> <lineDst> <found> <plen> {v}*plen
//        nverts = 0: graph not dumped (sampled out / too large): indices are then meaningless
//   sgx/sgy/sgf/sgp <per vertex>      sga {<deg> {<to> <dist> <dummy> <disabled>}*deg}*nverts
//   sisolated <conn> <enabled edges out of src> <enabled edges into tar, whole graph> <src is lineRef->src()> <tar is lineRef->dst()>
//        a failed search one of whose ends has no edge (instead of ssearch)
//   srouted <conn> <npts> {x y}*
//   scross                             first progress callback of the crossing-detection phase
// The end-point list `possibleDstPinPoints()` is NOT dumped: the driver computes it from the model's
// pin state (Model/AStarPins.lean).
#pragma once
#include "libavoid/libavoid.h"
#include "libavoid/debughandler.h"
#include <algorithm>
#include <cstdarg>
#include <map>
#include <string>
#include <vector>

namespace c11s {

struct SVert { double x, y; unsigned flags; unsigned props; };
struct SEdge { int to; double dist; bool dummy, disabled; };

struct SearchTap : public Avoid::DebugHandler {
    Avoid::Router *router = nullptr;
    struct ConnInfo { Avoid::ConnRef *first; bool second; bool restricted; };   // connector, orthogonal, has direction-restricted checkpoints
    std::map<unsigned, ConnInfo> conns;
    long failedDumps = 0, failedDumpsRestricted = 0;    // per case
    long maxFailedDumps = 16, maxFailedDumpsRestricted = 2;
    long caseIdx = 0; long sampleEvery = 8; size_t maxVerts = 1500, maxVertsSampled = 350;   // a failed search is always dumped (up to maxVerts)
    std::string out;              // event lines of the current transaction
    long seq = 0;
    bool sawCross = false;
    // pending search
    bool pending = false;
    unsigned pConn = 0; Avoid::VertInf *pS = nullptr, *pT = nullptr;
    std::vector<SVert> vs; std::vector<SEdge> es; std::vector<size_t> off;   // edges of vertex u: es[off[u] .. off[u+1])
    std::vector<std::pair<const Avoid::VertInf *, int>> idx;                  // sorted by pointer
    int pSrc = -1, pTar = -1, pPrev = -1, pLineSrc = -1, pLineDst = -1;
    long nSearches = 0, nDumped = 0;
    bool enabled = true;
    unsigned lastSearchConn = 0;   // connector of the searches since the last `srouted` (0 = none)

    int at(const Avoid::VertInf *v) const {
        auto it = std::lower_bound(idx.begin(), idx.end(), std::make_pair(v, -1));
        return (it == idx.end() || it->first != v) ? -1 : it->second;
    }
    static void ap(std::string &t, const char *fmt, ...) {
        char buf[256]; va_list a; va_start(a, fmt); vsnprintf(buf, sizeof buf, fmt, a); va_end(a); t += buf;
    }
    void begin() { out = "sbegin\n"; seq = 0; sawCross = false; pending = false; }
    void crossing() { finalize(); if (!sawCross) { out += "scross\n"; sawCross = true; } }

    void finalize() {
        if (!pending) return;
        pending = false;
        // read the result back the way the callers of search() do: follow pathNext from the target
        std::vector<int> path; bool broken = false;
        const Avoid::VertInf *i = pT; size_t guard = vs.size() + 3;
        while (true) {
            int ii = i ? at(i) : -1;
            if (ii < 0 || path.size() > guard) { broken = true; break; }
            path.push_back(ii);
            if (i == pS) break;
            i = i->pathNext;
        }
        bool found = !broken && path.size() >= 2;
        if (found && path.size() == 2) {
            // generateStandardPath writes tar->pathNext = src as its fallback: a genuine 2-vertex path
            // needs an enabled edge src - tar
            bool edge = false;
            for (size_t j = off[pSrc]; j < off[pSrc + 1]; ++j) if (es[j].to == pTar && !es[j].disabled) edge = true;
            found = edge;
        }
        std::vector<int> rp(path.rbegin(), path.rend());
        if (!found) rp.clear();
        ++nSearches;
        bool sampled = ((caseIdx * 7 + seq) % sampleEvery) == 0;
        bool dump = found ? (sampled && vs.size() <= maxVertsSampled) : vs.size() <= maxVerts;
        bool restrictedConn = false;
        { auto c = conns.find(pConn); restrictedConn = c != conns.end() && c->second.restricted; }
        ++seq;
        if (!found) {
            // a search whose source has no enabled edge or into whose target no enabled edge leads (an end attached to a pin
            // class without a free pin gets no edge from assignPinVisibilityTo) fails before it starts: no graph needed
            // (Props/C11Search: isolated_source_no_route, no_enabled_edge_into_target_no_route)
            size_t sdeg = 0, tdeg = 0;        // enabled edges out of the source / into the target from anywhere
            for (size_t j = off[pSrc]; j < off[pSrc + 1]; ++j) if (!es[j].disabled) ++sdeg;
            for (size_t j = 0; j < es.size(); ++j) if (es[j].to == pTar && !es[j].disabled) ++tdeg;
            if (sdeg == 0 || tdeg == 0) {
                ap(out, "sisolated %d %zu %zu %d %d\n", (int) pConn - 1000, sdeg, tdeg, pSrc == pLineSrc ? 1 : 0, pTar == pLineDst ? 1 : 0);
                return;
            }
        }
        if (!found && dump) {
            // budget: failed legs of connectors with direction-restricted checkpoints are the rule (known class cp-dirs,
            // decided by the driver's existing logic): only the first few per case are dumped
            if (restrictedConn ? failedDumpsRestricted >= maxFailedDumpsRestricted : failedDumps >= maxFailedDumps) dump = false;
            else ++(restrictedConn ? failedDumpsRestricted : failedDumps);
        }
        ap(out, "ssearch %d %zu %d %d %d %d %d %d %zu", (int) pConn - 1000, dump ? vs.size() : (size_t) 0, pSrc, pTar, pPrev, pLineSrc, pLineDst,
           found ? 1 : 0, rp.size());
        for (int v : rp) ap(out, " %d", v);
        out += "\n";
        if (!dump) return;
        ++nDumped;
        out += "sgx"; for (auto &v : vs) ap(out, " %s", vh::hx(v.x).c_str()); out += "\n";
        out += "sgy"; for (auto &v : vs) ap(out, " %s", vh::hx(v.y).c_str()); out += "\n";
        out += "sgf"; for (auto &v : vs) ap(out, " %u", v.flags); out += "\n";
        out += "sgp"; for (auto &v : vs) ap(out, " %u", v.props); out += "\n";
        out += "sga";
        for (size_t u = 0; u + 1 < off.size(); ++u) {
            ap(out, " %zu", off[u + 1] - off[u]);
            for (size_t j = off[u]; j < off[u + 1]; ++j) ap(out, " %d %s %d %d", es[j].to, vh::hx(es[j].dist).c_str(), es[j].dummy ? 1 : 0, es[j].disabled ? 1 : 0);
        }
        out += "\n";
    }

    void beginningSearchWithEndpoints(Avoid::VertInf *s, Avoid::VertInf *t) override {
        finalize();
        auto c = conns.find(t->id.objID);
        if (c == conns.end() || !router) return;
        lastSearchConn = t->id.objID;          // polyline connectors take pins too: their `srouted` is needed
        if (!enabled) return;                  // thorough tier: graphs are copied in every 2nd case only (budget)
        if (!c->second.second) return;         // polyline search: not modelled
        Avoid::ConnRef *conn = c->second.first;
        vs.clear(); es.clear(); off.clear(); idx.clear();
        for (Avoid::VertInf *v = router->vertices.connsBegin(); v != router->vertices.end(); v = v->lstNext) {
            idx.push_back({v, (int) vs.size()});
            unsigned props = (v->id.isConnPt() ? 1u : 0u) | (v->id.isConnectionPin() ? 4u : 0u) | (v->id.isConnCheckpoint() ? 8u : 0u) |
                             (v->id.isDummyPinHelper() ? 16u : 0u);
            vs.push_back({v->point.x, v->point.y, v->orthogVisPropFlags, props});
        }
        std::sort(idx.begin(), idx.end());
        for (Avoid::VertInf *v = router->vertices.connsBegin(); v != router->vertices.end(); v = v->lstNext) {
            off.push_back(es.size());
            for (Avoid::EdgeInfList::const_iterator e = v->orthogVisList.begin(); e != v->orthogVisList.end(); ++e) {
                int o = at((*e)->otherVert(v));
                if (o < 0) continue;
                es.push_back({o, (*e)->getDist(), (*e)->isDummyConnection(), (*e)->isDisabled()});
            }
        }
        off.push_back(es.size());
        pConn = t->id.objID; pS = s; pT = t; pSrc = at(s); pTar = at(t);
        pPrev = s->pathNext ? at(s->pathNext) : -1;
        pLineSrc = at(conn->src()); pLineDst = at(conn->dst());
        if (pSrc < 0 || pTar < 0) return;
        pending = true;
    }
    void updateConnectorRoute(Avoid::ConnRef *conn, int i1, int i2) override {
        if (i1 != -1 || i2 != -1) return;
        finalize();
        // the end of ConnRef::generatePath (HyperedgeTreeNode::writeEdgesToConns makes the same call, without a search)
        if (lastSearchConn != conn->id()) return;
        lastSearchConn = 0;
        const Avoid::PolyLine &r = conn->route();
        ap(out, "srouted %d %zu", (int) conn->id() - 1000, r.size());
        for (size_t i = 0; i < r.size(); ++i) ap(out, " %s %s", vh::hx(r.ps[i].x).c_str(), vh::hx(r.ps[i].y).c_str());
        out += "\n";
    }
    // events of the transaction just finished
    std::string take() { finalize(); std::string t; t.swap(out); return t; }
};

}  // namespace c11s
