// Shared scene generator for the libavoid route harnesses (C03, C04).
// Scenes live on an integer grid: the plane is cut into square cells, every chosen cell receives one
// convex shape (rectangle or convex k-gon with integer vertices, counter-clockwise = libavoid's
// expected orientation) that stays inside its closed cell, so shapes are interior-disjoint by
// construction; shapes that reach the cell border touch their neighbours (shared edges, touching
// corners, collinear corners are frequent because everything is grid-aligned).
// `margin` >= 1 keeps a gap between shapes (C04: separated obstacles; buffered scenes).
#ifndef VERIF_AVOID_SCENE_H
#define VERIF_AVOID_SCENE_H
#include "common.h"
#include "libavoid/libavoid.h"
#include <set>
#include <map>

namespace vs {

struct IPt { long x, y; };
typedef std::vector<IPt> IPoly;

inline long cross(const IPt &o, const IPt &a, const IPt &b) {
    return (a.x - o.x) * (b.y - o.y) - (a.y - o.y) * (b.x - o.x);
}

// strictly convex hull, counter-clockwise, collinear points dropped
inline IPoly hull(std::vector<IPt> p) {
    std::sort(p.begin(), p.end(), [](const IPt &a, const IPt &b) { return a.x < b.x || (a.x == b.x && a.y < b.y); });
    p.erase(std::unique(p.begin(), p.end(), [](const IPt &a, const IPt &b) { return a.x == b.x && a.y == b.y; }), p.end());
    size_t n = p.size(), k = 0;
    if (n < 3) return IPoly();
    IPoly h(2 * n);
    for (size_t i = 0; i < n; ++i) { while (k >= 2 && cross(h[k - 2], h[k - 1], p[i]) <= 0) k--; h[k++] = p[i]; }
    for (size_t i = n - 1, t = k + 1; i > 0; --i) { while (k >= t && cross(h[k - 2], h[k - 1], p[i - 1]) <= 0) k--; h[k++] = p[i - 1]; }
    h.resize(k - 1);
    if (h.size() < 3) return IPoly();
    return h;
}

inline IPoly rectPoly(long x0, long y0, long x1, long y1) {   // same vertex order as Avoid::Rectangle
    IPoly r; r.push_back({x1, y0}); r.push_back({x1, y1}); r.push_back({x0, y1}); r.push_back({x0, y0}); return r;
}

// closed containment of a half-integer point (given doubled: px2 = 2*x) in a CCW convex polygon,
// inflated by `infl` (Euclidean, conservative: uses the mitred offset = shifted half-planes)
inline bool inClosedInflated(const IPoly &poly, double px, double py, double infl) {
    size_t n = poly.size();
    for (size_t i = 0; i < n; ++i) {
        const IPt &a = poly[i], &b = poly[(i + 1) % n];
        double ar = (double)(b.x - a.x) * (py - a.y) - (px - a.x) * (double)(b.y - a.y);
        double len = std::sqrt((double)((b.x - a.x) * (b.x - a.x) + (b.y - a.y) * (b.y - a.y)));
        if (ar < -infl * len) return false;      // strictly beyond this (shifted) edge line
    }
    return true;
}

typedef std::vector<Avoid::Point> DPoly;

struct Scene {
    long W, H;                      // extent of the cell area
    std::vector<DPoly> shapes;      // CCW convex polygons; integer coordinates unless `jitter`
    std::vector<bool> isRect;
};

inline DPoly toD(const IPoly &p) {
    DPoly q; for (size_t i = 0; i < p.size(); ++i) q.push_back(Avoid::Point((double) p[i].x, (double) p[i].y)); return q;
}
inline double crossD(const Avoid::Point &o, const Avoid::Point &a, const Avoid::Point &b) {
    return (a.x - o.x) * (b.y - o.y) - (a.y - o.y) * (b.x - o.x);
}
inline bool strictlyConvexCCW(const DPoly &p) {
    size_t n = p.size();
    if (n < 3) return false;
    for (size_t i = 0; i < n; ++i) if (crossD(p[i], p[(i + 1) % n], p[(i + 2) % n]) <= 0) return false;
    return true;
}

struct SceneOpts {
    int nShapesMin = 1, nShapesMax = 12;
    long margin = 0;                // empty border kept at the low side of each cell (gap between shapes >= margin)
    int rectPct = 60;               // percentage of rectangles
    int fullCellPct = 25;           // rectangles filling the whole cell (=> shared edges)
    bool jitter = false;            // move every vertex by k/64, |k| < 16 (general position); needs margin >= 1
};

inline Scene genScene(vh::Rng &r, const SceneOpts &o) {
    Scene s;
    int want = (int) r.range(o.nShapesMin, o.nShapesMax);
    long c = r.range(3 + o.margin, 7 + o.margin);               // cell size
    long nx = 1, ny = 1;
    while (nx * ny < want + want / 3 + 1) { if (nx <= ny) ++nx; else ++ny; }
    s.W = nx * c; s.H = ny * c;
    std::vector<long> cells;
    for (long i = 0; i < nx * ny; ++i) cells.push_back(i);
    r.shuffle(cells);
    for (int k = 0; k < want && k < (int) cells.size(); ++k) {
        long cx = (cells[k] % nx) * c + o.margin, cy = (cells[k] / nx) * c + o.margin;
        long w = c - o.margin;                                   // usable box [cx,cx+w] x [cy,cy+w]
        IPoly p;
        bool rect = r.coin(o.rectPct, 100);
        if (rect) {
            if (r.coin(o.fullCellPct, 100)) p = rectPoly(cx, cy, cx + w, cy + w);
            else {
                long x0 = r.range(0, w - 1), x1 = r.range(x0 + 1, w), y0 = r.range(0, w - 1), y1 = r.range(y0 + 1, w);
                if (r.coin(1, 3)) { x0 = 0; } if (r.coin(1, 3)) { x1 = w; }     // hug the cell border often
                if (r.coin(1, 3)) { y0 = 0; } if (r.coin(1, 3)) { y1 = w; }
                p = rectPoly(cx + x0, cy + y0, cx + x1, cy + y1);
            }
        } else {
            for (int tries = 0; tries < 20 && p.empty(); ++tries) {
                int m = (int) r.range(3, 7);
                std::vector<IPt> pts;
                for (int i = 0; i < m; ++i) pts.push_back({cx + r.range(0, w), cy + r.range(0, w)});
                p = hull(pts);
            }
            if (p.empty()) { p = rectPoly(cx, cy, cx + w, cy + w); rect = true; }
            else { size_t rot = r.next() % p.size(); std::rotate(p.begin(), p.begin() + rot, p.end()); }
        }
        DPoly d = toD(p);
        if (o.jitter) {
            DPoly j = d;
            for (size_t i = 0; i < j.size(); ++i) { j[i].x += r.range(-15, 15) / 64.0; j[i].y += r.range(-15, 15) / 64.0; }
            if (strictlyConvexCCW(j)) { d = j; rect = false; }
        }
        s.shapes.push_back(d); s.isRect.push_back(rect);
    }
    return s;
}

// closed containment (with slack) of a point in a CCW convex polygon with double coordinates
inline bool inClosedD(const DPoly &poly, double px, double py, double slack) {
    size_t n = poly.size();
    for (size_t i = 0; i < n; ++i) {
        const Avoid::Point &a = poly[i], &b = poly[(i + 1) % n];
        double ar = (b.x - a.x) * (py - a.y) - (px - a.x) * (b.y - a.y);
        double len = std::sqrt((b.x - a.x) * (b.x - a.x) + (b.y - a.y) * (b.y - a.y));
        if (ar < -slack * len) return false;
    }
    return true;
}

// separating-axis test: the two CCW convex polygons have disjoint interiors (touching allowed)
inline bool interiorDisjointD(const DPoly &A, const DPoly &B) {
    for (int pass = 0; pass < 2; ++pass) {
        const DPoly &P = pass ? B : A, &Q = pass ? A : B;
        size_t n = P.size();
        for (size_t i = 0; i < n; ++i) {
            const Avoid::Point &a = P[i], &b = P[(i + 1) % n];
            double len = std::sqrt((b.x - a.x) * (b.x - a.x) + (b.y - a.y) * (b.y - a.y));
            bool allOut = true;
            for (size_t j = 0; j < Q.size() && allOut; ++j) {
                double ar = (b.x - a.x) * (Q[j].y - a.y) - (Q[j].x - a.x) * (b.y - a.y);
                if (ar > 1e-9 * len) allOut = false;
            }
            if (allOut) return true;
        }
    }
    return false;
}

// routing polygons exactly as Obstacle::routingPolygon() computes them (pure function of the polygon)
inline std::vector<DPoly> routingPolys(const Scene &s, double buffer) {
    std::vector<DPoly> r;
    for (size_t i = 0; i < s.shapes.size(); ++i) {
        Avoid::Polygon p(s.shapes[i].size());
        for (size_t k = 0; k < s.shapes[i].size(); ++k) p.ps[k] = s.shapes[i][k];
        r.push_back(p.offsetPolygon(buffer).ps);
    }
    return r;
}

// drop shapes until the routing polygons are pairwise interior-disjoint (mitred corners of sharp
// k-gons stick out by more than the buffer distance)
inline void makeRoutingDisjoint(Scene &s, double buffer) {
    if (buffer == 0) return;
    std::vector<DPoly> rp = routingPolys(s, buffer);
    Scene t; t.W = s.W; t.H = s.H;
    std::vector<DPoly> kept;
    for (size_t i = 0; i < s.shapes.size(); ++i) {
        bool ok = true;
        for (size_t j = 0; j < kept.size() && ok; ++j) ok = interiorDisjointD(rp[i], kept[j]);
        if (ok) { kept.push_back(rp[i]); t.shapes.push_back(s.shapes[i]); t.isRect.push_back(s.isRect[i]); }
    }
    s = t;
}

// a free point (half-integer grid) outside every routing polygon (closed, with slack); false if none found
inline bool freePoint(vh::Rng &r, const Scene &s, const std::vector<DPoly> &rp, double slack, double &x, double &y, bool halfGrid) {
    for (int t = 0; t < 200; ++t) {
        long X = r.range(-4, 2 * s.W + 4), Y = r.range(-4, 2 * s.H + 4);
        if (!halfGrid) { X &= ~1L; Y &= ~1L; }
        double px = X / 2.0, py = Y / 2.0;
        bool ok = true;
        for (size_t i = 0; i < rp.size() && ok; ++i) if (inClosedD(rp[i], px, py, slack)) ok = false;
        if (ok) { x = px; y = py; return true; }
    }
    return false;
}

// a free point next to a routing-polygon corner (the corner pushed outwards by 1/2 or 1 in x and/or y)
inline bool hugPoint(vh::Rng &r, const Scene &s, const std::vector<DPoly> &rp, double slack, double &x, double &y) {
    if (rp.empty()) return false;
    for (int t = 0; t < 60; ++t) {
        const DPoly &p = rp[r.next() % rp.size()];
        const Avoid::Point &v = p[r.next() % p.size()];
        double cx = 0, cy = 0;
        for (size_t i = 0; i < p.size(); ++i) { cx += p[i].x; cy += p[i].y; }
        cx /= p.size(); cy /= p.size();
        double d = r.coin() ? 0.5 : 1.0;
        double px = std::floor(v.x * 2 + 0.5) / 2 + (r.coin(1, 4) ? 0 : (v.x >= cx ? d : -d));
        double py = std::floor(v.y * 2 + 0.5) / 2 + (r.coin(1, 4) ? 0 : (v.y >= cy ? d : -d));
        bool ok = true;
        for (size_t i = 0; i < rp.size() && ok; ++i) if (inClosedD(rp[i], px, py, slack)) ok = false;
        if (ok) { x = px; y = py; return true; }
    }
    return false;
}


// ---- helpers for edit histories (harness side, doubles; the Lean driver re-decides everything exactly)

inline DPoly rectD(double lx, double ly, double hx, double hy) {        // Avoid::Rectangle vertex order, counter-clockwise
    DPoly q; q.push_back(Avoid::Point(hx, ly)); q.push_back(Avoid::Point(hx, hy)); q.push_back(Avoid::Point(lx, hy)); q.push_back(Avoid::Point(lx, ly)); return q;
}

// does the segment pq pass through the open rectangle (lx,hx) x (ly,hy) with positive length
inline bool segCrossesRectD(double lx, double ly, double hx, double hy, const Avoid::Point &p, const Avoid::Point &q) {
    double t0 = 0, t1 = 1, dx = q.x - p.x, dy = q.y - p.y;
    double pp[4] = {-dx, dx, -dy, dy}, qq[4] = {p.x - lx, hx - p.x, p.y - ly, hy - p.y};
    for (int i = 0; i < 4; ++i) {
        if (pp[i] == 0) { if (qq[i] <= 0) return false; }
        else { double t = qq[i] / pp[i]; if (pp[i] < 0) t0 = std::max(t0, t); else t1 = std::min(t1, t); }
    }
    return t1 - t0 > 1e-9;
}

// An axis-parallel rectangle (half sizes hw, hh; <= 0: random; corners jittered by k/64 if `jitter`) that crosses exactly
// the chosen segment of `route` (segsel 0 first, 1 a middle one, 2 last, 3 any), keeps a gap >= `gap` to every shape in
// `others` and stays clear of the given points.
inline bool placeAcrossD(vh::Rng &r, const std::vector<Avoid::Point> &route, int segsel, const std::vector<DPoly> &others,
                         const std::vector<Avoid::Point> &keepClear, double hw0, double hh0, bool jitter, double gap,
                         DPoly &out, size_t &segOut) {
    if (route.size() < 2) return false;
    size_t n = route.size() - 1;
    const double sizes[] = {0.5, 1, 1.5, 2, 3};
    for (int t = 0; t < 80; ++t) {
        size_t seg = (segsel == 0) ? 0 : (segsel == 2) ? n - 1 : (segsel == 1 && n >= 3) ? (size_t) r.range(1, (long) n - 2) : (size_t) r.range(0, (long) n - 1);
        double hw = hw0 > 0 ? hw0 : sizes[r.range(0, 4)], hh = hh0 > 0 ? hh0 : sizes[r.range(0, 4)];
        const Avoid::Point &p = route[seg], &q = route[seg + 1];
        double u = r.range(20, 80) / 100.0;
        double cx = std::floor((p.x + u * (q.x - p.x)) * 8 + 0.5) / 8 + r.range(-4, 4) / 16.0 * hw;
        double cy = std::floor((p.y + u * (q.y - p.y)) * 8 + 0.5) / 8 + r.range(-4, 4) / 16.0 * hh;
        cx = std::floor(cx * 64 + 0.5) / 64; cy = std::floor(cy * 64 + 0.5) / 64;
        if (jitter) { cx += r.range(-15, 15) / 64.0; cy += r.range(-15, 15) / 64.0; }
        double lx = cx - hw, hx = cx + hw, ly = cy - hh, hy = cy + hh;
        bool ok = true;
        for (size_t i = 0; i < n && ok; ++i) if (segCrossesRectD(lx, ly, hx, hy, route[i], route[i + 1]) != (i == seg)) ok = false;
        DPoly Rg = rectD(lx - gap, ly - gap, hx + gap, hy + gap), R = rectD(lx, ly, hx, hy);
        for (size_t i = 0; i < others.size() && ok; ++i) if (!interiorDisjointD(Rg, others[i])) ok = false;
        for (size_t i = 0; i < keepClear.size() && ok; ++i) if (inClosedD(R, keepClear[i].x, keepClear[i].y, 0.5)) ok = false;
        if (ok) { out = R; segOut = seg; return true; }
    }
    return false;
}

inline Avoid::Polygon toAvoid(const DPoly &p) {
    Avoid::Polygon q(p.size());
    for (size_t i = 0; i < p.size(); ++i) q.ps[i] = p[i];
    return q;
}

// Degeneracy of a scene for the visibility algorithms: three distinct graph points (routing-polygon
// corners and connector endpoints) are collinear (relative tolerance 1e-9).  Covers: a vertex inside a
// candidate segment, a point on the extension of a shape edge, touching shapes, coincident corners.
inline bool hasCollinearTriple(const std::vector<DPoly> &rp, const std::vector<Avoid::Point> &endpoints) {
    std::vector<Avoid::Point> V;
    for (size_t i = 0; i < rp.size(); ++i) for (size_t k = 0; k < rp[i].size(); ++k) V.push_back(rp[i][k]);
    for (size_t i = 0; i < endpoints.size(); ++i) V.push_back(endpoints[i]);
    size_t n = V.size();
    for (size_t i = 0; i < n; ++i) for (size_t j = i + 1; j < n; ++j) {
        double dx = V[j].x - V[i].x, dy = V[j].y - V[i].y;
        double len = std::fabs(dx) + std::fabs(dy);
        if (len < 1e-9) return true;                       // coincident points
        for (size_t k = j + 1; k < n; ++k) {
            double ex = V[k].x - V[i].x, ey = V[k].y - V[i].y;
            double l2 = std::fabs(ex) + std::fabs(ey);
            if (l2 < 1e-9 || std::fabs(V[k].x - V[j].x) + std::fabs(V[k].y - V[j].y) < 1e-9) return true;
            if (std::fabs(dx * ey - dy * ex) <= 1e-9 * len * l2) return true;
        }
    }
    return false;
}

inline void printPts(const char *kw, unsigned id, const std::vector<Avoid::Point> &ps) {
    printf("%s %u %zu", kw, id, ps.size());
    for (size_t i = 0; i < ps.size(); ++i) printf(" %s %s", vh::hx(ps[i].x).c_str(), vh::hx(ps[i].y).c_str());
    printf("\n");
}

inline void printShape(unsigned id, const DPoly &p) { printPts("shape", id, p); }

} // namespace vs
#endif
