// Shared helpers for the correspondence harnesses (DESIGN.md 2.3 / 4.2).
// Every random choice derives from (seed, case index) through splitmix64, so a case is
// replayed exactly by `--seed S --tier T --only K`.
#ifndef VERIF_COMMON_H
#define VERIF_COMMON_H
#include <cstdio>
#include <cstdlib>
#include <cstring>
#include <cstdint>
#include <cmath>
#include <string>
#include <vector>
#include <algorithm>

namespace vh {

struct Rng {
    uint64_t s;
    explicit Rng(uint64_t seed = 1) : s(seed) {}
    uint64_t next() {
        uint64_t z = (s += 0x9E3779B97F4A7C15ull);
        z = (z ^ (z >> 30)) * 0xBF58476D1CE4E5B9ull;
        z = (z ^ (z >> 27)) * 0x94D049BB133111EBull;
        return z ^ (z >> 31);
    }
    // uniform in [lo, hi] inclusive
    long range(long lo, long hi) { return lo + (long)(next() % (uint64_t)(hi - lo + 1)); }
    bool coin(int num = 1, int den = 2) { return (long)(next() % (uint64_t)den) < num; }
    template <class T> const T &pick(const std::vector<T> &v) { return v[next() % v.size()]; }
    template <class T> void shuffle(std::vector<T> &v) {
        for (size_t i = v.size(); i > 1; --i) std::swap(v[i - 1], v[next() % i]);
    }
};

// Per-case generator.  The state of case k must not be the state of case k+1 minus one step: Rng::next() advances the
// state by the golden-ratio constant, so the key (seed, k, stream) is first hashed (two splitmix outputs of a keyed
// generator) and the hash is the new state.  VERIF_RNG=1 selects the former derivation (state linear in k: the stream
// of case k+d was the stream of case k shifted by d draws), kept only to replay cases recorded before the change.
inline Rng caseRng(uint64_t seed, uint64_t k, uint64_t stream = 0) {
    static const bool legacy = [] { const char *e = getenv("VERIF_RNG"); return e && e[0] == '1'; }();
    Rng r(seed * 0x2545F4914F6CDD1Dull + k * 0x9E3779B97F4A7C15ull + stream * 0xD1B54A32D192ED03ull + 0x1234567ull);
    r.next(); r.next();
    if (legacy) return r;
    Rng h(seed * 0xA24BAED4963EE407ull + (k + 1) * 0xD6E8FEB86659FD93ull + (stream + 1) * 0xCA5A826395121157ull);
    uint64_t a = h.next(), b = r.next();
    return Rng(a ^ (b << 1) ^ (b >> 63));
}

struct Args {
    uint64_t seed = 1;
    std::string tier = "quick";
    long only = -1;        // run only this case index
    long n = -1;           // override number of cases
    long scale = 1;        // budget multiplier (search mode)
    std::string mode;      // optional sub-mode
    bool want(long k) const { return only < 0 || only == k; }
};

inline Args parseArgs(int argc, char **argv) {
    Args a;
    for (int i = 1; i < argc; ++i) {
        std::string s = argv[i];
        auto val = [&]() -> const char * { return (i + 1 < argc) ? argv[++i] : "0"; };
        if (s == "--seed") a.seed = strtoull(val(), 0, 10);
        else if (s == "--tier") a.tier = val();
        else if (s == "--only") a.only = atol(val());
        else if (s == "--n") a.n = atol(val());
        else if (s == "--scale") a.scale = atol(val());
        else if (s == "--mode") a.mode = val();
    }
    return a;
}

// exact textual form of a double (C99 hex float); inf/nan spelled out
inline std::string hx(double d) {
    char buf[64];
    if (std::isnan(d)) return "nan";
    if (std::isinf(d)) return d < 0 ? "-inf" : "inf";
    snprintf(buf, sizeof buf, "%a", d);
    return buf;
}

inline void beginCase(long k, const char *tag) { printf("CASE %ld %s\n", k, tag); }
inline void endCase() { printf("END\n"); fflush(stdout); }

} // namespace vh
#endif
