// C07 harness: (a) tie — calls generateVariables / generateSeparationConstraints of every
// cola::CompoundConstraint type directly and dumps the variables and vpsc constraints they
// produce (the Lean model must reproduce them exactly); (b) end-to-end — runs
// ConstrainedFDLayout (makeFeasible and/or run) and ConstrainedMajorizationLayout::run on
// random graphs with jointly satisfiable / planted-unsatisfiable constraint mixes and dumps the
// final rectangles and the unsatisfiable-constraint reports.
#include "c07_cc.h"
#include <functional>
#include <unistd.h>
#include <signal.h>
#include <sys/wait.h>
using namespace c07;

// ---- makeFeasible observables (bN8) ------------------------------------------------------------
// `_subConstraintInfo[i]->satisfied` is what markCurrSubConstraintAsActive() leaves behind; the member is
// protected, reached through a pointer-to-member named in a derived class (standard-conforming, no hook).
struct CCPeek : cola::CompoundConstraint {
    static const cola::SubConstraintInfoList &infos(const cola::CompoundConstraint &c) { return c.*(&CCPeek::_subConstraintInfo); }
};
// idleConstraints after `std::sort(.., cmpCompoundConstraintPriority)`: the same algorithm on the same comparison
// results (priority only) leaves the same permutation; with overlap avoidance one NonOverlapConstraints object
// (index = ccs.size()) is appended before the sort.
static void printOrder(const cola::CompoundConstraints &ccs, bool overlap) {
    std::vector<std::pair<unsigned, unsigned> > idle;
    for (size_t i = 0; i < ccs.size(); ++i) idle.push_back(std::make_pair(ccs[i]->priority(), (unsigned) i));
    if (overlap) idle.push_back(std::make_pair(cola::PRIORITY_NONOVERLAP, (unsigned) ccs.size()));
    std::sort(idle.begin(), idle.end(), [](const std::pair<unsigned, unsigned> &a, const std::pair<unsigned, unsigned> &b) { return a.first < b.first; });
    printf("order");
    for (auto &p : idle) printf(" %u", p.second);
    printf("\n");
}
#ifdef ADAPTAGRAMS_VERIF_MAKEFEASIBLE_HOOK
struct MFTrial { const void *cc; int dim; unsigned alt; unsigned l, r; double gap; bool eq, accepted; };
static std::vector<MFTrial> g_mfTrials;
static void mfSink(const cola::CompoundConstraint *cc, int dim, unsigned alt, const vpsc::Constraint *c, bool accepted) {
    MFTrial t; t.cc = cc; t.dim = dim; t.alt = alt; t.l = c->left->id; t.r = c->right->id; t.gap = c->gap; t.eq = c->equality; t.accepted = accepted;
    g_mfTrials.push_back(t);
}
#endif
static void mfArm() {
#ifdef ADAPTAGRAMS_VERIF_MAKEFEASIBLE_HOOK
    g_mfTrials.clear(); cola::verifMakeFeasibleSink = mfSink;
#endif
}
// rectangles and satisfied flags right after a makeFeasible() call; `sfx` distinguishes the first call of a repeat case
static void dumpMF(const vpsc::Rectangles &rs, const cola::CompoundConstraints &ccs, const char *sfx) {
    for (size_t i = 0; i < rs.size(); ++i)
        printf("mfout%s %zu %s %s %s %s\n", sfx, i, H(rs[i]->getMinX()), H(rs[i]->getMaxX()), H(rs[i]->getMinY()), H(rs[i]->getMaxY()));
    for (size_t j = 0; j < ccs.size(); ++j) {
        const cola::SubConstraintInfoList &l = CCPeek::infos(*ccs[j]);
        printf("mfsat%s %zu %zu", sfx, j, l.size());
        for (auto *i : l) printf(" %d", (int) i->satisfied);
        printf("\n");
    }
#ifdef ADAPTAGRAMS_VERIF_MAKEFEASIBLE_HOOK
    printf("mfhook%s 1\n", sfx);
    for (auto &t : g_mfTrials)
        printf("mftrial%s %ld %d %u %u %u %s %d %d\n", sfx, ccIndex(ccs, t.cc), t.dim, t.alt, t.l, t.r, H(t.gap), (int) t.eq, (int) t.accepted);
    cola::verifMakeFeasibleSink = nullptr; g_mfTrials.clear();
#endif
    fflush(stdout);
}

// CML's GradientProjection::destroyVPSC clears the caller's UnsatisfiableConstraintInfos vector
// without deleting the entries (a leak in the library, reported separately). To keep this
// harness LSan-clean we remember every entry seen at the end of an iteration and free it.
struct HarvestingTest : public cola::TestConvergence {
    cola::UnsatisfiableConstraintInfos *ux, *uy;
    std::set<cola::UnsatisfiableConstraintInfo *> owned;
    HarvestingTest(double tol, unsigned maxit, cola::UnsatisfiableConstraintInfos *ux, cola::UnsatisfiableConstraintInfos *uy)
        : cola::TestConvergence(tol, maxit), ux(ux), uy(uy) {}
    bool operator()(const double s, std::valarray<double> &X, std::valarray<double> &Y) {
        for (auto *p : *ux) owned.insert(p);
        for (auto *p : *uy) owned.insert(p);
        return cola::TestConvergence::operator()(s, X, Y);
    }
};

// PreIteration with node locks: the locked nodes are dragged to a second set of positions at the third iteration
// (an interactive drag); locks are heavy desired positions for the projection, never a licence to drop a constraint
struct DragLocks : public cola::PreIteration {
    cola::Locks mine, second; int calls;
    DragLocks(const cola::Locks &a, const cola::Locks &b) : cola::PreIteration(mine), mine(a), second(b), calls(0) {}
    bool operator()() { ++calls; changed = (calls == 1 || calls == 3); if (calls == 3) mine = second; return true; }
};

static std::string runGuarded(const std::function<void()> &f) {
    try { f(); return "none"; }
    catch (cola::InvalidVariableIndexException &e) { return "InvalidVariableIndexException"; }
    catch (cola::InvalidConstraint &e) { return "InvalidConstraint"; }
    catch (vpsc::CriticalFailure &e) { return std::string("CriticalFailure:") + e.what(); }
    catch (vpsc::UnsatisfiedConstraint &e) { return "UnsatisfiedConstraint"; }
    catch (char *) { return "char*"; }
    catch (const char *) { return "constchar*"; }
    catch (std::exception &e) { return std::string("std:") + e.what(); }
    catch (...) { return "unknown"; }
}

static std::string oneWord(std::string s) { for (auto &c : s) if (c == ' ' || c == '\n') c = '_'; return s.substr(0, 160); }

static void genCase(long k, const vh::Args &a) {
    vh::Rng r = vh::caseRng(a.seed, k);
    bool thorough = a.tier == "thorough";
    bool malformed = r.coin(1, 8);
    Scene s;
    unsigned n = (unsigned) r.range(1, thorough ? 12 : 6);
    genRects(r, s, n);
    genHidden(r, s, 0);
    genSatisfiable(r, s, (unsigned) r.range(1, thorough ? 8 : 4), true, true);
    if (r.coin(1, 4)) plantUnsat(r, s);
    // a second page boundary / alignments without shapes / zero offsets to hit every branch
    if (r.coin(1, 6)) { CCSpec c; c.kind = CCSpec::ALIGNMENT; c.dim = (int) r.range(0, 1); c.pos = q4(r, -9, 9); c.fixed = r.coin(); s.ccs.push_back(c); }
    if (r.coin(1, 6)) { CCSpec c; c.kind = CCSpec::BOUNDARY; c.dim = (int) r.range(0, 1); c.pos = q4(r, -9, 9);
        c.offs.push_back(std::make_pair((unsigned) r.range(0, n - 1), 0.0)); c.offs.push_back(std::make_pair((unsigned) r.range(0, n - 1), -0.0)); s.ccs.push_back(c); }
    if (malformed) {
        // corrupt one node index: n .. n+5 (may still be a valid *variable* index when auxiliary
        // variables exist; the model applies the same vars.size() test as the code)
        std::vector<size_t> cand;
        for (size_t i = 0; i < s.ccs.size(); ++i) {
            auto kd = s.ccs[i].kind;
            if ((kd == CCSpec::BOUNDARY || kd == CCSpec::ALIGNMENT) && !s.ccs[i].offs.empty()) cand.push_back(i);
            if (kd == CCSpec::SEPARATION) cand.push_back(i);
            if (kd == CCSpec::PAGEBOUNDS && !s.ccs[i].shapes.empty()) cand.push_back(i);
        }
        if (cand.empty()) malformed = false;
        else {
            CCSpec &c = s.ccs[cand[r.range(0, (long) cand.size() - 1)]];
            unsigned bad = n + (unsigned) r.range(0, 5);
            if (c.kind == CCSpec::SEPARATION) { if (r.coin()) c.l = bad; else c.r = bad; }
            else if (c.kind == CCSpec::PAGEBOUNDS) c.shapes[r.range(0, (long) c.shapes.size() - 1)].id = bad;
            else c.offs[r.range(0, (long) c.offs.size() - 1)].first = bad;
        }
    }
    vh::beginCase(k, malformed ? "gen-malformed" : "gen-mix");
    printRects(s.rects);
    for (size_t i = 0; i < s.ccs.size(); ++i) printCC(i, s.ccs[i]);
    fflush(stdout);
    vpsc::Rectangles rs = buildRects(s.rects);
    cola::CompoundConstraints ccs = buildCCs(s.ccs, rs);
    int first = (int) r.range(0, 1);      // order of the two dimensions must not matter
    printf("first %d\n", first);
    dumpGenerated(ccs, rs, first);
    dumpGenerated(ccs, rs, 1 - first);
    if (!malformed) dumpAlternatives(ccs, rs);
    for (auto *c : ccs) delete c;
    for (auto *q : rs) delete q;
    vh::endCase();
}

static void layoutCase(long k, const vh::Args &a) {
    // scenario -> case k (constraints / finiteness) and case k+1 (tag sizes: widths and heights)
    vh::Rng r = vh::caseRng(a.seed, k);
    bool wantMain = a.want(k), wantSizes = a.want(k + 1);
    bool thorough = a.tier == "thorough";
    Scene s;
    unsigned nmax = thorough ? (r.coin(1, 6) ? 40 : 16) : 12;
    unsigned n = (unsigned) r.range(1, nmax);
    genGraph(r, s, n);
    genRects(r, s, n);
    genHidden(r, s, 0);
    bool unsat = r.coin(2, 5);
    int algo = (int) r.range(0, 4);            // 0 fd run, 1 fd mf, 2 fd mf+run, 3 fd mf+run, 4 cml
    genSatisfiable(r, s, (unsigned) r.range(0, thorough ? 8 : 5), true, true);
    if (unsat) { plantUnsat(r, s); if (r.coin(1, 4)) plantUnsat(r, s); }
    if (r.coin(1, 3)) shuffleCCs(r, s);
    bool overlap = r.coin(1, 3), nstress = r.coin(1, 4);
    unsigned iters = (unsigned) r.range(1, thorough ? 30 : 12);
    // a third of the force-directed runs: node locks (PreIteration, dragged once) and/or desired positions
    unsigned nlocks = (algo <= 3 && algo != 1 && r.coin(1, 3)) ? (unsigned) r.range(1, std::max(1u, n / 2)) : 0;
    unsigned ndes = (algo <= 3 && algo != 1 && r.coin(1, 4)) ? (unsigned) r.range(1, std::max(1u, n / 2)) : 0;
    cola::Locks locksA, locksB; cola::DesiredPositions desired;
    for (unsigned i = 0; i < nlocks; ++i) {
        unsigned id = (unsigned) r.range(0, n - 1);
        locksA.push_back(cola::Lock(id, (double) r.range(-100, 300), (double) r.range(-100, 300)));
        locksB.push_back(cola::Lock(id, (double) r.range(-100, 300), (double) r.range(-100, 300)));
    }
    for (unsigned i = 0; i < ndes; ++i) {
        cola::DesiredPosition d; d.id = (unsigned) r.range(0, n - 1); d.x = (double) r.range(-100, 300); d.y = (double) r.range(-100, 300);
        d.weight = r.coin() ? 1.0 : 1000.0; desired.push_back(d);
    }
    const char *an[] = {"fdrun", "fdmf", "fdmfrun", "fdmfrun", "cml"};
    std::string tag = std::string(an[algo]) + (s.planted ? "-unsat" : "-sat");
    if (wantMain) vh::beginCase(k, tag.c_str()); else vh::beginCase(k + 1, (std::string("sizes-") + an[algo]).c_str());
    printScene(s);
    printf("algo %s\noverlap %d\nnstress %d\niters %u\n", an[algo], (int) overlap, (int) nstress, iters);
    printf("locks %u\ndesired %u\n", nlocks, ndes);
    fflush(stdout);
    bool mfAlgo = algo >= 1 && algo <= 3;
    std::vector<std::pair<double, double> > size0;

    vpsc::Rectangles rs = buildRects(s.rects);
    cola::CompoundConstraints ccs = buildCCs(s.ccs, rs);
    for (auto *q : rs) size0.push_back(std::make_pair(q->width(), q->height()));
    cola::EdgeLengths el(s.elen.begin(), s.elen.end());
    cola::UnsatisfiableConstraintInfos ux, uy;
    std::string exc;
    if (algo <= 3) {
        cola::TestConvergence test(1e-4, iters);
        DragLocks pre(locksA, locksB);
        cola::ConstrainedFDLayout alg(rs, s.edges, s.ideal, el, &test, nlocks ? &pre : nullptr);
        alg.setConstraints(ccs);
        alg.setUnsatisfiableConstraintInfo(&ux, &uy);
        if (ndes) alg.setDesiredPositions(&desired);
        alg.setAvoidNodeOverlaps(overlap);
        alg.setUseNeighbourStress(nstress);
        if (mfAlgo) { printOrder(ccs, overlap); fflush(stdout); }
        exc = runGuarded([&]() {
            if (algo >= 1) { mfArm(); alg.makeFeasible(); dumpMF(rs, ccs, ""); }
            if (algo != 1) alg.run();
        });
        printOut(rs);
        printUnsat(0, ux, ccs); printUnsat(1, uy, ccs);
    } else {
        HarvestingTest test(1e-4, iters, &ux, &uy);
        {
            cola::ConstrainedMajorizationLayout alg(rs, s.edges, nullptr, s.ideal, el, &test, nullptr, nstress);
            alg.setConstraints(&ccs);
            alg.setUnsatisfiableConstraintInfo(&ux, &uy);
            if (overlap) alg.setAvoidOverlaps(r.coin());
            // further documented options of the majorization layout: none of them is a licence to drop a constraint
            bool scaling = r.coin(1, 3), sticky = r.coin(1, 4);
            std::valarray<double> sx(rs.size()), sy(rs.size());
            for (size_t i = 0; i < rs.size(); ++i) { sx[i] = rs[i]->getCentreX(); sy[i] = rs[i]->getCentreY(); }
            if (scaling) alg.setScaling(true);
            if (sticky) alg.setStickyNodes(r.coin() ? 0.1 : 10.0, sx, sy);
            printf("cmlopts %d %d\n", (int) scaling, (int) sticky); fflush(stdout);
            exc = runGuarded([&]() { alg.run(); });
        }
        printOut(rs);
        printUnsat(0, ux, ccs); printUnsat(1, uy, ccs);
        for (auto *p : ux) test.owned.insert(p);
        for (auto *p : uy) test.owned.insert(p);
        for (auto *p : test.owned) delete p;
        ux.clear(); uy.clear();
    }
    // the library's own view of the auxiliary positions (hint only, not part of the property)
    for (size_t i = 0; i < ccs.size(); ++i) {
        if (s.ccs[i].kind == CCSpec::ALIGNMENT) printf("auxpos %zu %s\n", i, H(static_cast<cola::AlignmentConstraint *>(ccs[i])->position()));
        if (s.ccs[i].kind == CCSpec::BOUNDARY) printf("auxpos %zu %s\n", i, H(static_cast<cola::BoundaryConstraint *>(ccs[i])->position));
    }
    printf("exc %s\n", oneWord(exc).c_str());
    if (wantMain && wantSizes) { vh::endCase(); vh::beginCase(k + 1, (std::string("sizes-") + an[algo]).c_str()); printf("algo %s\n", an[algo]); }
    if (wantSizes) {
        for (size_t i = 0; i < rs.size(); ++i) printf("size0 %s %s\n", H(size0[i].first), H(size0[i].second));
        for (size_t i = 0; i < rs.size(); ++i) printf("size1 %s %s\n", H(rs[i]->width()), H(rs[i]->height()));
    }
    if (exc != "none") {
        // an exception escaped the layout call: the library does not release what it allocated on
        // that path (e.g. the IncSolver of GradientProjection::solve). That leak belongs to C15; here
        // the case is closed and the child leaves without the leak check so the stream stays whole.
        vh::endCase();
        _exit(0);
    }
    for (auto *p : ux) delete p;
    for (auto *p : uy) delete p;
    for (auto *c : ccs) delete c;
    for (auto *q : rs) delete q;
    vh::endCase();
}

// makeFeasible() called a second time over the *same* CompoundConstraint objects: (fdmf2) again on
// the same ConstrainedFDLayout after the rectangles were dragged to positions that violate the
// constraints, or (fdmfre) on a fresh ConstrainedFDLayout built over the same rectangles and
// constraint pointers. The rectangles are inspected right after the second makeFeasible().
static void repeatCase(long k, const vh::Args &a) {
    vh::Rng r = vh::caseRng(a.seed, k);
    bool thorough = a.tier == "thorough";
    Scene s;
    unsigned n = (unsigned) r.range(2, thorough ? 16 : 10);
    genGraph(r, s, n);
    genRects(r, s, n);
    genHidden(r, s, 0);
    bool unsat = r.coin(1, 4);
    bool fresh = r.coin();
    if (unsat) { genSatisfiable(r, s, (unsigned) r.range(1, thorough ? 6 : 4), true, true); plantUnsat(r, s); }
    else genForestSatisfiable(r, s, (unsigned) r.range(1, thorough ? 7 : 5));
    if (r.coin(1, 3)) shuffleCCs(r, s);
    bool overlap = !unsat ? false : r.coin(1, 4);   // overlap avoidance may conflict with a satisfiable mix
    const char *an = fresh ? "fdmfre" : "fdmf2";
    std::string tag = std::string(an) + (s.planted ? "-unsat" : "-sat");
    // where the user drags the nodes between the two calls (centres; dyadic)
    std::vector<std::pair<double, double> > drag;
    int dragKind = (int) r.range(0, 2);
    for (unsigned i = 0; i < n; ++i) {
        double cx = cxOf(s.rects[i]), cy = cyOf(s.rects[i]);
        if (dragKind == 0) { cx += q4(r, -60, 60); cy += q4(r, -60, 60); }          // start + jitter
        else if (dragKind == 1) { cx = q4(r, -200, 200); cy = q4(r, -200, 200); }   // anywhere
        else { cx = 0; cy = 0; }                                                    // all on one point
        drag.push_back(std::make_pair(cx, cy));
    }
    vh::beginCase(k, tag.c_str());
    printScene(s);
    printf("algo %s\noverlap %d\nnstress 0\niters 0\n", an, (int) overlap);
    for (unsigned i = 0; i < n; ++i) printf("drag %u %s %s\n", i, H(drag[i].first), H(drag[i].second));
    fflush(stdout);

    vpsc::Rectangles rs = buildRects(s.rects);
    cola::CompoundConstraints ccs = buildCCs(s.ccs, rs);
    cola::EdgeLengths el(s.elen.begin(), s.elen.end());
    cola::UnsatisfiableConstraintInfos ux, uy;
    cola::TestConvergence test(1e-4, 1);
    std::string exc;
    cola::ConstrainedFDLayout *alg = new cola::ConstrainedFDLayout(rs, s.edges, s.ideal, el, &test);
    alg->setConstraints(ccs);
    alg->setUnsatisfiableConstraintInfo(&ux, &uy);
    alg->setAvoidNodeOverlaps(overlap);
    printOrder(ccs, overlap); fflush(stdout);
    exc = runGuarded([&]() { mfArm(); alg->makeFeasible(); dumpMF(rs, ccs, "1"); });
    for (size_t i = 0; i < rs.size(); ++i)
        printf("out1 %zu %s %s %s %s\n", i, H(rs[i]->getMinX()), H(rs[i]->getMaxX()), H(rs[i]->getMinY()), H(rs[i]->getMaxY()));
    if (exc == "none") {
        for (unsigned i = 0; i < n; ++i) rs[i]->moveCentre(drag[i].first, drag[i].second);
        for (size_t i = 0; i < rs.size(); ++i)
            printf("dragged %zu %s %s %s %s\n", i, H(rs[i]->getMinX()), H(rs[i]->getMaxX()), H(rs[i]->getMinY()), H(rs[i]->getMaxY()));
        fflush(stdout);
        if (fresh) {
            delete alg;
            alg = new cola::ConstrainedFDLayout(rs, s.edges, s.ideal, el, &test);
            alg->setConstraints(ccs);
            alg->setUnsatisfiableConstraintInfo(&ux, &uy);
            alg->setAvoidNodeOverlaps(overlap);
        }
        exc = runGuarded([&]() { mfArm(); alg->makeFeasible(); dumpMF(rs, ccs, ""); });
    }
    printOut(rs);
    printUnsat(0, ux, ccs); printUnsat(1, uy, ccs);
    printf("exc %s\n", oneWord(exc).c_str());
    if (exc != "none") { vh::endCase(); _exit(0); }
    delete alg;
    for (auto *p : ux) delete p;
    for (auto *p : uy) delete p;
    for (auto *c : ccs) delete c;
    for (auto *q : rs) delete q;
    vh::endCase();
}

// Closed witnesses of Props/C07MakeFeasible (the same three scenes the theorems `satisfiable_scene_dropped`,
// `drop_depends_on_order`, `combined_breaks_accepted` are about), run through the real makeFeasible() on every run.
static void witnessCase(long k, int w) {
    Scene s;
    auto R = [](double cx, double cy) { RectSpec r; r.x = cx - 5; r.X = cx + 5; r.y = cy - 5; r.Y = cy + 5; return r; };
    auto sep = [](unsigned l, unsigned r, double g, bool eq) { CCSpec c; c.kind = CCSpec::SEPARATION; c.dim = 0; c.l = l; c.r = r; c.gap = g; c.eq = eq; return c; };
    s.graphKind = "edgeless"; s.startKind = w == 2 ? "spread" : "coincident";
    if (w == 0) { s.rects = {R(0, 0), R(0, 0)}; s.ccs = {sep(1, 0, -3, true), sep(0, 1, 1, false)}; }
    else if (w == 1) { s.rects = {R(0, 0), R(0, 0)}; s.ccs = {sep(0, 1, 1, false), sep(1, 0, -3, true)}; }
    else { s.rects = {R(0, 0), R(-5, 0)}; CCSpec f; f.kind = CCSpec::FIXEDREL; f.ids = {0, 1}; f.fixedPos = false; s.ccs = {f, sep(0, 1, 10, false)}; }
    const char *tags[] = {"mfwit-sat-dropped", "mfwit-sat-order", "mfwit-combined"};
    vh::beginCase(k, tags[w]);
    printScene(s);
    printf("algo fdmf\noverlap 0\nnstress 0\niters 0\nlocks 0\ndesired 0\n");
    vpsc::Rectangles rs = buildRects(s.rects);
    cola::CompoundConstraints ccs = buildCCs(s.ccs, rs);
    printOrder(ccs, false); fflush(stdout);
    cola::EdgeLengths el; cola::UnsatisfiableConstraintInfos ux, uy; cola::TestConvergence test(1e-4, 1);
    std::string exc;
    {
        cola::ConstrainedFDLayout alg(rs, s.edges, s.ideal, el, &test);
        alg.setConstraints(ccs); alg.setUnsatisfiableConstraintInfo(&ux, &uy);
        exc = runGuarded([&]() { mfArm(); alg.makeFeasible(); dumpMF(rs, ccs, ""); });
    }
    printOut(rs);
    printUnsat(0, ux, ccs); printUnsat(1, uy, ccs);
    printf("exc %s\n", oneWord(exc).c_str());
    for (auto *p : ux) delete p;
    for (auto *p : uy) delete p;
    for (auto *c : ccs) delete c;
    for (auto *q : rs) delete q;
    vh::endCase();
}

// 3..5 mutually overlapping rectangles (every pair overlaps in both axes at the start, sizes and centres all
// different so that no overlap key ties), overlap avoidance on: every shape pair of the NonOverlapConstraints item is
// handled individually.  makeFeasible() alone (fdmf) or makeFeasible() + run() (fdmfrun); sometimes one user
// separation among the nodes.  Runs in a forked child under the alarm like every layout scenario.
static void overlapCase(long k, const vh::Args &a) {
    vh::Rng r = vh::caseRng(a.seed, k);
    Scene s;
    unsigned n = (unsigned) r.range(3, 5);
    double cx0 = q4(r, -50, 50), cy0 = q4(r, -50, 50);
    for (unsigned i = 0; i < n; ++i) {
        double w = 24 + 4 * i + q4(r, 0, 3), h = 24 + 6 * ((i * 2) % n) + q4(r, 0, 3);
        double cx = cx0 + q4(r, -5, 5), cy = cy0 + q4(r, -5, 5);
        RectSpec R; R.x = cx - w / 2; R.X = cx + w / 2; R.y = cy - h / 2; R.Y = cy + h / 2;
        s.rects.push_back(R);
    }
    s.graphKind = "edgeless"; s.startKind = "mutual-overlap";
    bool withRun = r.coin(1, 3);
    if (withRun) { for (unsigned i = 1; i < n; ++i) s.edges.push_back(std::make_pair(i - 1, i)); s.graphKind = "path"; }
    if (r.coin(1, 3)) {
        CCSpec c; c.kind = CCSpec::SEPARATION; c.dim = (int) r.range(0, 1); c.l = 0; c.r = 1; c.gap = q4(r, 0, 40); c.eq = false; s.ccs.push_back(c);
    }
    unsigned iters = (unsigned) r.range(1, 6);
    const char *algo = withRun ? "fdmfrun" : "fdmf";
    vh::beginCase(k, withRun ? "fdmfrun-ovl" : "fdmf-ovl");
    printScene(s);
    printf("algo %s\noverlap 1\nnstress 0\niters %u\nlocks 0\ndesired 0\n", algo, iters);
    vpsc::Rectangles rs = buildRects(s.rects);
    cola::CompoundConstraints ccs = buildCCs(s.ccs, rs);
    printOrder(ccs, true); fflush(stdout);
    cola::EdgeLengths el; cola::UnsatisfiableConstraintInfos ux, uy; cola::TestConvergence test(1e-4, iters);
    std::string exc;
    {
        cola::ConstrainedFDLayout alg(rs, s.edges, s.ideal, el, &test);
        alg.setConstraints(ccs); alg.setUnsatisfiableConstraintInfo(&ux, &uy);
        alg.setAvoidNodeOverlaps(true);
        exc = runGuarded([&]() { mfArm(); alg.makeFeasible(); dumpMF(rs, ccs, ""); if (withRun) alg.run(); });
    }
    printOut(rs);
    printUnsat(0, ux, ccs); printUnsat(1, uy, ccs);
    printf("exc %s\n", oneWord(exc).c_str());
    if (exc != "none") { vh::endCase(); _exit(0); }
    for (auto *p : ux) delete p;
    for (auto *p : uy) delete p;
    for (auto *c : ccs) delete c;
    for (auto *q : rs) delete q;
    vh::endCase();
}

int main(int argc, char **argv) {
    vh::Args a = vh::parseArgs(argc, argv);
    bool thorough = a.tier == "thorough";
    long ngen = (thorough ? 6000 : 600) * a.scale;
    long nlay = (thorough ? 2500 : 500) * a.scale;
    long nrep = (thorough ? 800 : 250) * a.scale;
    if (a.n >= 0) { ngen = a.n; nlay = a.n; nrep = a.n; }
    long k = 0;
    for (long i = 0; i < ngen; ++i, ++k) if (a.want(k)) genCase(k, a);
    // Every layout scenario runs in a forked child with an alarm: a call into the library that
    // does not return (seen: vpsc::IncSolver::satisfy looping inside makeFeasible) must not stall
    // the stream. The parent closes the open case with a `hang` line.
    const unsigned limit = thorough ? 15 : 8;
    for (long i = 0; i < nlay; ++i, k += 2) {
        if (!(a.want(k) || a.want(k + 1))) continue;
        fflush(stdout);
        pid_t pid = fork();
        if (pid == 0) { alarm(limit); layoutCase(k, a); fflush(stdout); exit(0); }
        int st = 0; waitpid(pid, &st, 0);
        if (WIFSIGNALED(st) && WTERMSIG(st) == SIGALRM) { printf("hang %u\n", limit); vh::endCase(); continue; }
        if (WIFSIGNALED(st)) { fprintf(stderr, "child killed by signal %d in case %ld\n", WTERMSIG(st), k); return 99; }
        if (WEXITSTATUS(st) != 0) return WEXITSTATUS(st);
    }
    for (long i = 0; i < nrep; ++i, ++k) {
        if (!a.want(k)) continue;
        fflush(stdout);
        pid_t pid = fork();
        if (pid == 0) { alarm(limit); repeatCase(k, a); fflush(stdout); exit(0); }
        int st = 0; waitpid(pid, &st, 0);
        if (WIFSIGNALED(st) && WTERMSIG(st) == SIGALRM) { printf("hang %u\n", limit); vh::endCase(); continue; }
        if (WIFSIGNALED(st)) { fprintf(stderr, "child killed by signal %d in case %ld\n", WTERMSIG(st), k); return 99; }
        if (WEXITSTATUS(st) != 0) return WEXITSTATUS(st);
    }
    for (int w = 0; w < 3; ++w, ++k) if (a.want(k)) witnessCase(k, w);
    long novl = (thorough ? 400 : 80) * a.scale;
    if (a.n >= 0) novl = a.n;
    for (long i = 0; i < novl; ++i, ++k) {
        if (!a.want(k)) continue;
        fflush(stdout);
        pid_t pid = fork();
        if (pid == 0) { alarm(limit); overlapCase(k, a); fflush(stdout); exit(0); }
        int st = 0; waitpid(pid, &st, 0);
        if (WIFSIGNALED(st) && WTERMSIG(st) == SIGALRM) { printf("hang %u\n", limit); vh::endCase(); continue; }
        if (WIFSIGNALED(st)) { fprintf(stderr, "child killed by signal %d in case %ld\n", WTERMSIG(st), k); return 99; }
        if (WEXITSTATUS(st) != 0) return WEXITSTATUS(st);
    }
    return 0;
}
