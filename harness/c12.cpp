// C12 harness: libavoid hyperedges stay spanning trees over the same terminals.
//
// One case = one router scene with 1..2 hyperedges (3..9 terminals on shape pins, junction seeds in
// free space, obstacle shapes) and a history of transactions (initial routing, full rerouting
// registered by junction or by terminal list, shape moves, junction moves to the recommended
// position, option changes).  The *inputs* (scene, then every operation) are printed before the
// library is called; after every processTransaction() the harness dumps, through the public API
// only, the complete connector/junction structure, the route end points, the candidate pin
// positions and the new/deleted object lists.  All judgement is done by the Lean driver.
//
// Line formats (s = transaction number, 1 = initial routing):
//   opt <name> <0|1>                       routing options at start
//   shape <id> <x0> <y0> <x1> <y1>         rectangle
//   pin <shape> <cls> <xoff> <yoff> <inside> <dirs>
//   junction <id> <x> <y> <fixed>          initial junction seeds
//   iconn <id> <end> <end>                 initial connectors;  end := J<id> | T<shape>:<cls> | P | E
//   hedge <h> <T..> <T..> ...              terminal set of hyperedge h (fixed for the whole case)
//   plain <connid>                         ordinary connector that is not part of any hyperedge
//   op <s> <kind> <args..>                 operation(s) queued before transaction s
//   nd <s> <src> <what> <ids..>            src := imp | rr<i>; what := newj|newc|delj|delc|chgc
//   conn <s> <id> <end> <end> <n> <x0> <y0> <xl> <yl>   displayRoute(): size, first and last point
//   route <s> <id> <x> <y> ...             all points of displayRoute()
//   junc <s> <id> <px> <py> <rx> <ry> <fixed> <nattached>
//   pinpos <s> T<shape>:<cls> <x> <y> [<x> <y> ...]
//   tbox <s> T<shape>:<cls> <x0> <y0> <x1> <y1>       current bounding box of the terminal's shape
//   done <s>
#include "common.h"
#include "libavoid/libavoid.h"
#include "c12_ops.h"
#include <map>
#include <set>
#include <sstream>
#include <unistd.h>
#include <sys/wait.h>
#if defined(__SANITIZE_ADDRESS__)
#include <sanitizer/lsan_interface.h>
#define C12_HAVE_LSAN 1
#endif
using namespace Avoid;

namespace {

const int CW = 160, CH = 140;      // cell size; shapes stay >= 15 away from the cell border

long g_leaks = 0;
struct Cell { int cx, cy; };
struct TermInfo {
    ShapeRef *shape; unsigned cls; std::vector<ShapeConnectionPin *> pins; int hedge;
};
struct ShapeInfo { ShapeRef *shape; Cell cell; int hw, hh; int ox, oy; };

struct Scene {
    Router *router;
    std::vector<ShapeInfo> shapes;
    std::vector<TermInfo> terms;
    std::vector<std::vector<int> > hedgeTerms;   // hedge -> indices into terms
    std::set<unsigned> plain;
    int GX, GY;
};

std::string termKey(const TermInfo &t) {
    std::ostringstream o; o << "T" << t.shape->id() << ":" << t.cls; return o.str();
}

std::string endDesc(const ConnEnd &e) {
    std::ostringstream o;
    switch (e.type()) {
        case ConnEndJunction: o << "J" << e.junction()->id(); break;
        case ConnEndShapePin: o << "T" << e.shape()->id() << ":" << e.pinClassId(); break;
        case ConnEndPoint: o << "P"; break;
        default: o << "E"; break;
    }
    return o.str();
}

Polygon rectPoly(int x0, int y0, int x1, int y1) {
    return Rectangle(Point(x0, y0), Point(x1, y1));
}

void shapeRect(const ShapeInfo &s, int &x0, int &y0, int &x1, int &y1) {
    int mx = s.cell.cx * CW + CW / 2 + s.ox, my = s.cell.cy * CH + CH / 2 + s.oy;
    x0 = mx - s.hw; x1 = mx + s.hw; y0 = my - s.hh; y1 = my + s.hh;
}

// every junction currently in the scene (pointer, no ownership)
std::vector<JunctionRef *> liveJunctions(Router *r) {
    std::vector<JunctionRef *> v;
    for (ObstacleList::iterator it = r->m_obstacles.begin(); it != r->m_obstacles.end(); ++it) {
        JunctionRef *j = dynamic_cast<JunctionRef *>(*it);
        if (j) v.push_back(j);
    }
    return v;
}

void dumpState(Scene &sc, long s) {
    Router *r = sc.router;
    for (ConnRefList::iterator it = r->connRefs.begin(); it != r->connRefs.end(); ++it) {
        ConnRef *c = *it;
        std::pair<ConnEnd, ConnEnd> ends = c->endpointConnEnds();
        const PolyLine &route = c->displayRoute();
        printf("conn %ld %u %s %s %zu", s, c->id(), endDesc(ends.first).c_str(),
               endDesc(ends.second).c_str(), route.size());
        if (route.size() > 0) {
            const Point &a = route.ps[0], &b = route.ps[route.size() - 1];
            printf(" %s %s %s %s", vh::hx(a.x).c_str(), vh::hx(a.y).c_str(), vh::hx(b.x).c_str(), vh::hx(b.y).c_str());
        }
        printf("\n");
        if (route.size() > 0) {
            printf("route %ld %u", s, c->id());
            for (size_t i = 0; i < route.size(); ++i) printf(" %s %s", vh::hx(route.ps[i].x).c_str(), vh::hx(route.ps[i].y).c_str());
            printf("\n");
        }
    }
    std::vector<JunctionRef *> js = liveJunctions(r);
    for (size_t i = 0; i < js.size(); ++i) {
        JunctionRef *j = js[i];
        Point p = j->position(), q = j->recommendedPosition();
        printf("junc %ld %u %s %s %s %s %d %zu\n", s, j->id(), vh::hx(p.x).c_str(), vh::hx(p.y).c_str(),
               vh::hx(q.x).c_str(), vh::hx(q.y).c_str(), (int) j->positionFixed(), j->attachedConnectors().size());
    }
    for (size_t i = 0; i < sc.terms.size(); ++i) {
        Box bb = sc.terms[i].shape->polygon().offsetBoundingBox(0);
        printf("tbox %ld %s %s %s %s %s\n", s, termKey(sc.terms[i]).c_str(), vh::hx(bb.min.x).c_str(), vh::hx(bb.min.y).c_str(),
               vh::hx(bb.max.x).c_str(), vh::hx(bb.max.y).c_str());
        printf("pinpos %ld %s", s, termKey(sc.terms[i]).c_str());
        for (size_t p = 0; p < sc.terms[i].pins.size(); ++p) {
            Point q = sc.terms[i].pins[p]->position();
            printf(" %s %s", vh::hx(q.x).c_str(), vh::hx(q.y).c_str());
        }
        printf("\n");
    }
}

// Object lists hold pointers to connectors the router has already freed: never dereference a
// pointer that is not (by pointer comparison) in the live lists; ids of objects that were alive
// before the transaction come from `before`.
struct IdResolver {
    std::set<unsigned> goneJunctions;          // junction ids the router reported as deleted: never used again by the client
    std::map<const void *, unsigned> before;
    std::set<const void *> liveConns, liveJuncs;
    std::map<const void *, int> tmp;
    std::map<const void *, unsigned> created;      // objects the harness itself created (queued, not yet in the router's lists)
    void snapshotBefore(Router *r) {
        before = created;
        for (ConnRefList::iterator it = r->connRefs.begin(); it != r->connRefs.end(); ++it) before[*it] = (*it)->id();
        std::vector<JunctionRef *> js = liveJunctions(r);
        for (size_t i = 0; i < js.size(); ++i) before[js[i]] = js[i]->id();
    }
    void snapshotAfter(Router *r) {
        created.clear();
        liveConns.clear(); liveJuncs.clear(); tmp.clear();
        for (ConnRefList::iterator it = r->connRefs.begin(); it != r->connRefs.end(); ++it) liveConns.insert(*it);
        std::vector<JunctionRef *> js = liveJunctions(r);
        for (size_t i = 0; i < js.size(); ++i) liveJuncs.insert(js[i]);
    }
    std::string conn(ConnRef *c, bool deletedList) {
        std::ostringstream o;
        if (!deletedList && liveConns.count(c)) { o << c->id(); return o.str(); }
        if (deletedList && before.count(c)) { o << before[c]; return o.str(); }
        if (!deletedList && !liveConns.count(c)) {
            // reported new but no longer alive: created and deleted inside this transaction
        }
        if (!tmp.count(c)) { int n = (int) tmp.size() + 1; tmp[c] = n; }
        o << "tmp" << tmp[c]; return o.str();
    }
    std::string junc(JunctionRef *j, bool deletedList) {
        std::ostringstream o;
        if (liveJuncs.count(j)) { o << j->id(); return o.str(); }      // deleted junctions stay allocated until the next transaction
        if (deletedList && before.count(j)) { o << before[j]; return o.str(); }
        if (!tmp.count(j)) { int n = (int) tmp.size() + 1; tmp[j] = n; }
        o << "tmp" << tmp[j]; return o.str();
    }
};

void dumpLists(IdResolver &ids, long s, const char *src, const HyperedgeNewAndDeletedObjectLists &l) {
    printf("nd %ld %s newj", s, src);
    for (JunctionRefList::const_iterator it = l.newJunctionList.begin(); it != l.newJunctionList.end(); ++it) printf(" %s", ids.junc(*it, false).c_str());
    printf("\nnd %ld %s newc", s, src);
    for (ConnRefList::const_iterator it = l.newConnectorList.begin(); it != l.newConnectorList.end(); ++it) printf(" %s", ids.conn(*it, false).c_str());
    printf("\nnd %ld %s delj", s, src);
    for (JunctionRefList::const_iterator it = l.deletedJunctionList.begin(); it != l.deletedJunctionList.end(); ++it) {
        std::string t = ids.junc(*it, true);
        printf(" %s", t.c_str());
        if (t.compare(0, 3, "tmp") != 0) ids.goneJunctions.insert((unsigned) strtoul(t.c_str(), 0, 10));
    }
    printf("\nnd %ld %s delc", s, src);
    for (ConnRefList::const_iterator it = l.deletedConnectorList.begin(); it != l.deletedConnectorList.end(); ++it) printf(" %s", ids.conn(*it, true).c_str());
    printf("\nnd %ld %s chgc", s, src);
    for (ConnRefList::const_iterator it = l.changedConnectorList.begin(); it != l.changedConnectorList.end(); ++it) printf(" %s", ids.conn(*it, false).c_str());
    printf("\n");
}

// junctions reachable from the terminals of hyperedge h (for choosing operations only)
std::vector<JunctionRef *> hedgeJunctions(Scene &sc, int h, const std::set<unsigned> &gone) {
    Router *r = sc.router;
    std::set<std::string> seenT;
    for (size_t i = 0; i < sc.hedgeTerms[h].size(); ++i) seenT.insert(termKey(sc.terms[sc.hedgeTerms[h][i]]));
    std::set<JunctionRef *> js;
    bool changed = true;
    while (changed) {
        changed = false;
        for (ConnRefList::iterator it = r->connRefs.begin(); it != r->connRefs.end(); ++it) {
            std::pair<ConnEnd, ConnEnd> e = (*it)->endpointConnEnds();
            bool touches = false;
            const ConnEnd *es[2] = { &e.first, &e.second };
            for (int k = 0; k < 2; ++k) {
                if (es[k]->type() == ConnEndJunction && js.count(es[k]->junction())) touches = true;
                if (es[k]->type() == ConnEndShapePin && seenT.count(endDesc(*es[k]))) touches = true;
            }
            if (!touches) continue;
            for (int k = 0; k < 2; ++k)
                if (es[k]->type() == ConnEndJunction && !js.count(es[k]->junction())) { js.insert(es[k]->junction()); changed = true; }
        }
    }
    // deterministic order: by id
    std::vector<JunctionRef *> v;
    for (std::set<JunctionRef *>::iterator it = js.begin(); it != js.end(); ++it) if (!gone.count((*it)->id())) v.push_back(*it);
    std::sort(v.begin(), v.end(), [](JunctionRef *a, JunctionRef *b) { return a->id() < b->id(); });
    return v;
}

bool rectHitsJunction(Scene &sc, int x0, int y0, int x1, int y1) {
    std::vector<JunctionRef *> js = liveJunctions(sc.router);
    for (size_t i = 0; i < js.size(); ++i) {
        Point ps[2] = { js[i]->position(), js[i]->recommendedPosition() };
        for (int k = 0; k < 2; ++k)
            if (ps[k].x >= x0 - 12 && ps[k].x <= x1 + 12 && ps[k].y >= y0 - 12 && ps[k].y <= y1 + 12) return true;
    }
    return false;
}

struct PinSpec { double xo, yo; ConnDirFlags dirs; };
const PinSpec PINSPECS[] = {
    {0.5, 0.5, ConnDirAll}, {0.5, 0.0, ConnDirUp}, {0.5, 1.0, ConnDirDown}, {0.0, 0.5, ConnDirLeft}, {1.0, 0.5, ConnDirRight},
    {0.25, 0.0, ConnDirUp}, {0.75, 1.0, ConnDirDown}, {0.0, 0.25, ConnDirLeft}, {1.0, 0.75, ConnDirRight},
};


// one-line description of why the child died: the failed assertion, or the sanitizer's error type
// plus the innermost libavoid frame (no addresses, so that the text is stable across runs)
std::string crashHeadline(const std::string &err) {
    std::vector<std::string> lines;
    { std::istringstream is(err); std::string l; while (std::getline(is, l)) lines.push_back(l); }
    for (size_t i = 0; i < lines.size(); ++i) {
        size_t p = lines[i].find("Assertion");
        if (p != std::string::npos && lines[i].find("failed") != std::string::npos) {
            // "<exe>: <file>:<line>: <function>: Assertion `...' failed."  -> drop the executable name
            size_t q = lines[i].find(": ");
            return (q != std::string::npos && q < p) ? lines[i].substr(q + 2) : lines[i].substr(p);
        }
    }
    for (size_t i = 0; i < lines.size(); ++i) {
        size_t p = lines[i].find("ERROR: AddressSanitizer: ");
        if (p == std::string::npos) p = lines[i].find("runtime error: ");
        if (p == std::string::npos) continue;
        std::string head = lines[i].substr(p);
        size_t q = head.find(" on address"); if (q != std::string::npos) head = head.substr(0, q);
        for (size_t j = i + 1; j < lines.size() && j < i + 40; ++j) {
            size_t f = lines[j].find(" in Avoid::");
            if (lines[j].find("#") != std::string::npos && f != std::string::npos) { head += " at" + lines[j].substr(f + 3); break; }
        }
        return head;
    }
    return "(no assertion or sanitizer headline on stderr)";
}

void runCase(const vh::Args &a, long k, int klass) {
    // stage dumps of HyperedgeImprover::execute, if the library has the hook (thorough tier: every third
    // scene, the dumps are bulky)
    if (a.tier != "thorough" || k % 3 == 0) c12ops::installHook();
    vh::Rng r = vh::caseRng(a.seed, k);
    // ---- choose the configuration
    // 13 classes: {no full rerouting at first, rerouting registered by junction} x {improvement off,
    // moving junctions, moving/adding/deleting} x {one, two hyperedges}, plus class 12 =
    // hyperedge created from a terminal list (own tag: it fails systematically, see the report).
    int reg = (klass == 12) ? 2 : klass % 2;       // 0 = none at first, 1 = by junction, 2 = by terminal list
    int opt = (klass == 12) ? (int) r.range(0, 2) : (klass / 2) % 3;
    bool two = (klass == 12) ? r.coin(1, 3) : (klass / 6) % 2 == 1;
    static const char *REG[] = { "none", "junc", "terms" };
    static const char *OPT[] = { "off", "minor", "major" };
    std::string tag = std::string(two ? "two-" : "") + REG[reg] + "-" + OPT[opt];
    if (reg == 2) tag = "terminal-list";
    // --mode is a '+'-separated list of extra scene features that are off in the default stream
    // because each of them makes the *unmodified* library violate the property (see the report):
    //   centre   terminals may use a centre pin (ConnDirAll, inside the shape)
    //   inside   pins may have a non-zero insideOffset
    //   multipin a terminal may offer two pins of the same class
    //   plain    ordinary point-to-point connectors in the scene (use-after-free via VertInf::pathNext)
    //   multireg two hyperedges registered for rerouting in one transaction (assertion in newAndDeletedObjectLists(1))
    auto has = [&](const char *f) { return a.mode.find(f) != std::string::npos || a.mode == "all"; };
    bool modePlain = has("plain"), modeMulti = has("multireg");
    bool modeCentre = has("centre"), modeInside = has("inside"), modeMultipin = has("multipin");
    if (modeMulti) { reg = 2; two = true; tag = "multi-register"; }
    vh::beginCase(k, tag.c_str());

    Scene sc;
    sc.GX = (int) r.range(4, 6); sc.GY = (int) r.range(3, 5);
    Router *router = new Router(OrthogonalRouting);
    sc.router = router;
    router->setTransactionUse(true);
    bool optMinor = (opt == 1), optMajor = (opt == 2);
    if (opt == 2 && r.coin(1, 3)) optMinor = true;
    router->setRoutingOption(improveHyperedgeRoutesMovingJunctions, optMinor);
    router->setRoutingOption(improveHyperedgeRoutesMovingAddingAndDeletingJunctions, optMajor);
    printf("opt improveHyperedgeRoutesMovingJunctions %d\nopt improveHyperedgeRoutesMovingAddingAndDeletingJunctions %d\n", (int) optMinor, (int) optMajor);
    long segPen = r.pick(std::vector<long>{10, 50, 50});   // 0 is rejected by an assertion in orthogonal routing (makepath.cpp:796)
    router->setRoutingParameter(segmentPenalty, (double) segPen);
    long nudge = r.pick(std::vector<long>{4, 10, 25});
    router->setRoutingParameter(idealNudgingDistance, (double) nudge);
    bool nudgeShapes = r.coin(1, 4);
    router->setRoutingOption(nudgeOrthogonalSegmentsConnectedToShapes, nudgeShapes);
    long shared = r.coin(1, 3) ? 100 : 0;
    router->setRoutingParameter(fixedSharedPathPenalty, (double) shared);
    printf("param segmentPenalty %ld\nparam idealNudgingDistance %ld\nparam fixedSharedPathPenalty %ld\nopt nudgeOrthogonalSegmentsConnectedToShapes %d\n",
           segPen, nudge, shared, (int) nudgeShapes);

    // ---- shapes: terminals and obstacles in distinct cells
    std::vector<Cell> cells;
    for (int x = 0; x < sc.GX; ++x) for (int y = 0; y < sc.GY; ++y) cells.push_back(Cell{x, y});
    r.shuffle(cells);
    int nh = two ? 2 : 1;
    std::vector<int> nterm(nh);
    int maxTotal = (int) cells.size() - 1;
    for (int h = 0; h < nh; ++h) nterm[h] = (int) r.range(3, two ? 5 : 9);
    while (nterm[0] + (two ? nterm[1] : 0) > maxTotal) nterm[0]--;
    int totalT = 0; for (int h = 0; h < nh; ++h) totalT += nterm[h];
    int nobst = (int) std::min<long>(r.range(0, 5), (long) cells.size() - totalT);
    unsigned nextId = 1;
    size_t cellIx = 0;
    sc.hedgeTerms.resize(nh);
    for (int h = 0; h < nh; ++h) {
        for (int t = 0; t < nterm[h]; ++t) {
            ShapeInfo si; si.cell = cells[cellIx++];
            si.hw = (int) r.range(20, 45); si.hh = (int) r.range(15, 40);
            si.ox = (int) r.range(-10, 10); si.oy = (int) r.range(-10, 10);
            int x0, y0, x1, y1; shapeRect(si, x0, y0, x1, y1);
            { Polygon poly = rectPoly(x0, y0, x1, y1); si.shape = new ShapeRef(router, poly, nextId++); }
            printf("shape %u %d %d %d %d\n", si.shape->id(), x0, y0, x1, y1);
            sc.shapes.push_back(si);
            TermInfo ti; ti.shape = si.shape; ti.cls = (unsigned) r.range(1, 3); ti.hedge = h;
            int npins = (r.coin(1, 4) && modeMultipin) ? 2 : 1;
            std::set<long> used;
            for (int p = 0; p < npins; ++p) {
                long which = r.range(modeCentre ? 0 : 1, 8);
                if (used.count(which)) continue;
                used.insert(which);
                const PinSpec &ps = PINSPECS[which];
                double inside = (double) r.pick(std::vector<long>{0, 0, 5});
                if (which == 0 || !modeInside) inside = 0.0;
                ShapeConnectionPin *pin = new ShapeConnectionPin(si.shape, ti.cls, ps.xo, ps.yo, true, inside, ps.dirs);
                if (r.coin(1, 5)) pin->setExclusive(!pin->isExclusive());
                printf("pin %u %u %s %s %s %u %d\n", si.shape->id(), ti.cls, vh::hx(ps.xo).c_str(), vh::hx(ps.yo).c_str(),
                       vh::hx(inside).c_str(), (unsigned) ps.dirs, (int) pin->isExclusive());
                ti.pins.push_back(pin);
            }
            sc.hedgeTerms[h].push_back((int) sc.terms.size());
            sc.terms.push_back(ti);
        }
    }
    for (int o = 0; o < nobst; ++o) {
        ShapeInfo si; si.cell = cells[cellIx++];
        si.hw = (int) r.range(20, 60); si.hh = (int) r.range(15, 50);
        si.ox = (int) r.range(-5, 5); si.oy = (int) r.range(-5, 5);
        int x0, y0, x1, y1; shapeRect(si, x0, y0, x1, y1);
        { Polygon poly = rectPoly(x0, y0, x1, y1); si.shape = new ShapeRef(router, poly, nextId++); }
        printf("shape %u %d %d %d %d\n", si.shape->id(), x0, y0, x1, y1);
        sc.shapes.push_back(si);
    }
    for (int h = 0; h < nh; ++h) {
        printf("hedge %d", h);
        for (size_t i = 0; i < sc.hedgeTerms[h].size(); ++i) printf(" %s", termKey(sc.terms[sc.hedgeTerms[h][i]]).c_str());
        printf("\n");
    }

    IdResolver ids;
    // ---- initial junction seeds + connectors (not for hyperedges created from a terminal list)
    nextId = 100;
    std::vector<bool> createdFromTerminals(nh, false);
    for (int h = 0; h < nh; ++h) {
        if (reg == 2 && (h == 0 || modeMulti)) { createdFromTerminals[h] = true; continue; }
        int n = nterm[h];
        int nj = (int) r.range(1, std::max(1, std::min(4, n / 2)));
        std::vector<JunctionRef *> js;
        for (int j = 0; j < nj; ++j) {
            // a point on a "street" between cells: free of every shape (also after shape moves)
            int x, y;
            if (r.coin()) { x = (int) r.range(0, sc.GX) * CW; y = (int) r.range(0, sc.GY * CH); }
            else { x = (int) r.range(0, sc.GX * CW); y = (int) r.range(0, sc.GY) * CH; }
            // keep seeds distinct
            x += 2 * j;
            JunctionRef *jr = new JunctionRef(router, Point(x, y), nextId++);
            ids.created[jr] = jr->id();
            bool fixed = r.coin(1, 5);
            if (fixed) jr->setPositionFixed(true);
            printf("junction %u %d %d %d\n", jr->id(), x, y, (int) fixed);
            js.push_back(jr);
        }
        // random tree: junction j>0 attaches to an earlier junction; every junction gets >= 2 terminals when possible
        std::vector<std::pair<std::string, std::string> > descs;
        for (int j = 1; j < nj; ++j) {
            JunctionRef *p = js[r.range(0, j - 1)];
            ConnEnd e1(js[j]), e2(p);
            bool flip = r.coin();
            ConnRef *c = new ConnRef(router, flip ? e2 : e1, flip ? e1 : e2, nextId++);
            ids.created[c] = c->id();
            printf("iconn %u J%u J%u\n", c->id(), flip ? p->id() : js[j]->id(), flip ? js[j]->id() : p->id());
        }
        for (int t = 0; t < n; ++t) {
            JunctionRef *p = (t < 2 * nj) ? js[t % nj] : js[r.range(0, nj - 1)];
            TermInfo &ti = sc.terms[sc.hedgeTerms[h][t]];
            ConnEnd e1(ti.shape, ti.cls), e2(p);
            bool flip = r.coin();
            ConnRef *c = new ConnRef(router, flip ? e2 : e1, flip ? e1 : e2, nextId++);
            ids.created[c] = c->id();
            std::ostringstream oj; oj << "J" << p->id();
            printf("iconn %u %s %s\n", c->id(), flip ? oj.str().c_str() : termKey(ti).c_str(), flip ? termKey(ti).c_str() : oj.str().c_str());
        }
    }
    // ---- an ordinary connector or two between obstacle shapes / free points (clutter)
    // (only with --mode plain: MTST rerouting leaves dangling VertInf::pathNext pointers on the end
    //  vertices of such connectors and the next transaction reads freed memory - a C15 matter)
    int nplain = modePlain ? (int) r.range(1, 2) : 0;
    for (int p = 0; p < nplain; ++p) {
        int xa = (int) r.range(0, sc.GX) * CW, ya = (int) r.range(0, sc.GY * CH);
        int xb = (int) r.range(0, sc.GX * CW), yb = (int) r.range(0, sc.GY) * CH;
        ConnRef *c = new ConnRef(router, ConnEnd(Point(xa, ya)), ConnEnd(Point(xb, yb)), nextId++);
        printf("iconn %u P P\nplain %u\n", c->id(), c->id());
        sc.plain.insert(c->id());
    }

    // ---- history
    int nsteps = (int) r.range(2, (a.tier == "thorough") ? 7 : 5);
    HyperedgeRerouter *hr = router->hyperedgeRerouter();
    for (long s = 1; s <= nsteps; ++s) {
        int nreg = 0;
        if (s == 1) {
            // first transaction: initial routing, plus the requested registration
            for (int h = 0; h < nh; ++h) {
                if (createdFromTerminals[h]) {
                    ConnEndList l;
                    printf("op %ld register-terminals %d", s, h);
                    for (size_t i = 0; i < sc.hedgeTerms[h].size(); ++i) {
                        TermInfo &ti = sc.terms[sc.hedgeTerms[h][i]];
                        l.push_back(ConnEnd(ti.shape, ti.cls));
                        printf(" %s", termKey(ti).c_str());
                    }
                    printf("\n");
                    hr->registerHyperedgeForRerouting(l); ++nreg;
                }
            }
            printf("op %ld initial-routing\n", s);
        } else {
            int nops = (int) r.range(1, 3);
            bool registered = false;
            for (int o = 0; o < nops; ++o) {
                long kind = r.range(0, 9);
                if (kind <= 3) {
                    // move a shape inside its cell
                    ShapeInfo &si = sc.shapes[r.range(0, (long) sc.shapes.size() - 1)];
                    int oox = si.ox, ooy = si.oy;
                    int lim_x = CW / 2 - 15 - si.hw, lim_y = CH / 2 - 15 - si.hh;
                    si.ox = (int) r.range(-lim_x, lim_x); si.oy = (int) r.range(-lim_y, lim_y);
                    int x0, y0, x1, y1; shapeRect(si, x0, y0, x1, y1);
                    if (rectHitsJunction(sc, x0, y0, x1, y1)) { si.ox = oox; si.oy = ooy; printf("op %ld skip-move %u\n", s, si.shape->id()); continue; }
                    printf("op %ld move-shape %u %d %d %d %d\n", s, si.shape->id(), x0, y0, x1, y1);
                    router->moveShape(si.shape, rectPoly(x0, y0, x1, y1));
                } else if (kind <= 5) {
                    // the client follows the router's advice: junctions go to their recommended positions
                    std::vector<JunctionRef *> js = liveJunctions(router);
                    for (size_t i = 0; i < js.size(); ++i) {
                        if (js[i]->attachedConnectors().empty() || ids.goneJunctions.count(js[i]->id())) continue;     // reported deleted, awaiting removal
                        Point p = js[i]->position(), q = js[i]->recommendedPosition();
                        if (p == q) continue;
                        printf("op %ld move-junction %u %s %s\n", s, js[i]->id(), vh::hx(q.x).c_str(), vh::hx(q.y).c_str());
                        router->moveJunction(js[i], q);
                    }
                    printf("op %ld apply-recommended\n", s);
                } else if (kind <= 7 && !registered) {
                    // full rerouting of one hyperedge, registered by one of its junctions
                    int h = (int) r.range(0, nh - 1);
                    std::vector<JunctionRef *> js = hedgeJunctions(sc, h, ids.goneJunctions);
                    if (js.empty()) { printf("op %ld skip-register %d\n", s, h); continue; }
                    JunctionRef *j = js[r.range(0, (long) js.size() - 1)];
                    printf("op %ld register-junction %d %u\n", s, h, j->id());
                    hr->registerHyperedgeForRerouting(j); ++nreg; registered = true;
                } else if (kind == 8) {
                    bool v = r.coin();
                    printf("op %ld set-option improveHyperedgeRoutesMovingJunctions %d\n", s, (int) v);
                    router->setRoutingOption(improveHyperedgeRoutesMovingJunctions, v);
                } else {
                    bool v = r.coin();
                    printf("op %ld set-option improveHyperedgeRoutesMovingAddingAndDeletingJunctions %d\n", s, (int) v);
                    router->setRoutingOption(improveHyperedgeRoutesMovingAddingAndDeletingJunctions, v);
                }
            }
            printf("op %ld process\n", s);
        }
        fflush(stdout);
        ids.snapshotBefore(router);
        router->processTransaction();
        ids.snapshotAfter(router);
        // The improver's lists are only (re)written when the improver runs; with both options off
        // they still hold the previous transaction's (now dangling) pointers, so they are not read.
        if (router->routingOption(improveHyperedgeRoutesMovingJunctions) ||
            router->routingOption(improveHyperedgeRoutesMovingAddingAndDeletingJunctions))
            dumpLists(ids, s, "imp", router->newAndDeletedObjectListsFromHyperedgeImprovement());
        else
            printf("nd %ld imp off\n", s);
        for (int i = 0; i < nreg; ++i) {
            char nm[16]; snprintf(nm, sizeof nm, "rr%d", i);
            dumpLists(ids, s, nm, hr->newAndDeletedObjectLists((size_t) i));
        }
        dumpState(sc, s);
        printf("done %ld\n", s);
    }
    delete router;
    // attribute leaks to the case that produced them (LSan's report goes to stderr)
#ifdef C12_HAVE_LSAN
    if (__lsan_do_recoverable_leak_check() != 0) { printf("leak 1\n"); g_leaks++; }   // (this process ran only this case)
#endif
    vh::endCase();
}

} // namespace

int main(int argc, char **argv) {
    vh::Args a = vh::parseArgs(argc, argv);
    if (a.mode == "ops") return c12ops::opsMain(a);      // op-level correspondence (c12_ops.h)
    long n = ((a.tier == "thorough") ? 1950 : 208) * a.scale;
    if (a.n >= 0) n = a.n;
    // One child process per case: a leak is then attributable to the case that caused it (the
    // child checks for leaks itself and prints `leak 1` inside the case block), and a sanitizer
    // abort / failed assertion leaves the case unterminated and is propagated as the exit status.
    for (long k = 0; k < n; ++k) {
        if (!a.want(k)) continue;
        fflush(stdout); fflush(stderr);
        FILE *errf = tmpfile();                 // the child's stderr, so that a crash can be quoted in the case
        pid_t pid = fork();
        if (pid < 0) { perror("fork"); return 3; }
        if (pid == 0) {
            if (errf) dup2(fileno(errf), 2);
            runCase(a, k, (int) (k % 13));
            fflush(stdout);
            _exit(0);
        }
        int status = 0;
        waitpid(pid, &status, 0);
        std::string err;
        if (errf) {
            rewind(errf);
            char buf[4096]; size_t n;
            while ((n = fread(buf, 1, sizeof buf, errf)) > 0) { err.append(buf, n); fwrite(buf, 1, n, stderr); }
            fclose(errf);
        }
        if (WIFEXITED(status) && WEXITSTATUS(status) == 0) continue;
        int code = WIFSIGNALED(status) ? 128 + WTERMSIG(status) : WEXITSTATUS(status);
        // replay of a single case: keep the protocol's CRASH convention (unterminated case + exit status)
        if (a.only >= 0) return code;
        // whole stream: close the case so that the remaining cases still run; the driver turns the
        // `crash` line (exit status + the assertion / sanitizer headline from the child's stderr) into
        // a verdict for exactly this case (replay it with --only to see the full report)
        std::string what = crashHeadline(err);
        printf("\ncrash %d %s\n", code, what.c_str());
        vh::endCase();
    }
    return 0;
}
