// C11 correspondence harness: libavoid pins / junctions / checkpoints.
// One case = one scene (rectangular shapes carrying connection pins, junctions, connectors
// attached by ConnEnd(shape, classId) / ConnEnd(junction) / free points, checkpoint lists) and a
// history of shape moves / resizes / junction moves / connector add+delete / pin+shape deletion,
// each followed by Router::processTransaction(). After every step the harness prints what the
// real library reports (ShapeConnectionPin::position()/directions()/isExclusive(),
// JunctionRef::position(), ConnRef::route()/displayRoute()); the Lean driver recomputes the pin
// positions with Model.Pins.pinPosition and runs the proven checkers of Check/Attach.lean.
//
// Geometry: the plane is cut into CELL x CELL cells; every shape / junction / free endpoint
// lives in its own cell and stays >= MARGIN away from the cell border for the whole history, so
// shapes never overlap and a route always exists; checkpoints lie on cell borders.
#include "common.h"
#include "libavoid/libavoid.h"
#include "libvpsc/assertions.h"
#include <map>
#include <set>
#include "c11_search.h"
using namespace Avoid;
using vh::hx;

static const long CELL = 256, MARGIN = 40, GRID = 3;

struct PinD {
    int id, shape; unsigned cls; double xo, yo; bool prop; double inside; unsigned dirs;
    double cost; ShapeConnectionPin *pin; bool live;
    int forceExcl = -1;     // class sharedpin: 0 = setExclusive(false), 1 = setExclusive(true), -1 = random as before
};
struct ShapeD { int id; long cx, cy; double x0, y0, x1, y1; ShapeRef *ref; bool live; };
struct JuncD { int id; long cx, cy; double x, y; bool fixed; JunctionRef *ref; };
struct EndD { char kind; int obj; unsigned cls; double x, y; };   // 'P' shape+class, 'J' junction, 'F' free point
struct ConnD { int id; bool orth; EndD e[2]; std::vector<Point> cps; std::vector<std::pair<unsigned, unsigned>> cpd; ConnRef *ref; bool live; };  // cpd: (arrival, departure) masks, empty = all ConnDirAll

static double q4(vh::Rng &r, long lo, long hi, bool frac) {     // lo..hi, optionally with quarter fractions
    double v = (double) r.range(lo, hi);
    if (frac && v < hi && r.coin(1, 4)) v += 0.25 * (double) r.range(1, 3);
    return v;
}

static void pts(const char *key, int id, const PolyLine &pl) {
    printf("%s %d %zu", key, id, pl.size());
    for (size_t i = 0; i < pl.size(); ++i) printf(" %s %s", hx(pl.ps[i].x).c_str(), hx(pl.ps[i].y).c_str());
    printf("\n");
}

// Number of visibility edges of the whole router (polyline, invisible and orthogonal graph) and how
// many of them are currently disabled (EdgeInf::isDisabled, set by VertInf::setVisibleDirections).
static void countEdges(Router *rt, long &n, long &dis) {
    n = 0; dis = 0;
    EdgeList *ls[3] = {&rt->visGraph, &rt->invisGraph, &rt->visOrthogGraph};
    for (int g = 0; g < 3; ++g)
        for (EdgeInf *e = ls[g]->begin(); e != ls[g]->end(); e = e->lstNext) { ++n; if (e->isDisabled()) ++dis; }
}

// Router whose public progress callback (called by processTransaction before every connector's
// path search, during crossing detection, before every crossing re-route search and at the end)
// records how many visibility edges are disabled at that moment: the state "between two calls of
// ConnRef::generatePath", which the model of generateCheckpointsPath says is "none"
// (Model/CheckpointLegs.lean).
struct ObsRouter : public Router {
    std::vector<std::pair<unsigned, long>> log;
    c11s::SearchTap *tap = nullptr;
    ObsRouter(unsigned flags) : Router(flags) {}
    bool shouldContinueTransactionWithProgress(unsigned, unsigned phase, unsigned, double) override {
        if (tap && phase == TransactionPhaseCrossingDetection) tap->crossing();
        if (phase == TransactionPhaseRouteSearch || phase == TransactionPhaseCrossingDetection ||
            phase == TransactionPhaseRerouteSearch || phase == TransactionPhaseCompleted) {
            long n, d; countEdges(this, n, d);
            if (log.size() < 400) log.push_back({phase, d});
        }
        return true;
    }
};

// The library's diagnostics of one transaction (err_printf writes to the C stream `stderr`): the FILE*
// variable is pointed at a memory stream for the duration (glibc), file descriptor 2 - where the
// sanitizers write - is not touched, and the text is passed on to the real stderr afterwards.
struct ErrCapture {
    FILE *saved, *mem; char *buf; size_t len;
    ErrCapture() : saved(nullptr), mem(nullptr), buf(nullptr), len(0) {
        fflush(stderr); saved = stderr; mem = open_memstream(&buf, &len); if (mem) stderr = mem;
    }
    std::string finish() {
        if (!mem) return "";
        fflush(mem); stderr = saved; fclose(mem); mem = nullptr;
        std::string t(buf ? buf : "", len); free(buf); buf = nullptr;
        fputs(t.c_str(), stderr);
        return t;
    }
    ~ErrCapture() { finish(); }
};

struct Scene {
    ObsRouter *router;
    c11s::SearchTap tap;
    int stepNo = 0;
    std::vector<ShapeD> shapes; std::vector<PinD> pins; std::vector<JuncD> juncs; std::vector<ConnD> conns;
    bool frac;

    void rectIn(vh::Rng &r, long cx, long cy, double &x0, double &y0, double &x1, double &y1) {
        long bx = cx * CELL, by = cy * CELL;
        double w = q4(r, 16, 96, frac), h = q4(r, 16, 96, frac);
        x0 = bx + MARGIN + q4(r, 0, (long) (CELL - 2 * MARGIN - 97), frac);
        y0 = by + MARGIN + q4(r, 0, (long) (CELL - 2 * MARGIN - 97), frac);
        x1 = x0 + w; y1 = y0 + h;
    }
    void emitEnd(const EndD &e) {
        if (e.kind == 'P') printf(" P %d %u", e.obj, e.cls);
        else if (e.kind == 'J') printf(" J %d", e.obj);
        else printf(" F %s %s", hx(e.x).c_str(), hx(e.y).c_str());
    }
    ConnEnd mkEnd(const EndD &e) {
        if (e.kind == 'P') return ConnEnd(shapes[e.obj].ref, e.cls);
        if (e.kind == 'J') return ConnEnd(juncs[e.obj].ref);
        return ConnEnd(Point(e.x, e.y));
    }
    void declConn(ConnD &c) {
        printf("conn %d %d", c.id, (int) c.orth); emitEnd(c.e[0]); emitEnd(c.e[1]); printf("\n");
        if (!c.cps.empty()) {
            printf("cps %d %zu", c.id, c.cps.size());
            for (auto &p : c.cps) printf(" %s %s", hx(p.x).c_str(), hx(p.y).c_str());
            printf("\n");
            if (!c.cpd.empty()) {
                printf("cpdirs %d %zu", c.id, c.cpd.size());
                for (auto &d : c.cpd) printf(" %u %u", d.first, d.second);
                printf("\n");
            }
        }
    }
    void makeConn(ConnD &c) {
        c.ref = new ConnRef(router, mkEnd(c.e[0]), mkEnd(c.e[1]), (unsigned) (1000 + c.id));
        c.ref->setRoutingType(c.orth ? ConnType_Orthogonal : ConnType_PolyLine);
        if (!c.cps.empty()) {
            std::vector<Checkpoint> v;
            for (size_t i = 0; i < c.cps.size(); ++i)
                v.push_back(c.cpd.empty() ? Checkpoint(c.cps[i]) : Checkpoint(c.cps[i], (ConnDirFlags) c.cpd[i].first, (ConnDirFlags) c.cpd[i].second));
            c.ref->setRoutingCheckpoints(v);
        }
        bool restricted = false;
        for (auto &d : c.cpd) if (d.first != 15 || d.second != 15) restricted = true;
        tap.conns[c.ref->id()] = {c.ref, c.orth, restricted};
        c.live = true;
    }
    // processTransaction(); "skips": the connectors for which generateCheckpointsPath reported a skipped
    // checkpoint during this transaction ("Warning: skipping checkpoint for connector <id> at (x, y).")
    void transact() {
        std::string text;
        tap.begin();
        { ErrCapture cap; router->processTransaction(); text = cap.finish(); }
        std::set<int> sk;
        const std::string key = "skipping checkpoint for connector ";
        for (size_t p = text.find(key); p != std::string::npos; p = text.find(key, p + 1)) sk.insert(atoi(text.c_str() + p + key.size()) - 1000);
        printf("skips %zu", sk.size()); for (int c : sk) printf(" %d", c); printf("\n");
    }
    void observe() {
        for (auto &s : shapes) if (s.live) {
            Box b = s.ref->polygon().offsetBoundingBox(0.0);
            printf("box %d %s %s %s %s\n", s.id, hx(b.min.x).c_str(), hx(b.min.y).c_str(), hx(b.max.x).c_str(), hx(b.max.y).c_str());
        }
        for (auto &p : pins) if (p.live) {
            Point q = p.pin->position();
            printf("pinpos %d %s %s %u %d\n", p.id, hx(q.x).c_str(), hx(q.y).c_str(), (unsigned) p.pin->directions(), (int) p.pin->isExclusive());
        }
        for (auto &j : juncs) { Point q = j.ref->position(), rq = j.ref->recommendedPosition();
            printf("jpos %d %s %s %s %s %d\n", j.id, hx(q.x).c_str(), hx(q.y).c_str(), hx(rq.x).c_str(), hx(rq.y).c_str(), (int) j.ref->positionFixed()); }
        for (auto &c : conns) if (c.live) {
            // what the library itself says the two ends are attached to (ConnRef::endpointConnEnds)
            std::pair<ConnEnd, ConnEnd> ce = c.ref->endpointConnEnds();
            printf("ends %d", c.id);
            for (int e = 0; e < 2; ++e) {
                const ConnEnd &E = e ? ce.second : ce.first;
                // the generator continues from the library's view of the attachment (it can differ
                // from what was requested: class retarget-jmove), so that later steps stay legal
                if (E.type() == ConnEndShapePin && E.shape()) {
                    printf(" P %d %u", (int) E.shape()->id() - 10, E.pinClassId());
                    c.e[e].kind = 'P'; c.e[e].obj = (int) E.shape()->id() - 10; c.e[e].cls = E.pinClassId();
                } else if (E.type() == ConnEndJunction && E.junction()) {
                    printf(" J %d", (int) E.junction()->id() - 100);
                    c.e[e].kind = 'J'; c.e[e].obj = (int) E.junction()->id() - 100;
                } else {
                    Point q = E.position(); printf(" F %s %s", hx(q.x).c_str(), hx(q.y).c_str());
                    c.e[e].kind = 'F'; c.e[e].x = q.x; c.e[e].y = q.y;
                }
            }
            printf("\n");
            pts("route", c.id, c.ref->route());
            pts("disp", c.id, c.ref->displayRoute());
        }
        fputs(tap.take().c_str(), stdout);      // the searches of this transaction (c11_search.h)
        observeVisibility();
        printf("endstep\n");
        ++stepNo;
    }
    // State of the visibility-direction machinery, read through public members only (Router::vertices,
    // VertInf::visList / orthogVisList, EdgeInf::isDisabled / otherVert, VertInf::directionFrom):
    //   cpv <conn> <k> <n> {<orth> <objID> <vn> <x> <y> <dir> <disabled>}*n   every visibility edge of
    //        checkpoint vertex k of the connector: the other end, its direction as seen from the
    //        checkpoint (what setVisibleDirections tests) and whether the edge is disabled now
    //   probe <conn> <k> <mask> <n> {<disabled>}*n   the same edges after the harness itself called
    //        setVisibleDirections(mask) on the vertex, followed by one for the restoring call with
    //        ConnDirAll (only for vertices none of whose edges is disabled, so the probe is state-neutral)
    //   visall <edges> <disabled>     whole router after the transaction
    //   viscb <m> {<phase> <disabled>}*m   whole router at every progress callback of the transaction
    void observeVisibility() {
        for (auto &c : conns) if (c.live && !c.cps.empty()) {
            for (size_t k = 0; k < c.cps.size(); ++k) {
                VertInf *v = nullptr;
                for (VertInf *i = router->vertices.connsBegin(); i != router->vertices.shapesBegin() && i != router->vertices.end(); i = i->lstNext)
                    if (i->id.isConnCheckpoint() && i->id.objID == c.ref->id() && i->id.vn == (unsigned short) (2 + k)) { v = i; break; }
                if (!v) { printf("cpv %d %zu -1\n", c.id, k); continue; }
                std::vector<EdgeInf *> es;
                for (auto e : v->visList) es.push_back(e);
                for (auto e : v->orthogVisList) es.push_back(e);
                bool anyDis = false;
                printf("cpv %d %zu %zu", c.id, k, es.size());
                for (auto e : es) {
                    VertInf *o = e->otherVert(v);
                    printf(" %d %u %u %s %s %u %d", (int) e->isOrthogonal(), o->id.objID, (unsigned) o->id.vn, hx(o->point.x).c_str(), hx(o->point.y).c_str(),
                           (unsigned) o->directionFrom(v), (int) e->isDisabled());
                    if (e->isDisabled()) anyDis = true;
                }
                printf("\n");
                if (anyDis || es.empty()) continue;
                unsigned mask = 1 + (unsigned) ((7 * stepNo + 3 * c.id + 5 * (int) k) % 14);
                for (int pass = 0; pass < 2; ++pass) {
                    unsigned m = pass ? (unsigned) ConnDirAll : mask;
                    v->setVisibleDirections((ConnDirFlags) m);
                    printf("probe %d %zu %u %zu", c.id, k, m, es.size());
                    for (auto e : es) printf(" %d", (int) e->isDisabled());
                    printf("\n");
                }
            }
        }
        long n, d; countEdges(router, n, d);
        printf("visall %ld %ld\n", n, d);
        printf("viscb %zu", router->log.size());
        for (auto &l : router->log) printf(" %u %ld", l.first, l.second);
        printf("\n");
        router->log.clear();
    }
};

// The libraries are compiled with -DUSE_ASSERT_EXCEPTIONS (a build mode the library provides): a
// failed COLA_ASSERT throws vpsc::CriticalFailure instead of aborting, so one assertion failure
// costs one case, is reported in the stream ("assert" line) and the run goes on. The router of
// such a case is left in an undefined state and the objects of the interrupted transaction are
// unreachable, so the harness then re-executes itself to continue with the next case in a fresh
// process image (`--from K`); the exit-time leak check of the run so far is thereby skipped.
#include <unistd.h>

static std::string oneLine(std::string s) {
    for (auto &c : s) if (c == ' ' || c == '\n' || c == '\t') c = '_';
    return s;
}

int main(int argc, char **argv) {
    vh::Args a = vh::parseArgs(argc, argv);
    bool thorough = (a.tier == "thorough");
    long ncases = (thorough ? 6000 : 1500) * a.scale;
    if (a.n >= 0) ncases = a.n;
    // generator classes that expose suspected genuine defects are off unless requested by --mode
    // (check/props/C11.py switches them on once a matching known_findings entry exists):
    bool borderMode = a.mode.find("border0") != std::string::npos;      // pin on the border line of its shape, shapeBufferDistance 0
    bool cpJunctionMode = a.mode.find("cpjunction") != std::string::npos; // checkpoints on a connector with a junction end
    bool delAttachedMode = a.mode.find("delattached") != std::string::npos; // deleteShape of a shape with attached connectors
    // class cpdirs: checkpoints with arrival / departure direction masks (all 15 x 15 combinations), most
    // connectors carry checkpoints and have a free end, crossing / shared-path penalties (the crossing stage
    // searches a connector a second time within the transaction) and histories that drag free connector ends
    // (a later search of the same connector over visibility edges that persisted)
    bool cpDirsMode = a.mode.find("cpdirs") != std::string::npos;
    if (cpDirsMode && a.n < 0) ncases = (thorough ? 2000 : 300) * a.scale;
    // class sharedpin: a hub shape carries a pin class (number 7) of 1-2 SHARED (non-exclusive) pins placed off the
    // shape centre and off the corner lines (generic proportional / absolute offsets, side pins, inside offsets), in a
    // third of the scenes mixed with an exclusive pin of the same class; 2-4 orthogonal connectors are attached to
    // that class - with their DESTINATION end in 4 of 5 cases - from pins of other shapes, junctions and free points
    // lying in other grid cells, so that the later ones have to bend onto the row / column of a pin that already has a
    // user somewhere in free space; then the usual random connectors and the usual history of moves / resizes / ...
    bool sharedPinMode = a.mode.find("sharedpin") != std::string::npos;
    if (sharedPinMode && a.n < 0) ncases = (thorough ? 600 : 200) * a.scale;
    long from = 0;
    for (int i = 1; i + 1 < argc; ++i) if (std::string(argv[i]) == "--from") from = atol(argv[i + 1]);
    for (long k = from; k < ncases; ++k) {
        if (!a.want(k)) continue;
        vh::Rng r = vh::caseRng(a.seed, k);
        Scene sc;
        // ---- configuration
        int rmode = (int) r.range(0, 9);            // 0-5 orthogonal only, 6-7 polyline only, 8-9 both
        if (sharedPinMode && rmode >= 6 && rmode <= 7) rmode = r.coin(1, 4) ? 8 : 0;
        bool allowOrth = rmode <= 5 || rmode >= 8, allowPoly = rmode >= 6;
        static const double bufs[] = {0, 2, 4, 8};
        double buffer = bufs[r.range(0, 3)];
        sc.frac = r.coin(1, 3);
        bool overcap = r.coin(1, 8);
        int nshapes = (int) r.range(2, 4), njunc = (int) r.range(0, 2);
        // cpdirs, polyline-only routers: half of the scenes are sparse (1-2 shapes, no junctions, no sentinel
        // obstacles - those only matter for orthogonal routing), so that a checkpoint vertex has few visibility
        // edges and a side of it can be without any
        bool sparse = cpDirsMode && !allowOrth && r.coin();
        if (sparse) { nshapes = (int) r.range(1, 2); njunc = 0; }
        std::vector<std::pair<long, long>> cells;
        for (long x = 0; x < GRID; ++x) for (long y = 0; y < GRID; ++y) cells.push_back({x, y});
        r.shuffle(cells);
        size_t ci = 0;
        // ---- shapes + pins (descriptors first; the tag depends on them)
        int pinId = 0;
        bool borderPin0 = false;
        // pin descriptors of shape number s (appended to sc.pins); fixBorder: lift border pins off the
        // border line when the buffer is zero (class border0 is a separate generator mode)
        auto genPinDescs = [&](int s, bool fixBorder) {
            ShapeD &sd = sc.shapes[s];
            int np = (int) r.range(1, 5);
            for (int p = 0; p < np; ++p) {
                PinD pd; pd.id = pinId++; pd.shape = s; pd.cls = (unsigned) r.range(1, 2 + (np > 3)); pd.live = true; pd.pin = nullptr;
                pd.prop = r.coin(3, 5);
                double w = sd.x1 - sd.x0, h = sd.y1 - sd.y0;
                for (int ax = 0; ax < 2; ++ax) {
                    double len = ax ? h : w, o;
                    if (pd.prop) {
                        int c = (int) r.range(0, 5);
                        o = c == 0 ? 0 : c == 1 ? 1 : c == 2 ? 0.5 : c == 3 ? r.range(0, 8) / 8.0 : r.range(0, 16) / 16.0;
                    } else {
                        int c = (int) r.range(0, 5);
                        o = c == 0 ? 0 : c == 1 ? -1 : c == 2 ? len : c == 3 ? (double) r.range(0, (long) len) : q4(r, 0, (long) len, true);
                        if (o > len) o = len;
                    }
                    (ax ? pd.yo : pd.xo) = o;
                }
                static const double ins[] = {0, 0, 1, 2.5, 5};
                pd.inside = ins[r.range(0, 4)];
                if (fixBorder && pd.inside == 0) pd.inside = 2.5;
                pd.dirs = r.coin(2, 5) ? 0u : (unsigned) r.range(1, 15);
                static const double costs[] = {0, 0, 0, 10, 50.5};
                pd.cost = costs[r.range(0, 4)];
                // a pin equal (class, dirs, offsets, inside) to an earlier one of the shape would be
                // dropped by the std::set in Obstacle::addConnectionPin; keep descriptors distinct
                bool dup = false;
                for (auto &o : sc.pins) if (o.shape == s && o.cls == pd.cls && o.dirs == pd.dirs && o.xo == pd.xo && o.yo == pd.yo && o.inside == pd.inside) dup = true;
                if (dup) { --pinId; continue; }
                sc.pins.push_back(pd);
            }
        };
        for (int s = 0; s < nshapes; ++s) {
            ShapeD sd; sd.id = s; sd.cx = cells[ci].first; sd.cy = cells[ci].second; ++ci; sd.live = true; sd.ref = nullptr;
            sc.rectIn(r, sd.cx, sd.cy, sd.x0, sd.y0, sd.x1, sd.y1);
            sc.shapes.push_back(sd);
            genPinDescs(s, false);
        }
        const unsigned HUBCLS = 7;
        if (sharedPinMode) {
            ShapeD &sd = sc.shapes[0];
            double w = sd.x1 - sd.x0, h = sd.y1 - sd.y0;
            int nh = (int) r.range(1, 2);
            bool mixExcl = r.coin(1, 3);
            for (int p = 0; p < nh + (mixExcl ? 1 : 0); ++p) {
                PinD pd; pd.id = pinId++; pd.shape = 0; pd.cls = HUBCLS; pd.live = true; pd.pin = nullptr;
                pd.prop = r.coin(3, 4);
                int side = (int) r.range(0, 5);         // 0-1: interior point, 2-5: on the left / right / top / bottom side
                for (int ax = 0; ax < 2; ++ax) {
                    double len = ax ? h : w, o;
                    bool onSide = (ax == 0 && (side == 2 || side == 3)) || (ax == 1 && (side == 4 || side == 5));
                    bool hi = side == 3 || side == 5;
                    if (pd.prop) {
                        static const double gen[] = {0.125, 0.25, 0.375, 0.625, 0.75, 0.875, 0.3125, 0.8125};
                        o = onSide ? (hi ? 1 : 0) : gen[r.range(0, 7)];
                    } else {
                        o = onSide ? (hi ? len : 0) : (double) r.range(1, std::max(1L, (long) len - 1));
                        if (!onSide && o * 2 == len) o += 1;
                        if (o > len) o = len;
                    }
                    (ax ? pd.yo : pd.xo) = o;
                }
                static const double ins[] = {0, 0, 1, 2.5};
                pd.inside = ins[r.range(0, 3)];
                int dk = (int) r.range(0, 3);
                pd.dirs = dk == 0 ? 0u : dk == 1 ? 15u : side == 2 ? (unsigned) ConnDirLeft : side == 3 ? (unsigned) ConnDirRight : side == 4 ? (unsigned) ConnDirUp :
                          side == 5 ? (unsigned) ConnDirDown : 15u;
                pd.cost = r.coin(1, 4) ? 10 : 0;
                pd.forceExcl = p < nh ? 0 : 1;
                bool dup = false;
                for (auto &o : sc.pins) if (o.shape == 0 && o.cls == pd.cls && o.dirs == pd.dirs && o.xo == pd.xo && o.yo == pd.yo && o.inside == pd.inside) dup = true;
                if (dup) { --pinId; continue; }
                sc.pins.push_back(pd);
            }
        }
        // a pin lying on the border line of its shape while the routing buffer is zero: the
        // border is itself a visibility line (own generator class, see report)
        if (buffer == 0) for (auto &p : sc.pins) {
            const ShapeD &sd = sc.shapes[p.shape];
            double w = sd.x1 - sd.x0, h = sd.y1 - sd.y0;
            bool onX = (p.prop ? (p.xo == 0 || p.xo == 1) : (p.xo == 0 || p.xo == -1 || p.xo == w)) && p.inside == 0;
            bool onY = (p.prop ? (p.yo == 0 || p.yo == 1) : (p.yo == 0 || p.yo == -1 || p.yo == h)) && p.inside == 0;
            if (onX || onY) borderPin0 = true;
        }
        if (borderPin0 && allowOrth && !borderMode) buffer = bufs[r.range(1, 3)], borderPin0 = false;
        const char *tag = (borderPin0 && allowOrth) ? "border0" : sharedPinMode ? "sharedpin" : cpDirsMode ? (!allowPoly ? "cpdirs-orth" : !allowOrth ? (sparse ? "cpdirs-poly-sparse" : "cpdirs-poly") : "cpdirs-mixed") :
                          overcap ? "overcap" : !allowPoly ? "orth" : !allowOrth ? "poly" : "mixed";
        vh::beginCase(k, tag);
        try {
        sc.router = new ObsRouter((allowOrth ? OrthogonalRouting : 0) | (allowPoly ? PolyLineRouting : 0));
        sc.router->setTransactionUse(true);
        sc.tap.router = sc.router; sc.tap.caseIdx = k; sc.tap.sampleEvery = thorough ? 24 : 8; sc.tap.enabled = !thorough || (k % 2 == 0); sc.router->tap = &sc.tap; sc.router->setDebugHandler(&sc.tap);
        sc.router->setRoutingParameter(shapeBufferDistance, buffer);
        double nudge = r.coin() ? 4.0 : 1.0;
        sc.router->setRoutingParameter(idealNudgingDistance, nudge);
        // hyperedge improvement (default on) rewrites displayRoute() of connectors attached to
        // junctions; with it off those connectors are checked like all others
        bool hyperImprove = r.coin();
        sc.router->setRoutingOption(improveHyperedgeRoutesMovingJunctions, hyperImprove);
        printf("cfg %d %d %s %s %d\n", (int) allowOrth, (int) allowPoly, hx(buffer).c_str(), hx(nudge).c_str(), (int) hyperImprove);
        if (cpDirsMode) {
            static const double pens[] = {0, 0, 50, 200, 400};
            double xpen = pens[r.range(0, 4)], spen = r.coin(1, 4) ? 110.0 : 0.0, segpen = r.coin() ? 50.0 : 10.0;
            sc.router->setRoutingParameter(segmentPenalty, segpen);
            sc.router->setRoutingParameter(crossingPenalty, xpen);
            sc.router->setRoutingParameter(fixedSharedPathPenalty, spen);
            printf("pens %s %s %s\n", hx(segpen).c_str(), hx(xpen).c_str(), hx(spen).c_str());
        }
        for (auto &sd : sc.shapes) {
            printf("shape %d %s %s %s %s\n", sd.id, hx(sd.x0).c_str(), hx(sd.y0).c_str(), hx(sd.x1).c_str(), hx(sd.y1).c_str());
            Rectangle rect(Point(sd.x0, sd.y0), Point(sd.x1, sd.y1));
            sd.ref = new ShapeRef(sc.router, rect, (unsigned) (10 + sd.id));
        }
        if (!sparse) {   // Two small sentinel obstacles beyond opposite corners of the grid. libavoid widens the
            // permitted directions of connection points lying on the first / last sweep position
            // of the whole scene (fixConnectionPointVisibilityOnOutsideOfVisibilityGraph); with
            // the sentinels no pin is ever on such an extreme position.
            Rectangle s1(Point(-80, -80), Point(-64, -64)), s2(Point(GRID * CELL + 64, GRID * CELL + 64), Point(GRID * CELL + 80, GRID * CELL + 80));
            new ShapeRef(sc.router, s1, 5); new ShapeRef(sc.router, s2, 6);
        }
        auto createPin = [&](PinD &pd) {
            int exclSet = (int) r.range(0, 3);       // 0,1: leave default; 2: setExclusive(false); 3: setExclusive(true)
            if (pd.forceExcl >= 0) exclSet = 2 + pd.forceExcl;
            printf("pin %d %d %u %s %s %d %s %u %s %d\n", pd.id, pd.shape, pd.cls, hx(pd.xo).c_str(), hx(pd.yo).c_str(), (int) pd.prop,
                   hx(pd.inside).c_str(), pd.dirs, hx(pd.cost).c_str(), exclSet <= 1 ? -1 : exclSet - 2);
            fflush(stdout);
            pd.pin = new ShapeConnectionPin(sc.shapes[pd.shape].ref, pd.cls, pd.xo, pd.yo, pd.prop, pd.inside, (ConnDirFlags) pd.dirs);
            if (exclSet >= 2) pd.pin->setExclusive(exclSet == 3);
            if (pd.cost > 0) pd.pin->setConnectionCost(pd.cost);
        };
        for (auto &pd : sc.pins) createPin(pd);
        for (int j = 0; j < njunc; ++j) {
            JuncD jd; jd.id = j; jd.cx = cells[ci].first; jd.cy = cells[ci].second; ++ci;
            jd.x = jd.cx * CELL + q4(r, 64, 192, sc.frac); jd.y = jd.cy * CELL + q4(r, 64, 192, sc.frac);
            jd.fixed = r.coin();
            printf("junction %d %s %s %d\n", jd.id, hx(jd.x).c_str(), hx(jd.y).c_str(), (int) jd.fixed);
            jd.ref = new JunctionRef(sc.router, Point(jd.x, jd.y), (unsigned) (100 + j));
            if (jd.fixed) jd.ref->setPositionFixed(true);
            sc.juncs.push_back(jd);
        }
        // ---- helpers for moving objects inside their own cell
        auto moveInCell = [&](ShapeD &s) {
            double w = s.x1 - s.x0, h = s.y1 - s.y0;
            double nx0 = s.cx * CELL + MARGIN + q4(r, 0, (long) (CELL - 2 * MARGIN - w) - 1, sc.frac);
            double ny0 = s.cy * CELL + MARGIN + q4(r, 0, (long) (CELL - 2 * MARGIN - h) - 1, sc.frac);
            double dx = nx0 - s.x0, dy = ny0 - s.y0;
            printf("op move %d %s %s\n", s.id, hx(dx).c_str(), hx(dy).c_str()); fflush(stdout);
            sc.router->moveShape(s.ref, dx, dy);
            s.x0 += dx; s.x1 += dx; s.y0 += dy; s.y1 += dy;
        };
        auto resizeInCell = [&](ShapeD &s) {
            sc.rectIn(r, s.cx, s.cy, s.x0, s.y0, s.x1, s.y1);
            printf("op resize %d %s %s %s %s\n", s.id, hx(s.x0).c_str(), hx(s.y0).c_str(), hx(s.x1).c_str(), hx(s.y1).c_str()); fflush(stdout);
            sc.router->moveShape(s.ref, Rectangle(Point(s.x0, s.y0), Point(s.x1, s.y1)));
        };
        auto moveJunc = [&](JuncD &j) {
            double nx = j.cx * CELL + q4(r, 64, 192, sc.frac), ny = j.cy * CELL + q4(r, 64, 192, sc.frac);
            printf("op jmove %d %s %s\n", j.id, hx(nx - j.x).c_str(), hx(ny - j.y).c_str()); fflush(stdout);
            sc.router->moveJunction(j.ref, nx - j.x, ny - j.y);
            j.x = nx; j.y = ny;
        };
        // ---- moves / resizes of freshly created objects, i.e. while their Add action is still queued
        // (Router::moveShape / moveJunction then merge into the Add through setNewPoly / setPosition);
        // the pins were added before, so they have to follow the final geometry
        for (auto &sd : sc.shapes) if (r.coin(1, 3)) { if (r.coin()) moveInCell(sd); else resizeInCell(sd); }
        for (auto &jd : sc.juncs) if (r.coin(1, 3)) moveJunc(jd);
        // cells kept free for a shape / a junction created later in the history
        long lateShapeCell = -1, lateJuncCell = -1;
        if (ci + 1 < cells.size()) lateShapeCell = (long) ci++;
        if (ci + 1 < cells.size()) lateJuncCell = (long) ci++;
        // ---- connector generator (also used by the add-connector step)
        std::set<std::pair<long, long>> cpUsed;
        // Two connectors between the same pair of junctions form a cyclic hyperedge, which
        // HyperedgeImprover::execute skips *and leaks* (C15 finding candidate, see report); at
        // most one junction-to-junction connector per scene keeps every hyperedge a tree.
        bool haveJJ = false;
        size_t freeCellBase = ci;
        auto capacityLeft = [&](int shape, unsigned cls) -> long {
            long cap = 0; bool inf = false;
            for (auto &p : sc.pins) if (p.live && p.shape == shape && p.cls == cls) { if (p.pin->isExclusive()) ++cap; else inf = true; }
            if (inf) return 1000;
            for (auto &c : sc.conns) if (c.live) for (int e = 0; e < 2; ++e)
                if (c.e[e].kind == 'P' && c.e[e].obj == shape && c.e[e].cls == cls) --cap;
            return cap;
        };
        auto genConn = [&](ConnD &c) -> bool {
            c.id = (int) sc.conns.size(); c.live = false; c.ref = nullptr; c.cps.clear(); c.cpd.clear();
            c.orth = allowOrth && (!allowPoly || r.coin());
            int usedShape = -1, usedJ = -1;
            for (int e = 0; e < 2; ++e) {
                EndD &E = c.e[e];
                int kind = (int) r.range(0, 9);
                if (cpDirsMode) kind = kind <= 3 ? 0 : kind <= 8 ? 9 : 6;      // 40% pin, 50% free point, 10% junction
                E.kind = 'F';
                if (kind <= 5) {                          // pin end
                    std::vector<std::pair<int, unsigned>> opts;
                    for (auto &p : sc.pins) if (p.live && sc.shapes[p.shape].live && p.shape != usedShape &&
                                                (overcap || capacityLeft(p.shape, p.cls) > 0)) opts.push_back({p.shape, p.cls});
                    if (!opts.empty()) { auto o = r.pick(opts); E.kind = 'P'; E.obj = o.first; E.cls = o.second; usedShape = o.first; }
                } else if (kind <= 7 && !sc.juncs.empty()) {
                    int j = (int) r.range(0, (long) sc.juncs.size() - 1);
                    if (usedJ < 0 || (j != usedJ && !haveJJ)) { E.kind = 'J'; E.obj = j; if (usedJ >= 0) haveJJ = true; usedJ = j; }
                }
                if (E.kind == 'F') {
                    // free point in a cell not occupied by a shape or junction (or, when all are
                    // taken, on a cell border line)
                    if (freeCellBase < cells.size()) {
                        auto cell = cells[freeCellBase + r.range(0, (long) (cells.size() - freeCellBase) - 1)];
                        E.x = cell.first * CELL + q4(r, 8, CELL - 8, sc.frac); E.y = cell.second * CELL + q4(r, 8, CELL - 8, sc.frac);
                    } else { E.x = (double) (r.range(0, GRID) * CELL); E.y = q4(r, 0, GRID * CELL, sc.frac); }
                }
            }
            if (c.e[0].kind == 'F' && c.e[1].kind == 'F' && c.e[0].x == c.e[1].x && c.e[0].y == c.e[1].y) return false;
            bool hasJ = c.e[0].kind == 'J' || c.e[1].kind == 'J';
            if (r.coin(cpDirsMode ? 8 : 3, 10) && (!hasJ || cpJunctionMode)) {
                int ncp = (int) r.range(1, 3);
                for (int i = 0; i < ncp; ++i) {
                    // on a cell border line: >= MARGIN away from every shape for the whole history
                    long line = r.range(0, GRID) * CELL; long along = r.range(0, GRID * CELL / 8) * 8;
                    Point p = r.coin() ? Point((double) line, (double) along) : Point((double) along, (double) line);
                    if (cpUsed.count({(long) p.x, (long) p.y})) continue;
                    bool clash = false;
                    for (int e = 0; e < 2; ++e) if (c.e[e].kind == 'F' && c.e[e].x == p.x && c.e[e].y == p.y) clash = true;
                    if (clash) continue;
                    cpUsed.insert({(long) p.x, (long) p.y});
                    c.cps.push_back(p);
                }
                if (cpDirsMode) for (size_t i = 0; i < c.cps.size(); ++i) {
                    // (arrival, departure): 35% (All, restricted), 15% (restricted, All), 35% both restricted, 15% (All, All);
                    // a restricted mask is a single side (60%) or any of 1..14
                    auto restricted = [&]() -> unsigned { return r.coin(3, 5) ? (1u << r.range(0, 3)) : (unsigned) r.range(1, 14); };
                    int w = (int) r.range(0, 19);
                    unsigned arr = (w < 7 || w >= 17) ? 15u : restricted(), dep = (w >= 7 && w < 10) || w >= 17 ? 15u : restricted();
                    c.cpd.push_back({arr, dep});
                }
            }
            return true;
        };
        if (sharedPinMode) {
            int nhub = (int) r.range(2, 4);
            for (int i = 0; i < nhub; ++i) {
                ConnD c; bool ok = false;
                int hubEnd = r.coin(4, 5) ? 1 : 0;
                for (int t = 0; t < 6 && !ok; ++t) {
                    if (!genConn(c)) continue;
                    const EndD &o = c.e[1 - hubEnd];
                    if (o.kind == 'P' && o.obj == 0) continue;
                    ok = true;
                }
                if (!ok) continue;
                c.e[hubEnd].kind = 'P'; c.e[hubEnd].obj = 0; c.e[hubEnd].cls = HUBCLS;
                if (allowOrth) c.orth = true;
                if (c.e[1 - hubEnd].kind == 'J' ? !cpJunctionMode : !r.coin(1, 5)) { c.cps.clear(); c.cpd.clear(); }
                sc.declConn(c);
                sc.makeConn(c);
                sc.conns.push_back(c);
            }
        }
        int nconn = (int) r.range(sharedPinMode ? 0 : 1, sharedPinMode ? 2 : 6);
        for (int i = 0; i < nconn; ++i) {
            ConnD c;
            if (!genConn(c)) continue;
            sc.declConn(c);
            sc.makeConn(c);
            sc.conns.push_back(c);
        }
        printf("step 0 init\n"); fflush(stdout);
        sc.transact();
        sc.observe();
        // ---- history
        int nsteps = (int) (thorough ? r.range(2, 7) : r.range(1, 4));
        for (int st = 1; st <= nsteps; ++st) {
            int nops = (int) r.range(1, 2);
            bool retargeted = false;     // at most one re-target per transaction: the library's view of the
                                         // ends is read back only after the transaction (see observe())
            for (int o = 0; o < nops; ++o) {
                int kind = (int) r.range(0, 25);
                std::vector<int> liveShapes;
                for (auto &s : sc.shapes) if (s.live) liveShapes.push_back(s.id);
                if (cpDirsMode && !retargeted && r.coin(1, 2)) {
                    // drag the free end of a connector that has checkpoints: the connector is searched again
                    // while its checkpoint vertices keep the visibility edges of the previous search
                    std::vector<std::pair<int, int>> cand;
                    for (auto &c : sc.conns) if (c.live && !c.cps.empty()) for (int e = 0; e < 2; ++e) if (c.e[e].kind == 'F') cand.push_back({c.id, e});
                    if (!cand.empty()) {
                        auto ce = r.pick(cand); ConnD &c = sc.conns[ce.first]; int e = ce.second;
                        EndD N; N.kind = 'F'; N.obj = -1; N.cls = 0;
                        if (freeCellBase < cells.size()) {
                            auto cell = cells[freeCellBase + r.range(0, (long) (cells.size() - freeCellBase) - 1)];
                            N.x = cell.first * CELL + q4(r, 8, CELL - 8, sc.frac); N.y = cell.second * CELL + q4(r, 8, CELL - 8, sc.frac);
                        } else { N.x = (double) (r.range(0, GRID) * CELL); N.y = q4(r, 0, GRID * CELL, sc.frac); }
                        bool clash = c.e[1 - e].kind == 'F' && c.e[1 - e].x == N.x && c.e[1 - e].y == N.y;
                        for (auto &p : c.cps) if (p.x == N.x && p.y == N.y) clash = true;
                        if (!clash) {
                            retargeted = true;
                            printf("op retarget %d %d", c.id, e); sc.emitEnd(N); printf("\n"); fflush(stdout);
                            c.e[e] = N;
                            if (e == 0) c.ref->setSourceEndpoint(sc.mkEnd(N)); else c.ref->setDestEndpoint(sc.mkEnd(N));
                            continue;
                        }
                    }
                }
                if (kind == 24) {
                    // a new shape with pins, moved / resized in the SAME transaction, and a connector on it
                    if (lateShapeCell < 0) continue;
                    ShapeD sd; sd.id = (int) sc.shapes.size(); sd.cx = cells[lateShapeCell].first; sd.cy = cells[lateShapeCell].second; sd.live = true;
                    lateShapeCell = -1;
                    sc.rectIn(r, sd.cx, sd.cy, sd.x0, sd.y0, sd.x1, sd.y1);
                    printf("op addshape %d\nshape %d %s %s %s %s\n", sd.id, sd.id, hx(sd.x0).c_str(), hx(sd.y0).c_str(), hx(sd.x1).c_str(), hx(sd.y1).c_str());
                    Rectangle rect(Point(sd.x0, sd.y0), Point(sd.x1, sd.y1));
                    sd.ref = new ShapeRef(sc.router, rect, (unsigned) (10 + sd.id));
                    sc.shapes.push_back(sd);
                    size_t firstPin = sc.pins.size();
                    genPinDescs(sd.id, buffer == 0 && allowOrth && !borderMode);
                    for (size_t pi = firstPin; pi < sc.pins.size(); ++pi) createPin(sc.pins[pi]);
                    if (r.coin(3, 4)) { if (r.coin()) moveInCell(sc.shapes[sd.id]); else resizeInCell(sc.shapes[sd.id]); }
                    ConnD c;
                    if (sc.pins.size() > firstPin && sc.conns.size() < 11 && genConn(c)) {
                        const PinD &pp = sc.pins[firstPin + r.range(0, (long) (sc.pins.size() - firstPin) - 1)];
                        int e = (int) r.range(0, 1);
                        if (!(c.e[1 - e].kind == 'P' && c.e[1 - e].obj == sd.id)) {
                            c.e[e].kind = 'P'; c.e[e].obj = sd.id; c.e[e].cls = pp.cls;
                            if (c.e[1 - e].kind == 'J' && !cpJunctionMode) c.cps.clear();
                            sc.declConn(c); fflush(stdout); sc.makeConn(c); sc.conns.push_back(c);
                        }
                    }
                    continue;
                }
                if (kind == 25) {
                    // a new junction, moved in the SAME transaction, and a connector on it
                    if (lateJuncCell < 0) continue;
                    JuncD jd; jd.id = (int) sc.juncs.size(); jd.cx = cells[lateJuncCell].first; jd.cy = cells[lateJuncCell].second;
                    lateJuncCell = -1;
                    jd.x = jd.cx * CELL + q4(r, 64, 192, sc.frac); jd.y = jd.cy * CELL + q4(r, 64, 192, sc.frac);
                    jd.fixed = r.coin();
                    printf("op addjunction %d\njunction %d %s %s %d\n", jd.id, jd.id, hx(jd.x).c_str(), hx(jd.y).c_str(), (int) jd.fixed);
                    jd.ref = new JunctionRef(sc.router, Point(jd.x, jd.y), (unsigned) (100 + jd.id));
                    if (jd.fixed) jd.ref->setPositionFixed(true);
                    sc.juncs.push_back(jd);
                    if (r.coin(3, 4)) moveJunc(sc.juncs[jd.id]);
                    ConnD c;
                    if (sc.conns.size() < 11 && genConn(c)) {
                        int e = (int) r.range(0, 1);
                        if (c.e[1 - e].kind != 'J') {          // no junction-to-junction connector (hyperedge cycles)
                            c.e[e].kind = 'J'; c.e[e].obj = jd.id;
                            if (!cpJunctionMode) c.cps.clear();
                            sc.declConn(c); fflush(stdout); sc.makeConn(c); sc.conns.push_back(c);
                        }
                    }
                    continue;
                }
                if (kind >= 20 && retargeted) continue;
                if (kind >= 20) {
                    retargeted = true;
                    // re-target one end of an existing connector (setSourceEndpoint / setDestEndpoint) to
                    // another shape's pin class, a junction or a free point, and IN THE SAME TRANSACTION
                    // move the object it was attached to and/or the new one (before or after the call)
                    std::vector<int> lc; for (auto &c : sc.conns) if (c.live) lc.push_back(c.id);
                    if (lc.empty()) continue;
                    ConnD &c = sc.conns[r.pick(lc)];
                    int e = (int) r.range(0, 1);
                    EndD old = c.e[e], other = c.e[1 - e], N; N.kind = 'F'; N.obj = -1; N.cls = 0;
                    if (old.kind == 'P' && !sc.shapes[old.obj].live) continue;
                    if (other.kind == 'P' && !sc.shapes[other.obj].live) continue;
                    int nk = (int) r.range(0, 9);
                    if (nk <= 5) {
                        std::vector<std::pair<int, unsigned>> opts;
                        for (auto &p : sc.pins) if (p.live && sc.shapes[p.shape].live && !(other.kind == 'P' && other.obj == p.shape) &&
                                !(old.kind == 'P' && old.obj == p.shape && old.cls == p.cls) &&
                                (overcap || capacityLeft(p.shape, p.cls) > 0)) opts.push_back({p.shape, p.cls});
                        if (!opts.empty()) { auto o = r.pick(opts); N.kind = 'P'; N.obj = o.first; N.cls = o.second; }
                    } else if (nk <= 7 && !sc.juncs.empty() && other.kind != 'J' && (c.cps.empty() || cpJunctionMode)) {
                        int j = (int) r.range(0, (long) sc.juncs.size() - 1);
                        if (!(old.kind == 'J' && old.obj == j)) { N.kind = 'J'; N.obj = j; }
                    }
                    if (N.kind == 'F') {
                        if (freeCellBase < cells.size()) {
                            auto cell = cells[freeCellBase + r.range(0, (long) (cells.size() - freeCellBase) - 1)];
                            N.x = cell.first * CELL + q4(r, 8, CELL - 8, sc.frac); N.y = cell.second * CELL + q4(r, 8, CELL - 8, sc.frac);
                        } else { N.x = (double) (r.range(0, GRID) * CELL); N.y = q4(r, 0, GRID * CELL, sc.frac); }
                        if (other.kind == 'F' && other.x == N.x && other.y == N.y) continue;
                        bool clash = false; for (auto &p : c.cps) if (p.x == N.x && p.y == N.y) clash = true;
                        if (clash) continue;
                    }
                    int mvOld = (int) r.range(0, 3);         // 0 none, 1 before, 2 after, 3 before (old object moved)
                    bool mvNew = r.coin(1, 3);
                    auto moveObj = [&](const EndD &E) {
                        if (E.kind == 'P' && sc.shapes[E.obj].live) moveInCell(sc.shapes[E.obj]);
                        else if (E.kind == 'J') moveJunc(sc.juncs[E.obj]);
                    };
                    if (mvOld == 1 || mvOld == 3) moveObj(old);
                    printf("op retarget %d %d", c.id, e); sc.emitEnd(N); printf("\n"); fflush(stdout);
                    c.e[e] = N;
                    if (e == 0) c.ref->setSourceEndpoint(sc.mkEnd(N)); else c.ref->setDestEndpoint(sc.mkEnd(N));
                    if (mvOld == 2) moveObj(old);
                    if (mvNew) moveObj(N);
                } else if (kind <= 6 && !liveShapes.empty()) {     // translate a shape inside its cell
                    moveInCell(sc.shapes[r.pick(liveShapes)]);
                } else if (kind <= 12 && !liveShapes.empty()) {    // resize (new rectangle in the same cell)
                    resizeInCell(sc.shapes[r.pick(liveShapes)]);
                } else if (kind <= 14 && !sc.juncs.empty()) {      // move a junction inside its cell
                    moveJunc(sc.juncs[r.range(0, (long) sc.juncs.size() - 1)]);
                } else if (kind == 15) {                            // new connector
                    ConnD c;
                    if (sc.conns.size() < 9 && genConn(c)) { printf("op addconn\n"); sc.declConn(c); fflush(stdout); sc.makeConn(c); sc.conns.push_back(c); }
                } else if (kind == 16) {                            // delete a connector
                    std::vector<int> lc; for (auto &c : sc.conns) if (c.live) lc.push_back(c.id);
                    if (lc.size() > 1) { ConnD &c = sc.conns[r.pick(lc)]; printf("op delconn %d\n", c.id); fflush(stdout);
                        sc.tap.conns.erase(c.ref->id());
                        sc.router->deleteConnector(c.ref); c.live = false; c.ref = nullptr;
                        // deleteConnector queues no action, so processTransaction() would return
                        // without routing; touch a shape so that the freed pin can be taken
                        if (!liveShapes.empty()) sc.router->moveShape(sc.shapes[liveShapes[0]].ref, 0, 0); }
                } else if (kind == 17) {                            // delete a pin
                    std::vector<int> lp; for (auto &p : sc.pins) if (p.live) lp.push_back(p.id);
                    if (!lp.empty()) { PinD &p = sc.pins[r.pick(lp)]; printf("op delpin %d\n", p.id); fflush(stdout);
                        delete p.pin; p.live = false; p.pin = nullptr;
                        if (sc.shapes[p.shape].live) sc.router->moveShape(sc.shapes[p.shape].ref, 0, 0); }
                } else if (kind == 18 && liveShapes.size() > 1) {   // delete a shape (its pins go with it)
                    ShapeD &s = sc.shapes[r.pick(liveShapes)];
                    bool attached = false;
                    for (auto &c : sc.conns) if (c.live) for (int e = 0; e < 2; ++e) if (c.e[e].kind == 'P' && c.e[e].obj == s.id) attached = true;
                    if (attached && !delAttachedMode) continue;
                    printf("op delshape %d\n", s.id); fflush(stdout);
                    sc.router->deleteShape(s.ref); s.live = false; s.ref = nullptr;
                    for (auto &p : sc.pins) if (p.shape == s.id) { p.live = false; p.pin = nullptr; }
                } else if (kind == 19) {                            // toggle exclusivity of a pin
                    std::vector<int> lp; for (auto &p : sc.pins) if (p.live) lp.push_back(p.id);
                    if (!lp.empty()) { PinD &p = sc.pins[r.pick(lp)]; bool b = r.coin(); printf("op setexcl %d %d\n", p.id, (int) b); fflush(stdout);
                        p.pin->setExclusive(b);
                        // setExclusive does not request re-routing by itself; touch the shape so
                        // that the next transaction re-assigns pins
                        sc.router->moveShape(sc.shapes[p.shape].ref, 0, 0); }
                }
            }
            printf("step %d\n", st); fflush(stdout);
            sc.transact();
            sc.observe();
        }
        vh::endCase();
        sc.router->setDebugHandler(nullptr);
        delete sc.router;
        } catch (vpsc::CriticalFailure &f) {
            printf("assert %s\n", oneLine(f.what()).c_str());
            vh::endCase();
            if (a.only >= 0) _exit(0);
            std::vector<char *> nargv;
            for (int i = 0; i < argc; ++i) {
                if (std::string(argv[i]) == "--from") { ++i; continue; }
                nargv.push_back(argv[i]);
            }
            std::string fromS = std::to_string(k + 1);
            nargv.push_back((char *) "--from"); nargv.push_back((char *) fromS.c_str()); nargv.push_back(nullptr);
            execv("/proc/self/exe", nargv.data());
            _exit(3);
        }
    }
    return 0;
}
