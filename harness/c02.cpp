// C02 harness: VPSC solve() against an exact, certified QP optimum (computed in the Lean driver).
//
// One case = one *feasible* separation-constraint problem (feasible by construction: every
// constraint is satisfied by a hidden witness placement z), printed exactly (dyadic rationals,
// %a), followed by the observables of several solver variants on the real library code:
//   inc      vpsc::IncSolver::solve()                      (libvpsc)
//   static   vpsc::Solver::solve()                         (libvpsc; only inequality DAG classes)
//   avoid    Avoid::IncSolver::solve()                     (libavoid's fork)
//   inc2     the live `inc` solver after desired positions were moved (line `d2`), solve() again
//   avoid2   same for the live libavoid solver
//   perm     vpsc::IncSolver on randomly permuted variables and constraints (mapped back)
//   sperm    vpsc::Solver on the permuted problem (when `static` applies)
//   incx, inc2x, avoidx, avoid2x, permx  (diagnostic, printed only when different) the same live solver
//            after solve() was called again until the positions stopped changing
// Per variant X: pos.X (finalPosition, hex floats), act.X / uns.X (Constraint::active /
// ::unsatisfiable as 0/1 strings, original constraint order), exc.X (none|unsatisfied|cstr|other|abort <how>).
#include "common.h"
#include "libvpsc/solve_VPSC.h"
#include "libvpsc/variable.h"
#include "libvpsc/constraint.h"
#include "libvpsc/exceptions.h"
#include "libavoid/vpsc.h"
#include <cfloat>
#include <string>
#include <vector>
#include <csignal>
#include <csetjmp>
#if defined(__SANITIZE_ADDRESS__)
#include <sanitizer/lsan_interface.h>
#endif

struct Con { int l, r; double gap; bool eq; };
struct Problem {
    std::vector<double> d, w, s, d2;
    std::vector<Con> cons;
    std::vector<int> vperm, cperm;   // optional explicit permutations (stdin mode), else random
    bool allowStatic;     // inequality-only and acyclic (l before r in a topological order)
    const char *tag;
};

struct Result {
    std::vector<double> pos;
    std::string act, uns, exc;
};

// ref.<name> same|diff passes=<k> <lastmove> : library solve() vs the reference loop; lastmove = largest
// position change in the reference loop's last pass (hex float; -1 if it made a single pass)
static void printRef(const char *name, const Result &lib, const Result &ref, long passes, double lastMove) {
    bool same = lib.exc == ref.exc && lib.pos == ref.pos && lib.act == ref.act;
    printf("ref.%s %s passes=%ld %s\n", name, same ? "same" : "diff", passes, vh::hx(lastMove).c_str());
    fflush(stdout);
}

static void printResult(const char *name, const Result &r) {
    printf("exc.%s %s\n", name, r.exc.c_str());
    printf("pos.%s", name);
    for (double p : r.pos) printf(" %s", vh::hx(p).c_str());
    printf("\nact.%s %s\nuns.%s %s\n", name, r.act.empty() ? "-" : r.act.c_str(), name,
           r.uns.empty() ? "-" : r.uns.c_str());
    fflush(stdout);      // an abort inside the next variant must not swallow this one
}

// Run one variant so that an abort inside it (failed COLA_ASSERT in the repo's standard
// assert-enabled configuration) does not end the whole case stream: SIGABRT is caught and control
// jumps back here; the parent then records `exc.<name> abort signal-6`. The solver objects of the
// aborted variant are abandoned, so leak checking is disabled for allocations made inside.
// Used for the static solver on the random classes, where such aborts occur on the unchanged
// library; everywhere else a crash stays a CRASH verdict of the framework.
static sigjmp_buf g_abortJmp;
static volatile sig_atomic_t g_abortArmed = 0;
static void onAbort(int) { if (g_abortArmed) { g_abortArmed = 0; siglongjmp(g_abortJmp, 1); } }
template <class F> static void isolated(const char *name, bool isolate, F f) {
    if (!isolate) { f(); return; }
    struct sigaction sa, old;
    memset(&sa, 0, sizeof sa);
    sa.sa_handler = onAbort;
    sa.sa_flags = SA_NODEFER;
    sigaction(SIGABRT, &sa, &old);
    fflush(stdout);
    if (sigsetjmp(g_abortJmp, 1) == 0) {
        g_abortArmed = 1;
#if defined(__SANITIZE_ADDRESS__)
        __lsan_disable();
#endif
        f();
#if defined(__SANITIZE_ADDRESS__)
        __lsan_enable();
#endif
        g_abortArmed = 0;
    } else {
#if defined(__SANITIZE_ADDRESS__)
        __lsan_enable();
#endif
        printf("exc.%s abort signal-6\n", name);
        fflush(stdout);
    }
    sigaction(SIGABRT, &old, nullptr);
}

// A live solver instance over library types V (variable), C (constraint), S (solver).
template <class V, class C, class S> struct Live {
    std::vector<V *> vs;
    std::vector<C *> cs;
    S *solver = nullptr;
    void build(const std::vector<double> &d, const std::vector<double> &w, const std::vector<double> &s,
               const std::vector<Con> &cons) {
        for (size_t i = 0; i < d.size(); ++i) vs.push_back(new V((int) i, d[i], w[i], s[i]));
        for (const Con &c : cons) cs.push_back(new C(vs[c.l], vs[c.r], c.gap, c.eq));
        solver = new S(vs, cs);
    }
    template <class Unsat> Result solve() {
        Result r;
        r.exc = "none";
        try { solver->solve(); }
        catch (char *) { r.exc = "cstr"; }
        catch (const char *) { r.exc = "cstr"; }
        catch (Unsat &) { r.exc = "unsatisfied"; }
        catch (...) { r.exc = "other"; }
        for (V *v : vs) r.pos.push_back(v->finalPosition);
        for (C *c : cs) { r.act.push_back(c->active ? '1' : '0'); r.uns.push_back(c->unsatisfiable ? '1' : '0'); }
        return r;
    }
    // keep calling solve() on the live solver until positions *and* active set stop changing (a pass
    // may exchange active constraints without moving anything), at most 60 calls;
    // returns true if any call changed a position. Diagnostic only: tells a premature stop of
    // solve() (further passes of the same algorithm still improve) from a wrong fixed point.
    template <class Unsat> bool solveToFixpoint(const Result &base, Result &out) {
        bool changed = false;
        Result prev = base;
        for (int it = 0; it < 60; ++it) {
            Result cur = solve<Unsat>();
            bool samePos = cur.pos == prev.pos, sameAct = cur.act == prev.act;
            prev = cur;
            if (!samePos) changed = true;
            if (samePos && sameAct) break;
        }
        out = prev;
        return changed;
    }
    // Reference re-execution of the *documented* loop of IncSolver::solve() through the public
    // satisfy(): one pass, then further passes until the cost (sum w (finalPosition-desired)^2)
    // changes by at most 1e-4. Diagnostic only: if the library's solve() returns exactly this
    // state, its loop behaved as written and a non-optimal answer is the loop criterion's fault
    // (exit after a pass that changed nothing); if not, solve() did something else.
    double refCost() const {
        double c = 0;
        for (V *v : vs) { double df = v->finalPosition - v->desiredPosition; c += v->weight * df * df; }
        return c;
    }
    template <class Unsat> Result refSolve(long &passes, double &lastMove) {
        Result r; r.exc = "none"; passes = 0; lastMove = -1;   // -1: the loop body never ran
        try {
            solver->satisfy(); passes = 1;
            double lastcost = DBL_MAX, cost = refCost();
            std::vector<double> prev;
            while (fabs(lastcost - cost) > 0.0001 && passes < 100000) {
                prev.clear(); for (V *v : vs) prev.push_back(v->finalPosition);
                solver->satisfy(); ++passes;
                lastcost = cost; cost = refCost();
                lastMove = 0;       // largest |change of a finalPosition| in this (so far last) pass
                for (size_t i = 0; i < vs.size(); ++i) lastMove = std::max(lastMove, fabs(vs[i]->finalPosition - prev[i]));
            }
        }
        catch (char *) { r.exc = "cstr"; }
        catch (const char *) { r.exc = "cstr"; }
        catch (Unsat &) { r.exc = "unsatisfied"; }
        catch (...) { r.exc = "other"; }
        for (V *v : vs) r.pos.push_back(v->finalPosition);
        for (C *c : cs) { r.act.push_back(c->active ? '1' : '0'); r.uns.push_back(c->unsatisfiable ? '1' : '0'); }
        return r;
    }
    void setDesired(const std::vector<double> &d) { for (size_t i = 0; i < d.size(); ++i) vs[i]->desiredPosition = d[i]; }
    ~Live() {
        delete solver;
        for (C *c : cs) delete c;
        for (V *v : vs) delete v;
    }
};

typedef Live<vpsc::Variable, vpsc::Constraint, vpsc::IncSolver> LiveInc;
typedef Live<vpsc::Variable, vpsc::Constraint, vpsc::Solver> LiveStatic;
typedef Live<Avoid::Variable, Avoid::Constraint, Avoid::IncSolver> LiveAvoid;

template <class L, class Unsat>
static Result runPermuted(const Problem &P, const std::vector<int> &vp, const std::vector<int> &cp,
                          Result *fix = nullptr, bool *fixChanged = nullptr) {
    // new variable j is old variable vp[j]; new constraint j is old constraint cp[j]
    size_t n = P.d.size(), m = P.cons.size();
    std::vector<int> inv(n);
    for (size_t j = 0; j < n; ++j) inv[vp[j]] = (int) j;
    std::vector<double> d(n), w(n), s(n);
    for (size_t j = 0; j < n; ++j) { d[j] = P.d[vp[j]]; w[j] = P.w[vp[j]]; s[j] = P.s[vp[j]]; }
    std::vector<Con> cons(m);
    for (size_t j = 0; j < m; ++j) { Con c = P.cons[cp[j]]; c.l = inv[c.l]; c.r = inv[c.r]; cons[j] = c; }
    L live;
    live.build(d, w, s, cons);
    Result r = live.template solve<Unsat>();
    auto mapBack = [&](const Result &r) {
        Result back = r;
        for (size_t j = 0; j < n; ++j) back.pos[vp[j]] = r.pos[j];
        for (size_t j = 0; j < m; ++j) { back.act[cp[j]] = r.act[j]; back.uns[cp[j]] = r.uns[j]; }
        return back;
    };
    if (fix) {
        Result x; *fixChanged = live.template solveToFixpoint<Unsat>(r, x); *fix = mapBack(x);
        L c; c.build(d, w, s, cons);
        long passes; double lastMove;
        Result f = c.template refSolve<Unsat>(passes, lastMove);
        printRef("perm", r, f, passes, lastMove);
    }
    return mapBack(r);
}

static void emit(long k, const Problem &P, vh::Rng &r) {
    size_t n = P.d.size(), m = P.cons.size();
    vh::beginCase(k, P.tag);
    printf("n %zu\nm %zu\n", n, m);
    printf("d");  for (double x : P.d) printf(" %s", vh::hx(x).c_str());  printf("\n");
    printf("w");  for (double x : P.w) printf(" %s", vh::hx(x).c_str());  printf("\n");
    printf("s");  for (double x : P.s) printf(" %s", vh::hx(x).c_str());  printf("\n");
    printf("d2"); for (double x : P.d2) printf(" %s", vh::hx(x).c_str()); printf("\n");
    for (const Con &c : P.cons) printf("con %d %d %s %d\n", c.l, c.r, vh::hx(c.gap).c_str(), (int) c.eq);
    std::vector<int> vp(n), cp(m);
    for (size_t i = 0; i < n; ++i) vp[i] = (int) i;
    for (size_t i = 0; i < m; ++i) cp[i] = (int) i;
    r.shuffle(vp); r.shuffle(cp);
    if (P.vperm.size() == n) vp = P.vperm;
    if (P.cperm.size() == m) cp = P.cperm;
    printf("vperm"); for (int x : vp) printf(" %d", x); printf("\n");
    printf("cperm"); for (int x : cp) printf(" %d", x); printf("\n");
    printf("static %d\n", (int) P.allowStatic);
    fflush(stdout);
    {
        LiveInc a; a.build(P.d, P.w, P.s, P.cons);
        Result r0 = a.solve<vpsc::UnsatisfiedConstraint>();
        printResult("inc", r0);
        a.setDesired(P.d2);
        Result r2 = a.solve<vpsc::UnsatisfiedConstraint>(), x;
        printResult("inc2", r2);
        {
            LiveInc c; c.build(P.d, P.w, P.s, P.cons);
            long passes; double lastMove;
            Result f0 = c.refSolve<vpsc::UnsatisfiedConstraint>(passes, lastMove);
            printRef("inc", r0, f0, passes, lastMove);
            c.setDesired(P.d2);
            Result f2 = c.refSolve<vpsc::UnsatisfiedConstraint>(passes, lastMove);
            printRef("inc2", r2, f2, passes, lastMove);
        }
        if (a.solveToFixpoint<vpsc::UnsatisfiedConstraint>(r2, x)) printResult("inc2x", x);
        LiveInc b; b.build(P.d, P.w, P.s, P.cons);
        Result r1 = b.solve<vpsc::UnsatisfiedConstraint>();
        if (b.solveToFixpoint<vpsc::UnsatisfiedConstraint>(r1, x)) printResult("incx", x);
    }
    bool iso = std::string(P.tag) != "tiny-exh";
    if (P.allowStatic) isolated("static", iso, [&]() {
        LiveStatic a; a.build(P.d, P.w, P.s, P.cons);
        printResult("static", a.solve<vpsc::UnsatisfiedConstraint>());
    });
    {
        LiveAvoid a; a.build(P.d, P.w, P.s, P.cons);
        Result r0 = a.solve<Avoid::UnsatisfiedConstraint>();
        printResult("avoid", r0);
        a.setDesired(P.d2);
        Result r2 = a.solve<Avoid::UnsatisfiedConstraint>(), x;
        printResult("avoid2", r2);
        {
            LiveAvoid c; c.build(P.d, P.w, P.s, P.cons);
            long passes; double lastMove;
            Result f0 = c.refSolve<Avoid::UnsatisfiedConstraint>(passes, lastMove);
            printRef("avoid", r0, f0, passes, lastMove);
            c.setDesired(P.d2);
            Result f2 = c.refSolve<Avoid::UnsatisfiedConstraint>(passes, lastMove);
            printRef("avoid2", r2, f2, passes, lastMove);
        }
        if (a.solveToFixpoint<Avoid::UnsatisfiedConstraint>(r2, x)) printResult("avoid2x", x);
        LiveAvoid b; b.build(P.d, P.w, P.s, P.cons);
        Result r1 = b.solve<Avoid::UnsatisfiedConstraint>();
        if (b.solveToFixpoint<Avoid::UnsatisfiedConstraint>(r1, x)) printResult("avoidx", x);
    }
    {
        Result x; bool changed = false;
        printResult("perm", runPermuted<LiveInc, vpsc::UnsatisfiedConstraint>(P, vp, cp, &x, &changed));
        if (changed) printResult("permx", x);
    }
    if (P.allowStatic) isolated("sperm", iso, [&]() {
        printResult("sperm", runPermuted<LiveStatic, vpsc::UnsatisfiedConstraint>(P, vp, cp));
    });
    vh::endCase();
}

// ------------------------------------------------------------------ exhaustive tiny class
// edge state: 0 absent, 1..4 inequality with gap -1,0,1,2, 5..6 equality with gap 0,1
static const int NSTATE3 = 7;
static bool stateCon(int st, int l, int r, Con &c) {
    static const double gaps[] = {0, -1, 0, 1, 2, 0, 1};
    if (st == 0) return false;
    c.l = l; c.r = r; c.gap = gaps[st]; c.eq = st >= 5;
    return true;
}
// thorough n=4: 0 absent, 1 "<= gap 0", 2 "<= gap 1", 3 "= gap 1"
static bool stateCon4(int st, int l, int r, Con &c) {
    if (st == 0) return false;
    c.l = l; c.r = r; c.gap = (st == 1) ? 0 : 1; c.eq = st == 3;
    return true;
}
static long ipow(long b, int e) { long r = 1; while (e-- > 0) r *= b; return r; }

// number of exhaustive cases: n=1..3 with weight patterns {all 1, (1,2,7)}; thorough adds n=4
static long exhCount(bool thorough) {
    long c = 0;
    for (int n = 1; n <= 3; ++n) c += 2 * ipow(NSTATE3, n * (n - 1) / 2) * ipow(3, n);
    if (thorough) c += ipow(4, 6) * ipow(2, 4);
    return c;
}
static Problem exhDecode(long k, bool thorough) {
    Problem P; P.tag = "tiny-exh"; P.allowStatic = true;
    for (int n = 1; n <= 3; ++n) {
        int ne = n * (n - 1) / 2;
        long cnt = 2 * ipow(NSTATE3, ne) * ipow(3, n);
        if (k >= cnt) { k -= cnt; continue; }
        int wp = (int) (k % 2); k /= 2;
        static const double W[] = {1, 2, 7};
        for (int i = 0; i < n; ++i) { P.d.push_back((double) (k % 3)); k /= 3; P.w.push_back(wp ? W[i] : 1); P.s.push_back(1); }
        for (int l = 0; l < n; ++l) for (int r = l + 1; r < n; ++r) {
            Con c; int st = (int) (k % NSTATE3); k /= NSTATE3;
            if (stateCon(st, l, r, c)) { P.cons.push_back(c); if (c.eq) P.allowStatic = false; }
        }
        // moved desired positions: reverse the desired vector (deterministic)
        for (int i = 0; i < n; ++i) P.d2.push_back(P.d[n - 1 - i]);
        return P;
    }
    (void) thorough;
    int n = 4;
    static const double D4[] = {0, 3};
    for (int i = 0; i < n; ++i) { P.d.push_back(D4[k % 2]); k /= 2; P.w.push_back(1); P.s.push_back(1); }
    for (int l = 0; l < n; ++l) for (int r = l + 1; r < n; ++r) {
        Con c; int st = (int) (k % 4); k /= 4;
        if (stateCon4(st, l, r, c)) { P.cons.push_back(c); if (c.eq) P.allowStatic = false; }
    }
    for (int i = 0; i < n; ++i) P.d2.push_back(P.d[n - 1 - i]);
    return P;
}

// ------------------------------------------------------------------ random classes
static double dyadic(vh::Rng &r, long lo, long hi, int maxShift) {
    int j = (int) r.range(0, maxShift);
    return (double) r.range(lo * (1L << j), hi * (1L << j)) / (double) (1L << j);
}

enum Kind { DAG, CHAIN, TREE, EQ, CYC, SCALED, DEGEN, SMALLW, FAN, BIG, NKIND };
static const char *kindTag[] = {"dag", "chain", "tree", "eq", "cyc", "scaled", "degen", "smallw", "fan", "big"};

static Problem randomProblem(vh::Rng &r, Kind kind, bool thorough) {
    Problem P; P.tag = kindTag[kind]; P.allowStatic = true;
    long nmax = thorough ? 40 : 12;
    long n = r.range(1, nmax);
    if (kind == BIG) n = r.range(60, 300);
    if (kind == CHAIN || kind == TREE) n = r.range(2, nmax);
    static const std::vector<double> W = {1, 1, 1, 2, 7, 1000, 1.0 / 1024};
    static const std::vector<double> S = {1, 2, 0.5, 3};
    int wmode = (int) r.range(0, 2);          // 0 all 1, 1 mixed moderate, 2 full set
    if (kind == SMALLW) wmode = 3;
    long span = (kind == DEGEN) ? 3 : r.pick(std::vector<long>{4, 20, 100, 1000});
    int shift = (kind == DEGEN) ? 0 : (int) r.range(0, 4);
    // hidden witness z (in scaled space u = s*x) guarantees feasibility; hidden order = index
    // order after a relabelling, so the constraint graph is a DAG unless kind == CYC
    std::vector<double> z(n);
    for (long i = 0; i < n; ++i) {
        P.d.push_back(dyadic(r, -span, span, shift));
        double w = 1;
        if (wmode == 1) w = r.pick(std::vector<double>{1, 2, 7});
        else if (wmode == 2) w = r.pick(W);
        else if (wmode == 3) w = r.pick(std::vector<double>{1.0 / 1024, 1.0 / 1024, 1.0 / 64, 1});
        P.w.push_back(w);
        P.s.push_back(kind == SCALED ? r.pick(S) : 1.0);
        z[i] = dyadic(r, -2 * span, 2 * span, 2);
    }
    std::vector<int> label(n);                  // topological rank -> variable id
    for (long i = 0; i < n; ++i) label[i] = (int) i;
    r.shuffle(label);
    // gaps are chosen <= z_r - z_l, so any z works; the DAG comes from the rank order
    long m;
    if (kind == CHAIN) m = n - 1;
    else if (kind == TREE) m = n - 1;
    else if (kind == BIG) m = r.range(n / 2, 3 * n);
    else m = r.range(0, 3 * n);
    bool wantEq = (kind == EQ) || (kind == SCALED && r.coin(1, 3)) || (kind == CYC && r.coin(1, 3));
    for (long j = 0; j < m; ++j) {
        long a, b;
        if (kind == CHAIN) { a = j; b = j + 1; }
        else if (kind == TREE) { b = j + 1; a = r.range(0, j); }
        else { if (n < 2) break; a = r.range(0, n - 1); b = r.range(0, n - 2); if (b >= a) ++b; if (kind != CYC && a > b) std::swap(a, b); }
        Con c; c.l = label[a]; c.r = label[b]; c.eq = false;
        double room = z[c.r] - z[c.l];          // s_r x_r - s_l x_l at the witness
        if (wantEq && r.coin(1, 4)) { c.eq = true; c.gap = room; }
        else {
            // gap <= room; often tight or close so that many constraints are active at the optimum
            int mode = (int) r.range(0, 3);
            if (mode == 0) c.gap = room;
            else if (mode == 1) c.gap = room - dyadic(r, 0, 4, 2);
            else c.gap = room - dyadic(r, 0, 2 * span, 2);
        }
        if (kind == DEGEN && r.coin(1, 2)) c.gap = std::min(c.gap, (double) r.range(-1, 1));
        if (c.eq) P.allowStatic = false;
        P.cons.push_back(c);
        if (kind == DEGEN && r.coin(1, 3)) P.cons.push_back(c);     // exact duplicate
    }
    if (kind == CYC) P.allowStatic = false;
    // re-solve: move desired positions (all, some, or one) as gradient projection would
    P.d2 = P.d;
    int mv = (int) r.range(0, 3);
    for (long i = 0; i < n; ++i) {
        if (mv == 0 || (mv == 1 && r.coin()) || (mv == 2 && i == (long) (r.next() % n)))
            P.d2[i] = P.d[i] + dyadic(r, -span, span, shift);
        else if (mv == 3) P.d2[i] = -P.d[i];
    }
    return P;
}

// `--mode stdin`: read one explicit problem (lines d / w / s / d2 / con l r gap eq, numbers in any
// strtod syntax incl. hex floats) from stdin and emit it as case 0 (used for corpus cases and shrinking)
static Problem readProblem() {
    Problem P; P.tag = "explicit"; P.allowStatic = true;
    char buf[1 << 16];
    while (fgets(buf, sizeof buf, stdin)) {
        char *tok = strtok(buf, " \t\r\n");
        if (!tok) continue;
        std::string key = tok;
        std::vector<double> v;
        std::vector<std::string> raw;
        while ((tok = strtok(nullptr, " \t\r\n"))) { raw.push_back(tok); v.push_back(strtod(tok, nullptr)); }
        if (key == "d") P.d = v; else if (key == "w") P.w = v; else if (key == "s") P.s = v; else if (key == "d2") P.d2 = v;
        else if (key == "tag" && !raw.empty()) { static std::string keep; keep = raw[0]; P.tag = keep.c_str(); }
        else if (key == "con" && v.size() >= 4) {
            Con c; c.l = (int) v[0]; c.r = (int) v[1]; c.gap = v[2]; c.eq = v[3] != 0;
            if (c.eq) P.allowStatic = false;                    // static solver: inequality DAG only
            P.cons.push_back(c);
        }
        else if (key == "static" && !v.empty() && v[0] == 0) P.allowStatic = false;
        else if (key == "vperm") { for (double x : v) P.vperm.push_back((int) x); }
        else if (key == "cperm") { for (double x : v) P.cperm.push_back((int) x); }
    }
    size_t n = P.d.size();
    {   // acyclicity (Kahn); constraints with out-of-range indices are dropped
        std::vector<Con> ok;
        for (const Con &c : P.cons) if (c.l >= 0 && c.r >= 0 && (size_t) c.l < n && (size_t) c.r < n) ok.push_back(c);
        P.cons = ok;
        std::vector<int> indeg(n, 0); std::vector<int> todo; size_t seen = 0;
        for (const Con &c : P.cons) indeg[c.r]++;
        for (size_t i = 0; i < n; ++i) if (!indeg[i]) todo.push_back((int) i);
        while (!todo.empty()) { int v = todo.back(); todo.pop_back(); ++seen;
            for (const Con &c : P.cons) if (c.l == v && --indeg[c.r] == 0) todo.push_back(c.r); }
        if (seen != n) P.allowStatic = false;
    }
    if (P.w.size() != n) P.w.assign(n, 1);
    if (P.s.size() != n) P.s.assign(n, 1);
    if (P.d2.size() != n) P.d2 = P.d;
    return P;
}

// "fan" class: re-solve histories in which a block pressed together by the first solve must break
// into many pieces (one satisfy() pass splits each block at most once, so this needs several passes):
// a chain / tree / chain-with-chords of 6..12 (thorough ..24) variables, first desired positions
// compressed (all equal, reversed, or a narrow band), then fanned out (fully or partly).
static Problem fanProblem(vh::Rng &r, bool thorough) {
    Problem P; P.tag = "fan"; P.allowStatic = true;
    long n = r.range(6, thorough ? 24 : 12);
    std::vector<int> label(n);
    for (long i = 0; i < n; ++i) label[i] = (int) i;
    if (r.coin()) r.shuffle(label);
    int shape = (int) r.range(0, 3);              // 0,1 chain  2 tree  3 chain + chords
    bool sameGap = r.coin();
    double g0 = dyadic(r, 0, 4, 2), gmax = 0;
    auto add = [&](long a, long b, double mult) {
        Con c; c.l = label[a]; c.r = label[b]; c.eq = false;
        c.gap = (sameGap ? g0 : dyadic(r, 0, 4, 2)) * mult;
        gmax = std::max(gmax, c.gap);
        P.cons.push_back(c);
    };
    for (long j = 1; j < n; ++j) add(shape == 2 ? r.range(0, j - 1) : j - 1, j, 1);
    if (shape == 3) for (long e = r.range(1, n / 2); e > 0; --e) {
        long a = r.range(0, n - 3), b = r.range(a + 2, n - 1);
        add(a, b, 0);                                 // chord with gap 0: implied, never binding alone
    }
    int wmode = (int) r.range(0, 2);
    int comp = (int) r.range(0, 3);               // 0,1 all equal  2 reversed  3 narrow band
    double base = (double) r.range(-50, 50);
    P.d.assign(n, 0); P.d2.assign(n, 0); P.w.assign(n, 1); P.s.assign(n, 1);
    int fan = (int) r.range(0, 2);                // 0 full fan  1 partial (some neighbours stay pressed)  2 fan + shift
    double step = gmax + 1 + dyadic(r, 0, 8, 2);
    double pos = base + (fan == 2 ? (double) r.range(-100, 100) : 0);
    for (long i = 0; i < n; ++i) {
        int v = label[i];
        if (wmode == 1) P.w[v] = r.pick(std::vector<double>{1, 2, 7});
        else if (wmode == 2) P.w[v] = r.pick(std::vector<double>{1, 1, 1000});
        P.d[v] = comp <= 1 ? base : comp == 2 ? base - (double) i * dyadic(r, 0, 3, 1) : base + dyadic(r, -1, 1, 2);
        if (fan == 1 && r.coin(1, 3)) pos -= dyadic(r, 0, 6, 1);      // this one wants to stay pressed / overlap
        else pos += step + dyadic(r, 0, 4, 2);
        P.d2[v] = pos;
    }
    return P;
}

// ------------------------------------------------------------------ fixed witnesses (always run first)
// Shrunk inputs on which the unchanged library returned a non-optimal placement when this check was
// written (see the C02 report); they stay in the stream as regression markers.
static const int NWITNESS = 5;
static Problem witness(int i) {
    Problem P; P.tag = "witness"; P.allowStatic = true;
    auto con = [&](int l, int r, double g) { Con c; c.l = l; c.r = r; c.gap = g; c.eq = false; P.cons.push_back(c); };
    if (i == 0) {          // IncSolver::solve stops after a cost-neutral split/re-merge pass (fresh solve)
        P.d = {0, -416, 0, -848, -207, 181}; P.w = {1, 1, 1, 1, 1, 7}; P.s = {1, 1, 1, 1, 1, 1};
        con(0, 5, 3055); con(2, 4, 995); con(0, 4, 2745.5); con(3, 5, 1974); con(3, 4, 1664.5); con(1, 3, 0);
        P.d2 = P.d;
    } else if (i == 1) {   // static Solver::refine: period-2 split/merge cycle until maxtries runs out (scaled)
        P.d = {0, 0, 1, 1, -3}; P.w = {1, 1, 1, 1, 1}; P.s = {1, 2, 3, 0.5, 1};
        con(3, 0, 4); con(0, 1, 8); con(4, 1, 14); con(3, 2, 7.5); con(4, 2, 10); con(0, 4, -7);
        P.d2 = P.d;
    } else if (i == 2) {   // same stop rule on a re-solve after desired positions moved
        P.d = {-5, 0, 15, 0}; P.w = {1, 1.0 / 1024, 1, 1.0 / 1024}; P.s = {1, 1, 1, 1};
        con(0, 1, 21.5); con(0, 3, 61.5); con(2, 1, 4); con(2, 3, 44);
        P.d2 = {0, 0, 0, 0};
    } else if (i == 4) {   // NOT a defect witness: chain of 6 pressed together, then fanned out on the live
        // solver (5 splits needed, one per block per pass); the unchanged library reaches cost 0
        P.tag = "fan";
        P.d = {0, 0, 0, 0, 0, 0}; P.w = {1, 1, 1, 1, 1, 1}; P.s = {1, 1, 1, 1, 1, 1};
        for (int j = 0; j < 5; ++j) con(j, j + 1, 1);
        P.d2 = {0, 4, 8, 12, 16, 20};
    } else {               // absolute LAGRANGIAN_TOLERANCE: lm = -2^-14 > -1e-4 is never split (weights 1/1024)
        P.d = {1, 0}; P.w = {1.0 / 1024, 1.0 / 1024}; P.s = {1, 1};
        con(0, 1, 0);
        P.d2 = {0, 1.0 / 16};
    }
    return P;
}

int main(int argc, char **argv) {
    vh::Args a = vh::parseArgs(argc, argv);
    if (a.mode == "stdin") {
        vh::Rng r = vh::caseRng(a.seed, 0);
        emit(0, readProblem(), r);
        return 0;
    }
    bool thorough = a.tier == "thorough";
    long k = 0;
    for (int i = 0; i < NWITNESS; ++i, ++k) {
        if (!a.want(k)) continue;
        vh::Rng r = vh::caseRng(a.seed, k);
        emit(k, witness(i), r);
    }
    long nexh = exhCount(thorough);
    for (long e = 0; e < nexh; ++e, ++k) {
        if (!a.want(k)) continue;
        vh::Rng r = vh::caseRng(a.seed, k);
        emit(k, exhDecode(e, thorough), r);
    }
    long nrand = (thorough ? 12000 : 4000) * a.scale;
    if (a.n >= 0) nrand = a.n;
    for (long c = 0; c < nrand; ++c, ++k) {
        if (!a.want(k)) continue;
        vh::Rng r = vh::caseRng(a.seed, k);
        Kind kind = (Kind) (c % (thorough ? NKIND : NKIND - 1));
        if (kind == BIG && (c / NKIND) % 4 != 0) kind = DAG;      // big cases are expensive: 1 in 4 rounds
        if (kind == FAN) emit(k, fanProblem(r, thorough), r);
        else emit(k, randomProblem(r, kind, thorough), r);
    }
    return 0;
}
