// C03 harness: libavoid routes join their endpoints and stay out of obstacles.
// One case = one scene (interior-disjoint convex shapes on an integer grid, 1..6 connectors with
// free-space endpoints, one router configuration).  Inputs are printed first, then one
// processTransaction() is run and the observables are dumped: routing polygons, route() and
// displayRoute() of every connector, the polyline visibility graph (with vertex ids) and the
// orthogonal visibility graph.  Routers are deleted at the end (ASan/LSan build).
// Hyperedge classes (tags orth-hyperedge, orth-hyperedge-major, orth-hyperedge-random): orthogonal router with
// hyperedge improvement, one free junction joined to 3..5 terminals; see runHyperCase.
#include "avoid_scene.h"
#include <unistd.h>
#include <sys/wait.h>
using namespace Avoid;

struct ConnSpec { unsigned id; double sx, sy, dx, dy; bool orth; };

struct Cfg {
    bool allowPoly = true, allowOrth = false;
    bool lee = true, ignoreRegions = true, invis = true;
    double buffer = 0;
    double param[lastRoutingParameterMarker];
    bool paramSet[lastRoutingParameterMarker];
    int option[lastRoutingOptionMarker];     // -1 = leave default
    Cfg() { for (auto &p : paramSet) p = false; for (auto &p : param) p = 0; for (auto &o : option) o = -1; }
};

static const char *paramName[] = {"segmentPenalty", "anglePenalty", "crossingPenalty", "clusterCrossingPenalty",
    "fixedSharedPathPenalty", "portDirectionPenalty", "shapeBufferDistance", "idealNudgingDistance",
    "reverseDirectionPenalty"};
static const char *optionName[] = {"nudgeOrthogonalSegmentsConnectedToShapes", "improveHyperedgeRoutesMovingJunctions",
    "penaliseOrthogonalSharedPathsAtConnEnds", "nudgeOrthogonalTouchingColinearSegments",
    "performUnifyingNudgingPreprocessingStep", "improveHyperedgeRoutesMovingAddingAndDeletingJunctions",
    "nudgeSharedPathsWithCommonEndPoint"};

// an orthogonal connector endpoint lies strictly inside the bounding box of a routing polygon
// (orthogonal routing treats every shape as its bounding box) although it is outside the polygon
static bool orthEndpointInBBox(const vs::Scene &s, const std::vector<ConnSpec> &conns, double buffer) {
    for (auto &c : conns) {
        if (!c.orth) continue;
        for (auto &p : s.shapes) {
            double x0 = 1e300, x1 = -1e300, y0 = 1e300, y1 = -1e300;
            if (p.size() == 4 && ((p[0].x == p[1].x && p[1].y == p[2].y && p[2].x == p[3].x && p[3].y == p[0].y) ||
                                  (p[0].y == p[1].y && p[1].x == p[2].x && p[2].y == p[3].y && p[3].x == p[0].x))) continue;   // axis-parallel rectangle
            for (auto &v : p) { x0 = std::min(x0, v.x); x1 = std::max(x1, v.x); y0 = std::min(y0, v.y); y1 = std::max(y1, v.y); }
            x0 -= buffer; y0 -= buffer; x1 += buffer; y1 += buffer;      // Obstacle::routingBox()
            for (int e = 0; e < 2; ++e) {
                double x = e ? c.dx : c.sx, y = e ? c.dy : c.sy;
                if (x0 < x && x < x1 && y0 < y && y < y1) return true;
            }
        }
    }
    return false;
}

// routing polygons (alive shapes only; id = index + 1), routes and both visibility graphs
static void dumpObservables(Router *router, const std::vector<ShapeRef *> &shapes, const std::vector<ConnRef *> &crs, const std::vector<ConnSpec> &conns) {
    for (size_t i = 0; i < shapes.size(); ++i) if (shapes[i]) vs::printPts("rpoly", (unsigned) (i + 1), shapes[i]->routingPolygon().ps);
    for (size_t i = 0; i < crs.size(); ++i) {
        vs::printPts("route", conns[i].id, crs[i]->route().ps);
        vs::printPts("display", conns[i].id, crs[i]->displayRoute().ps);
    }
    for (EdgeInf *e = router->visGraph.begin(); e != router->visGraph.end(); e = e->lstNext) {
        std::pair<VertID, VertID> ids = e->ids();
        std::pair<Point, Point> ps = e->points();
        printf("vis %u %u %d %s %s %u %u %d %s %s\n", ids.first.objID, (unsigned) ids.first.vn, (int) ids.first.isConnPt(),
               vh::hx(ps.first.x).c_str(), vh::hx(ps.first.y).c_str(), ids.second.objID, (unsigned) ids.second.vn,
               (int) ids.second.isConnPt(), vh::hx(ps.second.x).c_str(), vh::hx(ps.second.y).c_str());
    }
    for (EdgeInf *e = router->visOrthogGraph.begin(); e != router->visOrthogGraph.end(); e = e->lstNext) {
        std::pair<Point, Point> ps = e->points();
        printf("ovis %s %s %s %s\n", vh::hx(ps.first.x).c_str(), vh::hx(ps.first.y).c_str(),
               vh::hx(ps.second.x).c_str(), vh::hx(ps.second.y).c_str());
    }
}

static void runBody(const vs::Scene &s, const std::vector<ConnSpec> &conns, const Cfg &cfg) {
    unsigned flags = (cfg.allowPoly ? PolyLineRouting : 0) | (cfg.allowOrth ? OrthogonalRouting : 0);
    Router *router = new Router(flags);
    router->UseLeesAlgorithm = cfg.lee;
    router->IgnoreRegions = cfg.ignoreRegions;
    router->InvisibilityGrph = cfg.invis;
    for (int i = 0; i < lastRoutingParameterMarker; ++i) if (cfg.paramSet[i]) router->setRoutingParameter((RoutingParameter) i, cfg.param[i]);
    for (int i = 0; i < lastRoutingOptionMarker; ++i) if (cfg.option[i] >= 0) router->setRoutingOption((RoutingOption) i, cfg.option[i] != 0);
    std::vector<ShapeRef *> shapes;
    for (size_t i = 0; i < s.shapes.size(); ++i) {
        Polygon p = vs::toAvoid(s.shapes[i]);
        shapes.push_back(new ShapeRef(router, p, (unsigned) (i + 1)));
    }
    std::vector<ConnRef *> crs;
    for (auto &c : conns) {
        ConnRef *cr = new ConnRef(router, ConnEnd(Point(c.sx, c.sy)), ConnEnd(Point(c.dx, c.dy)), c.id);
        cr->setRoutingType(c.orth ? ConnType_Orthogonal : ConnType_PolyLine);
        crs.push_back(cr);
    }
    router->processTransaction();
    dumpObservables(router, shapes, crs, conns);
    delete router;
}

// Run `body` in a child process, so that a failed assertion / sanitizer abort inside libavoid ends this
// case only: the parent then emits a `crash` line (with the headline of the child's stderr) and
// continues with the next case.  LSan runs at the child's exit().
template <class F> static void forkRun(F body) {
    int fds[2];
    if (pipe(fds) != 0) { perror("pipe"); exit(3); }
    fflush(stdout);
    pid_t pid = fork();
    if (pid == 0) {
        close(fds[0]); dup2(fds[1], 2); close(fds[1]);
        body();
        fflush(stdout);
        exit(0);
    }
    close(fds[1]);
    std::string err; char buf[4096]; ssize_t n;
    while ((n = read(fds[0], buf, sizeof buf)) > 0) if (err.size() < 20000) err.append(buf, (size_t) n);
    close(fds[0]);
    int status = 0; waitpid(pid, &status, 0);
    if (!(WIFEXITED(status) && WEXITSTATUS(status) == 0)) {
        // one-line summary: the assertion / sanitizer headline
        std::string line;
        size_t pos = err.find("Assertion"); if (pos == std::string::npos) pos = err.find("ERROR: "); if (pos == std::string::npos) pos = err.find("runtime error");
        if (pos == std::string::npos) pos = 0;
        size_t b = err.rfind('\n', pos); b = (b == std::string::npos) ? 0 : b + 1;
        size_t e = err.find('\n', pos); line = err.substr(b, (e == std::string::npos ? err.size() : e) - b);
        for (auto &ch : line) if (ch == '\r' || ch == '\t') ch = ' ';
        printf("crash %s %d : %s\n", WIFSIGNALED(status) ? "signal" : "exit", WIFSIGNALED(status) ? WTERMSIG(status) : WEXITSTATUS(status), line.c_str());
        fprintf(stderr, "%s\n", err.c_str());
    }
}

static void runCase(long k, const char *tagIn, const vs::Scene &s, const std::vector<ConnSpec> &conns, const Cfg &cfg, const char *genLine = nullptr) {
    // Finding classes get their own tag (classes are kept disjoint by the generator):
    //   naive-vis-collinear / lee-collinear : polyline routing on a scene with three collinear graph points
    //   orth-nudge-endsegs                  : pure orthogonal router with nudgeOrthogonalSegmentsConnectedToShapes
    //   orth-endpoint-in-bbox               : pure orthogonal router, endpoint inside the bounding box of a non-rectangle
    std::string tag = tagIn;
    if (cfg.allowPoly) {
        std::vector<Point> eps;
        for (auto &c : conns) { eps.push_back(Point(c.sx, c.sy)); eps.push_back(Point(c.dx, c.dy)); }
        if (vs::hasCollinearTriple(vs::routingPolys(s, cfg.buffer), eps)) tag = cfg.lee ? "lee-collinear" : "naive-vis-collinear";
    } else if (cfg.option[nudgeOrthogonalSegmentsConnectedToShapes] == 1) tag = "orth-nudge-endsegs";
    else if (orthEndpointInBBox(s, conns, cfg.buffer)) tag = "orth-endpoint-in-bbox";
    vh::beginCase(k, tag.c_str());
    // ---- inputs
    if (genLine) printf("%s\n", genLine);
    printf("cfg poly %d orth %d lee %d ignoreRegions %d invis %d\n", cfg.allowPoly, cfg.allowOrth, cfg.lee, cfg.ignoreRegions, cfg.invis);
    for (int i = 0; i < lastRoutingParameterMarker; ++i) if (cfg.paramSet[i]) printf("param %s %s\n", paramName[i], vh::hx(cfg.param[i]).c_str());
    for (int i = 0; i < lastRoutingOptionMarker; ++i) if (cfg.option[i] >= 0) printf("option %s %d\n", optionName[i], cfg.option[i]);
    for (size_t i = 0; i < s.shapes.size(); ++i) vs::printShape((unsigned) (i + 1), s.shapes[i]);
    for (auto &c : conns) printf("conn %u %s %s %s %s %s\n", c.id, vh::hx(c.sx).c_str(), vh::hx(c.sy).c_str(),
                                 vh::hx(c.dx).c_str(), vh::hx(c.dy).c_str(), c.orth ? "orth" : "poly");
    fflush(stdout);
    forkRun([&]() { runBody(s, conns, cfg); });
    vh::endCase();
}


// ---- hyperedge class: orthogonal router, one free junction joined to 3..5 terminals, hyperedge
//      improvement on.  The expected attachment of a junction end is the junction's
//      recommendedPosition() after routing (the improver moves free junctions), so the `conn` lines of
//      this class are printed after the transaction, together with the routes.
struct Terminal { double x, y; unsigned dirs; };

static void runHyperCase(long k, const char *tag, const vs::Scene &s, Point jpos, const std::vector<Terminal> &terms,
                         double buffer, bool major, double segPenalty, double nudgeDist) {
    vh::beginCase(k, tag);
    printf("cfg poly 0 orth 1 lee 1 ignoreRegions 1 invis 1\n");
    if (buffer > 0) printf("param shapeBufferDistance %s\n", vh::hx(buffer).c_str());
    if (segPenalty > 0) printf("param segmentPenalty %s\n", vh::hx(segPenalty).c_str());
    if (nudgeDist > 0) printf("param idealNudgingDistance %s\n", vh::hx(nudgeDist).c_str());
    printf("option %s 1\n", major ? "improveHyperedgeRoutesMovingAddingAndDeletingJunctions" : "improveHyperedgeRoutesMovingJunctions");
    for (size_t i = 0; i < s.shapes.size(); ++i) vs::printShape((unsigned) (i + 1), s.shapes[i]);
    printf("hjunction 500 %s %s\n", vh::hx(jpos.x).c_str(), vh::hx(jpos.y).c_str());
    for (size_t i = 0; i < terms.size(); ++i) printf("hterm %zu %s %s %u\n", 101 + i, vh::hx(terms[i].x).c_str(), vh::hx(terms[i].y).c_str(), terms[i].dirs);
    fflush(stdout);
    forkRun([&]() {
        Router *router = new Router(OrthogonalRouting);
        if (buffer > 0) router->setRoutingParameter(shapeBufferDistance, buffer);
        if (segPenalty > 0) router->setRoutingParameter(segmentPenalty, segPenalty);
        if (nudgeDist > 0) router->setRoutingParameter(idealNudgingDistance, nudgeDist);
        router->setRoutingOption(major ? improveHyperedgeRoutesMovingAddingAndDeletingJunctions : improveHyperedgeRoutesMovingJunctions, true);
        std::vector<ShapeRef *> shapes;
        for (size_t i = 0; i < s.shapes.size(); ++i) { Polygon p = vs::toAvoid(s.shapes[i]); shapes.push_back(new ShapeRef(router, p, (unsigned) (i + 1))); }
        JunctionRef *j = new JunctionRef(router, jpos, 500);
        j->setPositionFixed(false);
        for (size_t i = 0; i < terms.size(); ++i) {
            ConnRef *c = new ConnRef(router, ConnEnd(j), ConnEnd(Point(terms[i].x, terms[i].y), terms[i].dirs), (unsigned) (101 + i));
            c->setRoutingType(ConnType_Orthogonal);
        }
        router->processTransaction();
        for (size_t i = 0; i < shapes.size(); ++i) vs::printPts("rpoly", (unsigned) (i + 1), shapes[i]->routingPolygon().ps);
        HyperedgeNewAndDeletedObjectLists nd = router->newAndDeletedObjectListsFromHyperedgeImprovement();
        printf("hchanges newJ %zu newC %zu delJ %zu delC %zu\n", nd.newJunctionList.size(), nd.newConnectorList.size(),
               nd.deletedJunctionList.size(), nd.deletedConnectorList.size());
        for (ConnRefList::const_iterator it = router->connRefs.begin(); it != router->connRefs.end(); ++it) {
            ConnRef *c = *it;
            if (std::find(nd.deletedConnectorList.begin(), nd.deletedConnectorList.end(), c) != nd.deletedConnectorList.end()) continue;
            std::pair<ConnEnd, ConnEnd> ends = c->endpointConnEnds();
            Point e[2];
            for (int q = 0; q < 2; ++q) {
                const ConnEnd &ce = q ? ends.second : ends.first;
                e[q] = ce.junction() ? ce.junction()->recommendedPosition() : ce.position();
            }
            printf("conn %u %s %s %s %s orth\n", c->id(), vh::hx(e[0].x).c_str(), vh::hx(e[0].y).c_str(), vh::hx(e[1].x).c_str(), vh::hx(e[1].y).c_str());
            vs::printPts("route", c->id(), c->route().ps);
            vs::printPts("display", c->id(), c->displayRoute().ps);
        }
        delete router;
    });
    vh::endCase();
}

static unsigned xformDirs(unsigned d, bool mx, bool my, bool tr) {
    bool up = d & ConnDirUp, down = d & ConnDirDown, left = d & ConnDirLeft, right = d & ConnDirRight;
    if (mx) std::swap(left, right);
    if (my) std::swap(up, down);
    if (tr) { std::swap(up, left); std::swap(down, right); }
    return (up ? ConnDirUp : 0) | (down ? ConnDirDown : 0) | (left ? ConnDirLeft : 0) | (right ? ConnDirRight : 0);
}

// ---- edit histories (tag poly-edit-history): polyline router kept alive over several transactions; after the
//      initial routing each transaction ADDs a small rectangle or MOVEs an existing one across exactly one segment of
//      the current route of a connector (first / middle / last / the only one), or deletes / moves away a shape.
//      Each (history, step) is its own case; the child process replays the history from scratch up to that step and
//      dumps the snapshot after the last transaction (shapes of the *current* scene as `shape` lines; the initial
//      scene is printed by the parent as `shape0`).  Snapshots with three collinear graph points print `skip`
//      (degenerate scenes belong to the lee-collinear class).
struct HistOp { int kind; size_t shape; size_t conn; int segsel; };     // 0 delete, 1 move far away, 2 add across, 3 move across

static void histBody(uint64_t seed, long kbase, size_t upto, const vs::Scene &s0, const std::vector<ConnSpec> &conns, const Cfg &cfg,
                     const std::vector<HistOp> &ops, bool jitter) {
    vh::Rng r = vh::caseRng(seed, kbase, 29);
    Router *router = new Router(PolyLineRouting);
    router->UseLeesAlgorithm = cfg.lee; router->IgnoreRegions = cfg.ignoreRegions; router->InvisibilityGrph = cfg.invis;
    for (int i = 0; i < lastRoutingParameterMarker; ++i) if (cfg.paramSet[i]) router->setRoutingParameter((RoutingParameter) i, cfg.param[i]);
    std::vector<vs::DPoly> cur = s0.shapes;
    std::vector<ShapeRef *> refs;
    for (size_t i = 0; i < cur.size(); ++i) { Polygon p = vs::toAvoid(cur[i]); refs.push_back(new ShapeRef(router, p, (unsigned) (i + 1))); }
    std::vector<ConnRef *> crs;
    std::vector<Point> eps;
    for (auto &c : conns) { crs.push_back(new ConnRef(router, ConnEnd(Point(c.sx, c.sy)), ConnEnd(Point(c.dx, c.dy)), c.id)); eps.push_back(Point(c.sx, c.sy)); eps.push_back(Point(c.dx, c.dy)); }
    router->processTransaction();
    std::string histLine = "initial";
    bool ended = false;
    for (size_t step = 1; step <= upto && !ended; ++step) {
        const HistOp &op = ops[step - 1];
        char buf[200] = "";
        if (op.kind == 2 || op.kind == 3) {
            if (op.kind == 3 && !refs[op.shape]) { ended = true; break; }
            std::vector<vs::DPoly> others;
            for (size_t i = 0; i < cur.size(); ++i) if (refs[i] && !(op.kind == 3 && i == op.shape)) others.push_back(cur[i]);
            double hw = 0, hh = 0, ocx = 0, ocy = 0;
            if (op.kind == 3) {
                double lx = 1e300, hx = -1e300, ly = 1e300, hy = -1e300;
                for (auto &v : cur[op.shape]) { lx = std::min(lx, v.x); hx = std::max(hx, v.x); ly = std::min(ly, v.y); hy = std::max(hy, v.y); }
                hw = (hx - lx) / 2; hh = (hy - ly) / 2; ocx = (hx + lx) / 2; ocy = (hy + ly) / 2;
            }
            vs::DPoly R; size_t seg = 0;
            const std::vector<Point> &rt = crs[op.conn]->route().ps;
            if (!vs::placeAcrossD(r, rt, op.segsel, others, eps, hw, hh, jitter && op.kind == 2, 1.0, R, seg)) { ended = true; break; }
            if (op.kind == 2) {
                cur.push_back(R); Polygon p = vs::toAvoid(R); refs.push_back(new ShapeRef(router, p, (unsigned) cur.size()));
                snprintf(buf, sizeof buf, " | add %zu across segment %zu/%zu of conn %u", cur.size(), seg + 1, rt.size() - 1, conns[op.conn].id);
            } else {
                double dx = (R[0].x + R[2].x) / 2 - ocx, dy = (R[0].y + R[2].y) / 2 - ocy;
                for (auto &v : cur[op.shape]) { v.x += dx; v.y += dy; }
                router->moveShape(refs[op.shape], dx, dy);
                snprintf(buf, sizeof buf, " | move %zu across segment %zu/%zu of conn %u", op.shape + 1, seg + 1, rt.size() - 1, conns[op.conn].id);
            }
        } else if (op.kind == 0) {
            if (!refs[op.shape]) { ended = true; break; }
            router->deleteShape(refs[op.shape]); refs[op.shape] = nullptr;
            snprintf(buf, sizeof buf, " | delete %zu", op.shape + 1);
        } else {
            if (!refs[op.shape]) { ended = true; break; }
            double dy = 1000.0 + 300.0 * (double) step;
            for (auto &v : cur[op.shape]) v.y += dy;
            router->moveShape(refs[op.shape], 0, dy);
            snprintf(buf, sizeof buf, " | move %zu far away", op.shape + 1);
        }
        histLine += buf;
        router->processTransaction();
    }
    printf("hist step %zu of %zu : %s\n", upto, ops.size(), histLine.c_str());
    std::vector<vs::DPoly> now;
    for (size_t i = 0; i < cur.size(); ++i) if (refs[i]) now.push_back(cur[i]);
    if (ended || vs::hasCollinearTriple(now, eps)) printf("skip %s\n", ended ? "history-ended" : "collinear");
    else {
        for (size_t i = 0; i < cur.size(); ++i) if (refs[i]) vs::printShape((unsigned) (i + 1), cur[i]);
        dumpObservables(router, refs, crs, conns);
    }
    delete router;
}

static void setParam(Cfg &c, RoutingParameter p, double v) { c.param[p] = v; c.paramSet[p] = true; }

int main(int argc, char **argv) {
    vh::Args a = vh::parseArgs(argc, argv);
    bool thorough = (a.tier == "thorough");
    long k = 0;
    // ---- fixed witnesses: rectangle [1,2]^2, connector along its diagonal line
    for (int lee = 0; lee < 2; ++lee, ++k) {
        if (!a.want(k)) continue;
        vs::Scene s; s.W = 3; s.H = 3; s.shapes.push_back(vs::toD(vs::rectPoly(1, 1, 2, 2))); s.isRect.push_back(true);
        std::vector<ConnSpec> cs; cs.push_back({101, 0, 0, 3, 3, false});
        Cfg cfg; cfg.lee = (lee == 1);
        runCase(k, lee ? "witness-lee-diagonal" : "witness-naive-diagonal", s, cs, cfg);
    }
    // ---- fixed witness (default configuration): the leg (14,7)-(28,21) of the route runs along the
    //      diagonal of the square [21,28]x[14,21]
    if (a.want(k)) {
        vs::Scene s; s.W = 28; s.H = 28;
        s.shapes.push_back(vs::toD(vs::rectPoly(13, 7, 14, 13))); s.shapes.push_back(vs::toD(vs::rectPoly(21, 21, 28, 28)));
        s.shapes.push_back(vs::toD(vs::rectPoly(21, 14, 28, 21))); s.isRect.assign(3, true);
        std::vector<ConnSpec> cs; cs.push_back({101, 12.5, 7, 28, 29, false});
        Cfg cfg;
        runCase(k, "witness-lee-diagonal3", s, cs, cfg);
    }
    ++k;
    // ---- fixed witness (default algorithm, buffer 2): the source gets no visibility edge at all and the
    //      route falls back to the straight segment through the pentagon
    if (a.want(k)) {
        vs::Scene s; s.W = 36; s.H = 20;
        vs::IPoly p2; p2.push_back({5, 9}); p2.push_back({5, 5}); p2.push_back({6, 5}); p2.push_back({9, 6}); p2.push_back({8, 8});
        vs::IPoly p6; p6.push_back({31, 14}); p6.push_back({35, 17}); p6.push_back({33, 18}); p6.push_back({31, 18});
        s.shapes.push_back(vs::toD(p2)); s.shapes.push_back(vs::toD(p6)); s.isRect.assign(2, false);
        std::vector<ConnSpec> cs; cs.push_back({103, 17, 1, 1, 8, false});
        Cfg cfg; cfg.buffer = 2; setParam(cfg, shapeBufferDistance, 2);
        runCase(k, "witness-lee-novis", s, cs, cfg);
    }
    ++k;
    // ---- random scenes
    long nrand = (thorough ? 1500 : 260) * a.scale;
    if (a.n >= 0) nrand = a.n;
    for (long c = 0; c < nrand; ++c, ++k) {
        if (!a.want(k)) continue;
        vh::Rng r = vh::caseRng(a.seed, k);
        Cfg cfg;
        int cls = (int) r.range(0, 9);
        const char *tag;
        // 0-2 poly/lee  3-4 poly/naive  5-6 orth  7 orth+nudging options  8 mixed  9 poly all-penalties
        if (cls <= 2) { tag = "poly-lee"; }
        else if (cls <= 4) { tag = "poly-naive"; cfg.lee = false; }
        else if (cls <= 6) { tag = "orth"; cfg.allowPoly = false; cfg.allowOrth = true; }
        else if (cls == 7) { tag = "orth-nudge"; cfg.allowPoly = false; cfg.allowOrth = true; }
        else if (cls == 8) { tag = "mixed"; cfg.allowOrth = true; cfg.lee = r.coin(3, 4); }
        else { tag = "poly-penalties"; cfg.lee = r.coin(3, 4); }
        if (cfg.allowPoly) { cfg.ignoreRegions = r.coin(3, 4); cfg.invis = r.coin(3, 4); }
        bool buffered = r.coin(1, 3);
        if (buffered) { cfg.buffer = (double) r.range(1, 4) / (r.coin() ? 1.0 : 2.0); setParam(cfg, shapeBufferDistance, cfg.buffer); }
        if (cfg.allowOrth) setParam(cfg, segmentPenalty, r.coin() ? 10 : 50);
        else if (r.coin(1, 3)) setParam(cfg, segmentPenalty, r.coin() ? 5 : 50);
        if (cls == 9 || r.coin(1, 6)) {
            if (r.coin()) setParam(cfg, anglePenalty, r.coin() ? 10 : 100);
            if (r.coin()) setParam(cfg, crossingPenalty, r.coin() ? 20 : 200);
            if (r.coin()) setParam(cfg, fixedSharedPathPenalty, 110);
            if (r.coin()) setParam(cfg, reverseDirectionPenalty, r.coin() ? 3 : 30);
            if (r.coin(1, 4)) setParam(cfg, portDirectionPenalty, 100);
        }
        if (cfg.allowOrth && (cls == 7 || r.coin(1, 4))) {
            if (r.coin()) setParam(cfg, idealNudgingDistance, (double) r.range(1, 8) / 2.0);
            for (int o = 0; o < lastRoutingOptionMarker; ++o) if (r.coin()) cfg.option[o] = (int) r.range(0, 1);
            // nudgeOrthogonalSegmentsConnectedToShapes lets nudging move the end segments (and with them
            // the endpoints): own class, 1 in 4 of the nudging cases
            cfg.option[nudgeOrthogonalSegmentsConnectedToShapes] = (cls == 7 && r.coin(1, 4)) ? 1 : (r.coin() ? 0 : -1);
        }
        vs::SceneOpts so;
        so.nShapesMax = thorough ? (r.coin(1, 5) ? 40 : 16) : 12;
        // buffered scenes: keep the *routing* polygons interior-disjoint (gap >= 2*buffer), touching allowed
        so.margin = buffered ? (long) std::ceil(2 * cfg.buffer) : (r.coin(1, 4) ? 1 : 0);
        // general-position scenes (jittered vertices and endpoints): the strict classes for the polyline algorithms
        bool generic = cfg.allowPoly && r.coin(1, 2);
        if (generic) { so.jitter = true; if (so.margin < 1) so.margin = 1; }
        so.rectPct = (cfg.allowOrth && !cfg.allowPoly) ? 80 : 55;
        vs::Scene s = vs::genScene(r, so);
        vs::makeRoutingDisjoint(s, cfg.buffer);
        std::vector<vs::DPoly> rp = vs::routingPolys(s, cfg.buffer);
        int nconn = (int) r.range(1, thorough ? 8 : 5);
        std::vector<ConnSpec> cs;
        double clear = (buffered ? 0.125 : 0.0) + (generic ? 0.25 : 0.0);   // endpoints strictly outside every (closed) routing polygon
        bool half = r.coin(1, 3);
        bool hug = r.coin(1, 3);       // endpoints just outside routing-polygon corners: routes then follow corner-to-corner visibility edges
        for (int i = 0; i < nconn; ++i) {
            ConnSpec c; c.id = 101 + i;
            if (hug && r.coin(2, 3)) {
                if (!vs::hugPoint(r, s, rp, clear, c.sx, c.sy) || !vs::hugPoint(r, s, rp, clear, c.dx, c.dy)) continue;
            } else
            if (!vs::freePoint(r, s, rp, clear, c.sx, c.sy, half) || !vs::freePoint(r, s, rp, clear, c.dx, c.dy, half)) continue;
            if (generic) { c.sx += r.range(-7, 7) / 64.0; c.sy += r.range(-7, 7) / 64.0; c.dx += r.range(-7, 7) / 64.0; c.dy += r.range(-7, 7) / 64.0; }
            if (c.sx == c.dx && c.sy == c.dy) continue;
            c.orth = cfg.allowOrth && (!cfg.allowPoly || r.coin());
            if (c.orth && cfg.allowPoly) {       // mixed router: keep the orthogonal finding class out of it
                std::vector<ConnSpec> one(1, c);
                if (orthEndpointInBBox(s, one, cfg.buffer)) c.orth = false;
            }
            cs.push_back(c);
        }
        if (cs.empty()) { vh::beginCase(k, "empty"); vh::endCase(); continue; }
        runCase(k, tag, s, cs, cfg);
    }
    // ---- hyperedge scenes (tag orth-hyperedge), after the random scenes so that their indices stay put
    long nhyper = (thorough ? 240 : 60) * a.scale;
    for (long c = 0; c < nhyper; ++c, ++k) {
        if (!a.want(k)) continue;
        vh::Rng r = vh::caseRng(a.seed, k, 7);
        double buffer = r.coin(1, 2) ? 0 : (double) r.range(1, 4);
        bool major = r.coin(1, 3);
        double segPen = r.coin(2, 3) ? 0 : (r.coin() ? 10 : 100);       // 0 = library default (10)
        double nudge = r.coin(2, 3) ? 0 : (double) r.range(2, 8);
        vs::Scene s; std::vector<Terminal> terms; Point jpos;
        bool zfam = r.coin(2, 3), nearAligned = false;
        if (zfam) {
            // "z-branch" family: junction J with terminals TA (up-left), TB (up-right), TC (below); a big shape P
            // right of J forces the J-TB branch into a z whose horizontal part runs under a small shape O that
            // lies between it and TB's level; the improver shifts the J segment up to it, merges, and shifts the
            // merged segment on towards TB: it has to stop at the underside of O.
            // layout units (scaled by U): J(10,15) TA(0,0) TB(20,5) TC(10,30) P[16,26]x[10,20] O[13,17]x[4,6]
            long U = r.range(6, 14);
            long ox0 = r.range(12, 14), ox1 = r.range(16, 18), oy0 = r.range(2, 4), oy1 = r.range(6, 8);
            long px0 = r.range(15, 17), py0 = r.range(9, 11), px1 = r.range(24, 28), py1 = r.range(18, 22);
            long tbx = r.range(19, 22), tby = r.range(oy0 + 1, oy1 - 1);
            long tax = r.range(-2, 2), tay = r.range(-2, 1), tcx = r.range(9, 11), tcy = r.range(27, 33);
            long jx = r.range(9, 11), jy = r.range(14, 16);
            std::vector<vs::IPoly> polys;
            polys.push_back(vs::rectPoly(ox0, oy0, ox1, oy1));
            polys.push_back(vs::rectPoly(px0, py0, px1, py1));
            polys.push_back(vs::rectPoly(-24, -24, -22, -22));          // far-away shapes: keep everything off the
            polys.push_back(vs::rectPoly(42, 42, 44, 44));              // outer edge of the visibility graph
            if (r.coin(1, 3)) polys.push_back(vs::rectPoly(r.range(-12, -8), r.range(8, 12), r.range(-6, -3), r.range(14, 22)));   // bystander left of J
            struct T0 { long x, y; unsigned d; };
            std::vector<T0> ts;
            ts.push_back({tax, tay, ConnDirDown}); ts.push_back({tbx, tby, ConnDirDown}); ts.push_back({tcx, tcy, ConnDirUp});
            if (r.coin(1, 3)) ts.push_back({r.range(2, 6), r.range(34, 38), (unsigned) (r.coin() ? ConnDirUp : ConnDirAll)});     // second lower terminal
            if (r.coin(1, 4)) ts.push_back({r.range(-8, -4), r.range(-3, 0), ConnDirDown});                                      // second upper-left terminal
            bool mx = r.coin(), my = r.coin(), tr = r.coin();
            auto X = [&](long x, long y, double &ox, double &oy) {
                double fx = (double) (mx ? 20 - x : x) * U, fy = (double) (my ? 30 - y : y) * U;
                if (tr) std::swap(fx, fy);
                ox = fx; oy = fy;
            };
            for (auto &p : polys) {
                double x0, y0, x1, y1; X(p[3].x, p[3].y, x0, y0); X(p[1].x, p[1].y, x1, y1);
                s.shapes.push_back(vs::toD(vs::rectPoly((long) std::min(x0, x1), (long) std::min(y0, y1), (long) std::max(x0, x1), (long) std::max(y0, y1))));
                s.isRect.push_back(true);
            }
            for (auto &t : ts) { Terminal q; X(t.x, t.y, q.x, q.y); q.dirs = t.d == ConnDirAll ? ConnDirAll : xformDirs(t.d, mx, my, tr); terms.push_back(q); }
            X(jx, jy, jpos.x, jpos.y);
            s.W = 44 * U; s.H = 44 * U;
            // O and P must both survive: their routing polygons stay disjoint if 2*buffer <= gap between them
            double gap = (double) ((py0 - oy1) * U);
            if (2 * buffer > gap) buffer = std::floor(gap / 2);
        } else {
            // random: grid scene scaled by 10, junction and 3..5 terminals at free points
            vs::SceneOpts so; so.nShapesMin = 2; so.nShapesMax = thorough ? 14 : 9; so.rectPct = 100; so.margin = 1; so.fullCellPct = 10;
            vs::Scene g = vs::genScene(r, so);
            for (auto &p : g.shapes) { vs::DPoly q = p; for (auto &v : q) { v.x *= 10; v.y *= 10; } s.shapes.push_back(q); s.isRect.push_back(true); }
            s.W = g.W * 10; s.H = g.H * 10;
            std::vector<vs::DPoly> rp = vs::routingPolys(s, buffer);
            vs::Scene gs = s; gs.W = s.W; gs.H = s.H;
            double x, y;
            auto freeP = [&](double &ox, double &oy) {
                for (int t = 0; t < 300; ++t) {
                    double px = (double) r.range(-10, s.W + 10), py = (double) r.range(-10, s.H + 10);
                    bool ok = true;
                    for (size_t i = 0; i < rp.size() && ok; ++i) if (vs::inClosedD(rp[i], px, py, 2.0)) ok = false;
                    if (ok) { ox = px; oy = py; return true; }
                }
                return false;
            };
            if (!freeP(x, y)) { vh::beginCase(k, "empty"); vh::endCase(); continue; }
            jpos = Point(x, y);
            int nt = (int) r.range(3, 5);
            // terminals whose x or y differs only slightly from the junction's or another terminal's produce
            // very short hyperedge segments; that sub-class ("near-aligned") is kept apart
            nearAligned = r.coin(1, 2);
            for (int i = 0; i < nt; ++i) {
                Terminal q; bool ok = false;
                for (int t = 0; t < 40 && !ok; ++t) {
                    if (!freeP(q.x, q.y)) break;
                    ok = true;
                    if (!nearAligned) {
                        auto close = [](double u, double v) { return u != v && std::fabs(u - v) < 12; };
                        if (close(q.x, jpos.x) || close(q.y, jpos.y)) ok = false;
                        for (auto &o : terms) if (close(q.x, o.x) || close(q.y, o.y)) ok = false;
                    }
                }
                if (!ok) continue;
                q.dirs = ConnDirAll; if (q.x == jpos.x && q.y == jpos.y) continue; terms.push_back(q);
            }
            if (terms.size() < 3) { vh::beginCase(k, "empty"); vh::endCase(); continue; }
        }
        if (buffer > 0) {       // keep the routing polygons interior-disjoint and the points outside them
            vs::makeRoutingDisjoint(s, buffer);
            std::vector<vs::DPoly> rp = vs::routingPolys(s, buffer);
            bool ok = true;
            for (auto &q : rp) { if (vs::inClosedD(q, jpos.x, jpos.y, 0.5)) ok = false; for (auto &t : terms) if (vs::inClosedD(q, t.x, t.y, 0.5)) ok = false; }
            if (!ok) buffer = 0;
        }
        runHyperCase(k, zfam ? (major ? "orth-hyperedge-major" : "orth-hyperedge") : "orth-hyperedge-random", s, jpos, terms, buffer, major, segPen, nudge);
    }
    // ---- polyline edit histories (tag poly-edit-history); HSLOT case indices per history
    const long HSLOT = 5;
    long nhist = (thorough ? 150 : 40) * a.scale;
    for (long h = 0; h < nhist; ++h, k += HSLOT) {
        if (a.only >= 0 && (a.only < k || a.only >= k + HSLOT)) continue;
        vh::Rng r = vh::caseRng(a.seed, k, 31);
        Cfg cfg; cfg.invis = r.coin(7, 8); cfg.ignoreRegions = r.coin(4, 5);
        if (r.coin(1, 3)) setParam(cfg, segmentPenalty, r.coin() ? 5 : 50);
        vs::SceneOpts so; so.nShapesMin = 1; so.nShapesMax = 5; so.margin = 2; so.rectPct = 75; so.jitter = true; so.fullCellPct = 10;
        vs::Scene g = vs::genScene(r, so);
        vs::Scene s; s.W = g.W * 3; s.H = g.H * 3;
        for (size_t i = 0; i < g.shapes.size(); ++i) { vs::DPoly q = g.shapes[i]; for (auto &v : q) { v.x *= 3; v.y *= 3; } s.shapes.push_back(q); s.isRect.push_back(g.isRect[i]); }
        std::vector<vs::DPoly> rp = vs::routingPolys(s, 0);
        std::vector<ConnSpec> cs;
        int nconn = (int) r.range(1, 2);
        for (int i = 0; i < nconn; ++i) {
            ConnSpec c; c.id = 101 + i; c.orth = false;
            if (!vs::freePoint(r, s, rp, 1.0, c.sx, c.sy, false) || !vs::freePoint(r, s, rp, 1.0, c.dx, c.dy, false)) continue;
            c.sx += r.range(-7, 7) / 64.0; c.sy += r.range(-7, 7) / 64.0; c.dx += r.range(-7, 7) / 64.0; c.dy += r.range(-7, 7) / 64.0;
            if (std::fabs(c.sx - c.dx) + std::fabs(c.sy - c.dy) < 8) continue;
            cs.push_back(c);
        }
        if (cs.empty()) continue;
        std::vector<HistOp> ops;
        int nops = (int) r.range(1, (long) HSLOT - 1);
        for (int q = 0; q < nops; ++q) {
            HistOp op; op.conn = (size_t) r.range(0, (long) cs.size() - 1); op.segsel = (int) r.range(0, 3); op.shape = (size_t) r.range(0, (long) s.shapes.size() - 1);
            int w = (int) r.range(0, 9);
            op.kind = (w < 6) ? 2 : (w < 8) ? 3 : (w < 9 ? 0 : 1);
            if (op.kind == 3 && !s.isRect[op.shape]) op.kind = 2;
            ops.push_back(op);
        }
        for (size_t step = 0; step <= ops.size(); ++step) {
            long kk = k + (long) step;
            if (!a.want(kk)) continue;
            vh::beginCase(kk, "poly-edit-history");
            printf("cfg poly 1 orth 0 lee 1 ignoreRegions %d invis %d\n", cfg.ignoreRegions, cfg.invis);
            for (int i = 0; i < lastRoutingParameterMarker; ++i) if (cfg.paramSet[i]) printf("param %s %s\n", paramName[i], vh::hx(cfg.param[i]).c_str());
            for (size_t i = 0; i < s.shapes.size(); ++i) vs::printPts("shape0", (unsigned) (i + 1), s.shapes[i]);
            for (auto &c : cs) printf("conn %u %s %s %s %s poly\n", c.id, vh::hx(c.sx).c_str(), vh::hx(c.sy).c_str(), vh::hx(c.dx).c_str(), vh::hx(c.dy).c_str());
            printf("hplan %zu ops, snapshot after step %zu:", ops.size(), step);
            for (auto &o : ops) printf(" (%d %zu %zu %d)", o.kind, o.shape + 1, o.conn, o.segsel);
            printf("\n");
            fflush(stdout);
            uint64_t sd = a.seed; long kb = k;
            forkRun([&]() { histBody(sd, kb, step, s, cs, cfg, ops, true); });
            vh::endCase();
        }
    }
    // ---- touching clusters (default algorithm; the scenes contain collinear triples, so runCase tags them lee-collinear;
    //      the `gen touching-cluster` line keeps them countable).  A cluster is grown from one rectangle: each further
    //      rectangle is attached to a random side of a random member so that the two share a piece of boundary of positive
    //      length - its corners then lie in the MIDDLE of the neighbour's side, on its corner, or its sides continue the
    //      neighbour's sides (collinear edges); interior-disjoint by rejection.  The creation order (= shape id order, which
    //      is the order in which processTransaction() sweeps) is a random permutation, so every relative order of "crossed
    //      shape / the two touching neighbours" occurs.  With a buffer the shapes are shrunk so that their ROUTING polygons
    //      are the touching rectangles.  Coordinates are multiples of 1/2: the scenes are exact, the Lee model applies.
    long ntouch = (thorough ? 400 : 90) * a.scale;
    for (long c = 0; c < ntouch; ++c, ++k) {
        if (!a.want(k)) continue;
        // own mixing: caseRng(seed, k) and caseRng(seed, k + 1) are the same splitmix sequence shifted by one draw
        vh::Rng r(vh::caseRng(a.seed, k, 41).next() * 0xBF58476D1CE4E5B9ull + (uint64_t) k);
        Cfg cfg; cfg.ignoreRegions = r.coin(3, 4); cfg.invis = r.coin(3, 4);
        if (r.coin(1, 5)) setParam(cfg, segmentPenalty, r.coin() ? 5 : 50);
        double buffer = r.coin(1, 4) ? (r.coin() ? 1.0 : 0.5) : 0.0;
        if (buffer > 0) { cfg.buffer = buffer; setParam(cfg, shapeBufferDistance, buffer); }
        struct IR { long x0, y0, x1, y1; };
        std::vector<IR> rs;
        long U = r.range(1, 3);                                     // units of 1/2, 1, 3/2
        long bw = r.range(2, 8), bh = r.range(2, 8);
        rs.push_back({0, 0, bw, bh});
        int want = (int) r.range(3, 7);
        for (int tries = 0; tries < 200 && (int) rs.size() < want; ++tries) {
            // the first two neighbours are attached to the first rectangle (so that it has neighbours on two sides often)
            const IR R = rs[rs.size() < 3 ? 0 : (size_t) r.range(0, (long) rs.size() - 1)];
            long w = r.range(1, 6), h = r.range(1, 6);
            int side = (int) r.range(0, 3);
            IR N;
            if (side < 2) {         // left / right: y-ranges overlap with positive length
                long ny0 = r.range(R.y0 - h + 1, R.y1 - 1);
                if (r.coin(1, 4)) ny0 = R.y0; else if (r.coin(1, 4)) ny0 = R.y1 - h;            // collinear bottom / top edges
                N = side == 0 ? IR{R.x0 - w, ny0, R.x0, ny0 + h} : IR{R.x1, ny0, R.x1 + w, ny0 + h};
            } else {                // below / above
                long nx0 = r.range(R.x0 - w + 1, R.x1 - 1);
                if (r.coin(1, 4)) nx0 = R.x0; else if (r.coin(1, 4)) nx0 = R.x1 - w;
                N = side == 2 ? IR{nx0, R.y0 - h, nx0 + w, R.y0} : IR{nx0, R.y1, nx0 + w, R.y1 + h};
            }
            bool ok = true;
            for (auto &q : rs) if (N.x0 < q.x1 && q.x0 < N.x1 && N.y0 < q.y1 && q.y0 < N.y1) ok = false;    // open boxes meet
            if (ok) rs.push_back(N);
        }
        long mx = 0, my = 0;
        for (auto &q : rs) { mx = std::min(mx, q.x0); my = std::min(my, q.y0); }
        r.shuffle(rs);                                              // creation order
        vs::Scene s; s.W = 0; s.H = 0;
        double hu = (double) U / 2.0;
        bool thin = false;
        for (auto &q : rs) {
            double x0 = (double) (q.x0 - mx + 2) * hu, y0 = (double) (q.y0 - my + 2) * hu, x1 = (double) (q.x1 - mx + 2) * hu, y1 = (double) (q.y1 - my + 2) * hu;
            if (x1 - x0 <= 2 * buffer || y1 - y0 <= 2 * buffer) thin = true;
            s.shapes.push_back(vs::rectD(x0 + buffer, y0 + buffer, x1 - buffer, y1 - buffer)); s.isRect.push_back(true);
            s.W = std::max(s.W, (long) std::ceil(x1) + 2); s.H = std::max(s.H, (long) std::ceil(y1) + 2);
        }
        if (thin) {                 // a rectangle too thin for this buffer: use the scene unbuffered
            for (size_t i = 0; i < s.shapes.size(); ++i) {
                vs::DPoly &p = s.shapes[i];
                p = vs::rectD(p[3].x - buffer, p[3].y - buffer, p[1].x + buffer, p[1].y + buffer);
            }
            buffer = 0; cfg.buffer = 0; cfg.paramSet[shapeBufferDistance] = false;
        }
        std::vector<vs::DPoly> rp = vs::routingPolys(s, cfg.buffer);
        std::vector<ConnSpec> cs;
        int nconn = (int) r.range(1, 3);
        for (int i = 0; i < nconn; ++i) {
            ConnSpec cn; cn.id = 101 + i; cn.orth = false;
            // an endpoint exactly ON the outline of a routing polygon (strictly inside one of its sides, touching no other
            // polygon): outside every shape, but the sweep's touching rule applies to it
            long lastPoly = -1;
            auto onOutline = [&](double &ox, double &oy, long usePoly = -1) {
                for (int t = 0; t < 40; ++t) {
                    long qi = usePoly >= 0 ? usePoly : (long) (r.next() % rp.size());
                    lastPoly = qi;
                    const vs::DPoly &q = rp[(size_t) qi];
                    double lx = q[3].x, ly = q[3].y, hx = q[1].x, hy = q[1].y;
                    int side = (int) r.range(0, 3);
                    long nx = (long) ((hx - lx) * 2), ny = (long) ((hy - ly) * 2);
                    double px, py;
                    if (side < 2) { if (ny < 2) continue; px = side == 0 ? lx : hx; py = ly + (double) r.range(1, ny - 1) / 2.0; }
                    else { if (nx < 2) continue; py = side == 2 ? ly : hy; px = lx + (double) r.range(1, nx - 1) / 2.0; }
                    // ... and not on the outline of a second polygon either: where two touching shapes share a piece of boundary,
                    // two collinear status edges pass through the point and the sweep's verdict depends on the rounding of
                    // their intersection distances at earlier sweep angles (see the fixer report; kept out of the plan)
                    bool ok = true;
                    for (long oi = 0; oi < (long) rp.size(); ++oi) if (oi != qi && vs::inClosedD(rp[(size_t) oi], px, py, 1e-6)) ok = false;
                    if (ok) { ox = px; oy = py; return true; }
                }
                return false;
            };
            bool okc;
            int mode = (int) r.range(0, 5);
            if (mode == 0) okc = onOutline(cn.sx, cn.sy) && onOutline(cn.dx, cn.dy, r.coin(2, 3) ? lastPoly : -1);     // often both on the same polygon
            else if (mode == 1) okc = onOutline(cn.sx, cn.sy) && vs::freePoint(r, s, rp, 0.125, cn.dx, cn.dy, true);
            else if (mode <= 3) okc = vs::hugPoint(r, s, rp, 0.125, cn.sx, cn.sy) && vs::hugPoint(r, s, rp, 0.125, cn.dx, cn.dy);
            else okc = vs::freePoint(r, s, rp, 0.125, cn.sx, cn.sy, true) && vs::freePoint(r, s, rp, 0.125, cn.dx, cn.dy, true);
            if (!okc || (cn.sx == cn.dx && cn.sy == cn.dy)) continue;
            cs.push_back(cn);
        }
        if (cs.empty()) { vh::beginCase(k, "empty"); vh::endCase(); continue; }
        runCase(k, "poly-lee-touching", s, cs, cfg, "gen touching-cluster");
    }
    return 0;
}
