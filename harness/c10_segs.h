// C10 (builder N1): what buildOrthogonalNudgingSegments / buildOrthogonalChannelInfo see at the START of every call of
// ImproveOrthogonalRoutes::nudgeOrthogonalRoutes (one "pass" = one dimension of the unifying or of the nudging stage).
// No hook: nudgeOrthogonalRoutes calls Router::performContinuationCheck(TransactionPhaseOrthogonalNudgingX|Y, shifted, total)
// at the top of every iteration of its region loop, which calls the VIRTUAL Router::shouldContinueTransactionWithProgress.
// `shifted == 0` (proportion 0) happens exactly once per pass with a non-empty segment list: after the segments and their
// channel limits were built and before any region of the pass was formed, sorted (linesort merges segments and writes to
// displayRoute) or written back.  SegRouter snapshots, at that moment, the public state the two builders read:
// every orthogonal connector's displayRoute() (points + the checkpointsOnRoute cache), hasFixedRoute(), every obstacle of
// m_obstacles in list order (shape: polygon().offsetBoundingBox(0) as the code takes it; junction: position(), positionFixed();
// routingBox() of both for the scan line) and the options / parameters.  Trusted: these public accessors.
//
// Lines (p = pass number in call order, doubles as %a):
//   pass p dim firstRegion nudgeFinal segmentPenaltyIsZero nconn nobs
//   pconn p connId fixedRoute npts (x y)*
//   pcps p connId n (cacheIndex x y)*
//   pobs p k kind(0 shape,1 junction,2 other) inScan bminx bminy bmaxx bmaxy rminx rminy rmaxx rmaxy
#ifndef VERIF_C10_SEGS_H
#define VERIF_C10_SEGS_H
#include "common.h"
#include "c10_regions.h"
#include "libavoid/libavoid.h"
#include <vector>
#include <string>

namespace c10s {
static std::vector<std::string> g_lines;
static size_t g_pass = 0;

struct SegRouter : public Avoid::Router {
    SegRouter(unsigned flags) : Avoid::Router(flags) {}
    virtual bool shouldContinueTransactionWithProgress(unsigned int, unsigned int phase, unsigned int, double proportion) {
        using namespace Avoid;
        using vh::hx;
        if ((phase == TransactionPhaseOrthogonalNudgingX || phase == TransactionPhaseOrthogonalNudgingY) && proportion == 0.0) {
            size_t dim = (phase == TransactionPhaseOrthogonalNudgingX) ? 0 : 1;
            size_t firstRegion = 0;
#ifdef ADAPTAGRAMS_VERIF_NUDGE_HOOK
            firstRegion = c10r::g_regions.size();
#endif
            size_t p = g_pass++;
            size_t nconn = 0;
            for (ConnRefList::const_iterator it = connRefs.begin(); it != connRefs.end(); ++it)
                if ((*it)->routingType() == ConnType_Orthogonal) ++nconn;
            char buf[256];
            snprintf(buf, sizeof buf, "pass %zu %zu %zu %d %d %zu %zu", p, dim, firstRegion,
                     (int) routingOption(nudgeOrthogonalSegmentsConnectedToShapes), (int) (routingParameter(segmentPenalty) == 0), nconn,
                     m_obstacles.size());
            g_lines.push_back(buf);
            for (ConnRefList::const_iterator it = connRefs.begin(); it != connRefs.end(); ++it) {
                ConnRef *c = *it;
                if (c->routingType() != ConnType_Orthogonal) continue;
                const Polygon &dr = c->displayRoute();
                std::string s = "pconn " + std::to_string(p) + " " + std::to_string(c->id()) + " " + (c->hasFixedRoute() ? "1" : "0") + " " +
                                std::to_string(dr.size());
                for (size_t i = 0; i < dr.size(); ++i) s += " " + hx(dr.ps[i].x) + " " + hx(dr.ps[i].y);
                g_lines.push_back(s);
                s = "pcps " + std::to_string(p) + " " + std::to_string(c->id()) + " " + std::to_string(dr.checkpointsOnRoute.size());
                for (size_t i = 0; i < dr.checkpointsOnRoute.size(); ++i)
                    s += " " + std::to_string(dr.checkpointsOnRoute[i].first) + " " + hx(dr.checkpointsOnRoute[i].second.x) + " " +
                         hx(dr.checkpointsOnRoute[i].second.y);
                g_lines.push_back(s);
            }
            size_t k = 0;
            for (ObstacleList::const_iterator it = m_obstacles.begin(); it != m_obstacles.end(); ++it, ++k) {
                Obstacle *o = *it;
                ShapeRef *shape = dynamic_cast<ShapeRef *>(o);
                JunctionRef *junction = dynamic_cast<JunctionRef *>(o);
                int kind = shape ? 0 : junction ? 1 : 2;
                bool inScan = !(junction && !junction->positionFixed());
                Point bmin(0, 0), bmax(0, 0);
                if (shape) {
                    Box b = shape->polygon().offsetBoundingBox(0.0);
                    bmin = b.min; bmax = b.max;
                } else if (junction) {
                    bmin = bmax = junction->position();
                }
                Box rb = o->routingBox();
                std::string s = "pobs " + std::to_string(p) + " " + std::to_string(k) + " " + std::to_string(kind) + " " + (inScan ? "1" : "0") + " " +
                                hx(bmin.x) + " " + hx(bmin.y) + " " + hx(bmax.x) + " " + hx(bmax.y) + " " + hx(rb.min.x) + " " + hx(rb.min.y) + " " +
                                hx(rb.max.x) + " " + hx(rb.max.y);
                g_lines.push_back(s);
            }
        }
        return true;
    }
};

inline void arm() { g_lines.clear(); g_pass = 0; }
inline void dump() {
    for (size_t i = 0; i < g_lines.size(); ++i) printf("%s\n", g_lines[i].c_str());
    g_lines.clear(); g_pass = 0;
}
} // namespace c10s
#endif
