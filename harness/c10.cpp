// C10 correspondence harness: libavoid orthogonal nudging.
// One case = one scene: two rectangular blocks leave a straight corridor of free width W between
// them (horizontal, or vertical when transposed); m = 2..6 orthogonal connectors with pairwise
// distinct free end points start on one side and end on the other, so that their cheapest routes
// have to share the corridor (and the approach channels beside the blocks, which are unbounded).
// idealNudgingDistance d in {1,4,10}; every combination of the five nudging RoutingOptions.
// "wide enough" is W >= (m+1)*d by construction and is recorded in the case (`cfg` line).
// The harness prints route() and displayRoute() of every connector after processTransaction();
// the Lean driver (Driver/C10.lean) runs the proven checkers of Check/Nudge.lean on them.
// No hook is used: the per-region VPSC constraints are not observed (DESIGN hook H1 skipped).
#include "common.h"
#include "libavoid/libavoid.h"
#include "libvpsc/assertions.h"
#include <unistd.h>
#include <set>
using namespace Avoid;
using vh::hx;

static std::string oneLine(std::string s) {
    for (auto &c : s) if (c == ' ' || c == '\n' || c == '\t') c = '_';
    return s;
}

struct Pt2 { double x, y; };

static void pts(const char *key, int id, const PolyLine &pl, bool tr) {
    printf("%s %d %zu", key, id, pl.size());
    for (size_t i = 0; i < pl.size(); ++i) {
        double x = pl.ps[i].x, y = pl.ps[i].y;
        (void) tr;
        printf(" %s %s", hx(x).c_str(), hx(y).c_str());
    }
    printf("\n");
}

static void reexecFrom(long k, int argc, char **argv) {
    std::vector<char *> nargv;
    for (int i = 0; i < argc; ++i) {
        if (std::string(argv[i]) == "--from") { ++i; continue; }
        nargv.push_back(argv[i]);
    }
    std::string fromS = std::to_string(k);
    nargv.push_back((char *) "--from"); nargv.push_back((char *) fromS.c_str()); nargv.push_back(nullptr);
    execv("/proc/self/exe", nargv.data());
    _exit(3);
}

// Second family ("cpmid"): one obstacle, m = 2..3 connectors whose routes are S/Z-shaped: a first leg
// that runs THROUGH a checkpoint lying strictly inside it (not at a bend), a middle segment in the
// channel beside the obstacle, a last leg to the target. All middle segments share that channel and
// have to be nudged apart; they may move towards the checkpoints only as far as the nearest checkpoint
// coordinate (buildOrthogonalNudgingSegments limits a middle segment by the checkpoints on the two
// adjoining segments). `side` = +1: the checkpoints lie at a HIGHER coordinate than the channel,
// -1: mirrored (lower coordinate); optionally transposed. The channel [edge+buffer, checkpoint] is
// wide enough, (m+1)*d <= its width, by construction.
static bool cpMidCase(const vh::Args &a, long k, int argc, char **argv) {
    vh::Rng r = vh::caseRng(a.seed, k, 1);
    static const double ds[] = {1, 4, 8, 10};
    double d = ds[r.range(0, 3)];
    int m = (int) r.range(2, 3);
    unsigned opts = (unsigned) (2 * r.range(0, 15));           // nudgeOrthogonalSegmentsConnectedToShapes off
    if (r.coin()) opts = 4 | 8;                                 // the library defaults
    double buf = r.coin() ? 10.0 : 4.0;
    double side = r.coin() ? 1.0 : -1.0;
    bool transpose = r.coin();
    double hw = (double) r.range(20, 40);                       // obstacle [-hw,hw] x [20, 20+ht]
    double ht = (double) r.range(40, 80);
    double width = (m + 1) * d + (double) r.range(0, 20);       // channel width between obstacle buffer and checkpoint
    double cx = hw + buf + width;                               // checkpoint abscissa (before mirroring)
    double X = cx + (double) r.range(40, 160);                  // source abscissa
    double seg = r.coin() ? 50.0 : 10.0;                        // segmentPenalty
    auto P = [&](double x, double y) { return transpose ? Point(y, side * x) : Point(side * x, y); };
    vh::beginCase(k, side > 0 ? "cpmid" : "cpmid-mirror");
    printf("cfg %s %s %d %d %s %u %s %d cpmid\n", hx(d).c_str(), hx(width).c_str(), m, 1, hx(buf).c_str(), opts, hx(0.0).c_str(), (int) transpose);
    Router *router = nullptr;
    try {
        router = new Router(OrthogonalRouting);
        router->setTransactionUse(true);
        router->setRoutingParameter(segmentPenalty, seg);
        router->setRoutingParameter(idealNudgingDistance, d);
        router->setRoutingParameter(shapeBufferDistance, buf);
        router->setRoutingOption(nudgeOrthogonalSegmentsConnectedToShapes, false);
        router->setRoutingOption(nudgeOrthogonalTouchingColinearSegments, (opts & 2) != 0);
        router->setRoutingOption(performUnifyingNudgingPreprocessingStep, (opts & 4) != 0);
        router->setRoutingOption(nudgeSharedPathsWithCommonEndPoint, (opts & 8) != 0);
        router->setRoutingOption(penaliseOrthogonalSharedPathsAtConnEnds, (opts & 16) != 0);
        Point o1 = P(-hw, 20), o2 = P(hw, 20 + ht);
        Rectangle rect(Point(std::min(o1.x, o2.x), std::min(o1.y, o2.y)), Point(std::max(o1.x, o2.x), std::max(o1.y, o2.y)));
        printf("obstacle %s %s %s %s\n", hx(std::min(o1.x, o2.x)).c_str(), hx(std::min(o1.y, o2.y)).c_str(), hx(std::max(o1.x, o2.x)).c_str(), hx(std::max(o1.y, o2.y)).c_str());
        new ShapeRef(router, rect, 1);
        std::vector<ConnRef *> conns;
        int noCp = r.coin(1, 4) ? (int) r.range(0, m - 1) : -1;      // sometimes one connector without checkpoint
        for (int i = 0; i < m; ++i) {
            double ys = i ? -20.0 * i : 0.0, yt = 20 + ht + 20 + 20.0 * i;
            Point s = P(X, ys), t = P(0, yt);
            printf("conn %d %s %s %s %s\n", i, hx(s.x).c_str(), hx(s.y).c_str(), hx(t.x).c_str(), hx(t.y).c_str());
            ConnRef *c = new ConnRef(router, ConnEnd(s), ConnEnd(t), (unsigned) (100 + i));
            c->setRoutingType(ConnType_Orthogonal);
            if (i != noCp) {
                Point cp = P(cx, ys);
                printf("cps %d 1 %s %s\n", i, hx(cp.x).c_str(), hx(cp.y).c_str());
                std::vector<Checkpoint> v; v.push_back(Checkpoint(cp));
                c->setRoutingCheckpoints(v);
            }
            conns.push_back(c);
        }
        fflush(stdout);
        router->processTransaction();
        for (int i = 0; i < m; ++i) {
            pts("route", i, conns[i]->route(), transpose);
            pts("disp", i, conns[i]->displayRoute(), transpose);
        }
        printf("overlap %d\n", (int) router->existsOrthogonalSegmentOverlap());
        vh::endCase();
        delete router;
    } catch (vpsc::CriticalFailure &f) {
        printf("assert %s\n", oneLine(f.what()).c_str());
        vh::endCase();
        if (a.only >= 0) _exit(0);
        reexecFrom(k + 1, argc, argv);
    }
    return true;
}

int main(int argc, char **argv) {
    vh::Args a = vh::parseArgs(argc, argv);
    bool thorough = (a.tier == "thorough");
    long ncases = (thorough ? 40000 : 5000) * a.scale;
    if (a.n >= 0) ncases = a.n;
    long from = 0;
    for (int i = 1; i + 1 < argc; ++i) if (std::string(argv[i]) == "--from") from = atol(argv[i + 1]);
    long nmid = (thorough ? 8000 : 1500) * a.scale;        // second family, indices ncases .. ncases+nmid-1
    for (long k = from; k < ncases + nmid; ++k) {
        if (!a.want(k)) continue;
        if (k >= ncases) {
            if (!cpMidCase(a, k, argc, argv)) return 0;
            continue;
        }
        vh::Rng r = vh::caseRng(a.seed, k);
        // ---- parameters
        static const double ds[] = {1, 4, 10};
        double d = ds[r.range(0, 2)];
        int m = (int) r.range(2, 6);
        unsigned opts = (unsigned) (k % 32);                // all 2^5 option combinations in turn
        bool wide = r.coin(3, 4);
        double need = (m + 1) * d;
        double W = wide ? need + (double) r.range(0, (long) (3 * d)) : (double) r.range(1, (long) need - 1);
        if (!wide && W < 1) W = 1;
        double buf = r.coin(1, 3) ? 2.0 : 0.0;
        bool transpose = r.coin();
        double fsp = r.coin(1, 6) ? 110.0 : 0.0;            // fixedSharedPathPenalty
        bool withCp = r.coin(1, 4);
        // ---- geometry (described for the horizontal corridor; transposed on output/input)
        // blocks span x in [L,R]; the corridor is y in (T1+buf, T1+buf+W)
        double L = 300, R = 300 + (double) r.range(10, 30) * 10, T1 = 400, H = 300;
        double gap = W + 2 * buf;
        double c0 = T1 + buf, c1 = T1 + buf + W;            // free corridor interval
        double side = (m + 3) * d + 30;                     // room beside the blocks for the approach channels
        auto P = [&](double x, double y) { return transpose ? Point(y, x) : Point(x, y); };
        // end points: pairwise distinct abscissae and pairwise distinct ordinates (so no two first /
        // last legs can be collinear). In a wide-enough case no end point ordinate lies in the
        // closed corridor range, so every segment inside the corridor is an inner (movable) one.
        std::set<long> used;
        std::vector<Pt2> S, T;
        for (int i = 0; i < m; ++i) {
            for (int e = 0; e < 2; ++e) {
                long y;
                do {
                    int zone = (int) r.range(0, wide ? 1 : 3);   // 0 above, 1 below, 2 inside / near, 3 anywhere
                    long lo = (long) (T1 - 80), hi = (long) (T1 + gap + 80);
                    if (zone == 0) hi = (long) T1 - 3; else if (zone == 1) lo = (long) (T1 + gap) + 3;
                    else if (zone == 2) { lo = (long) T1 - 10; hi = (long) (T1 + gap) + 10; }
                    y = r.range(lo, hi);
                } while (used.count(y));
                used.insert(y);
                Pt2 p; p.y = (double) y; p.x = e ? R + side + 14 * i : L - side - 14 * i;
                (e ? T : S).push_back(p);
            }
        }
        const char *tag = (opts & 1) ? "final-nudge" : fsp > 0 ? "shared-penalty" : wide ? "wide" : "narrow";
        vh::beginCase(k, tag);
        printf("cfg %s %s %d %d %s %u %s %d\n", hx(d).c_str(), hx(W).c_str(), m, (int) wide, hx(buf).c_str(), opts, hx(fsp).c_str(), (int) transpose);
        Router *router = nullptr;
        try {
            router = new Router(OrthogonalRouting);
            router->setTransactionUse(true);
            router->setRoutingParameter(idealNudgingDistance, d);
            router->setRoutingParameter(shapeBufferDistance, buf);
            if (fsp > 0) router->setRoutingParameter(fixedSharedPathPenalty, fsp);
            router->setRoutingOption(nudgeOrthogonalSegmentsConnectedToShapes, (opts & 1) != 0);
            router->setRoutingOption(nudgeOrthogonalTouchingColinearSegments, (opts & 2) != 0);
            router->setRoutingOption(performUnifyingNudgingPreprocessingStep, (opts & 4) != 0);
            router->setRoutingOption(nudgeSharedPathsWithCommonEndPoint, (opts & 8) != 0);
            router->setRoutingOption(penaliseOrthogonalSharedPathsAtConnEnds, (opts & 16) != 0);
            // blocks
            Point b1a = P(L, T1 - H), b1b = P(R, T1), b2a = P(L, T1 + gap), b2b = P(R, T1 + gap + H);
            Rectangle r1(b1a, b1b), r2(b2a, b2b);
            printf("block 0 %s %s %s %s\n", hx(std::min(b1a.x, b1b.x)).c_str(), hx(std::min(b1a.y, b1b.y)).c_str(), hx(std::max(b1a.x, b1b.x)).c_str(), hx(std::max(b1a.y, b1b.y)).c_str());
            printf("block 1 %s %s %s %s\n", hx(std::min(b2a.x, b2b.x)).c_str(), hx(std::min(b2a.y, b2b.y)).c_str(), hx(std::max(b2a.x, b2b.x)).c_str(), hx(std::max(b2a.y, b2b.y)).c_str());
            new ShapeRef(router, r1, 1);
            new ShapeRef(router, r2, 2);
            std::vector<ConnRef *> conns;
            int cpConn = withCp ? (int) r.range(0, m - 1) : -1;
            for (int i = 0; i < m; ++i) {
                Point s = P(S[i].x, S[i].y), t = P(T[i].x, T[i].y);
                printf("conn %d %s %s %s %s\n", i, hx(s.x).c_str(), hx(s.y).c_str(), hx(t.x).c_str(), hx(t.y).c_str());
                ConnRef *c = new ConnRef(router, ConnEnd(s), ConnEnd(t), (unsigned) (100 + i));
                c->setRoutingType(ConnType_Orthogonal);
                if (i == cpConn) {
                    // a checkpoint inside the corridor, on its centre line (W even) or on an integer line
                    double cy = c0 + std::floor(W / 2), cx = L + std::floor((R - L) / 20) * 10;
                    Point cp = P(cx, cy);
                    printf("cps %d 1 %s %s\n", i, hx(cp.x).c_str(), hx(cp.y).c_str());
                    std::vector<Checkpoint> v; v.push_back(Checkpoint(cp));
                    c->setRoutingCheckpoints(v);
                }
                conns.push_back(c);
            }
            (void) c1;
            fflush(stdout);
            router->processTransaction();
            for (int i = 0; i < m; ++i) {
                pts("route", i, conns[i]->route(), transpose);
                pts("disp", i, conns[i]->displayRoute(), transpose);
            }
            printf("overlap %d\n", (int) router->existsOrthogonalSegmentOverlap());
            vh::endCase();
            delete router;
        } catch (vpsc::CriticalFailure &f) {
            // libraries are built with -DUSE_ASSERT_EXCEPTIONS: a failed COLA_ASSERT costs one case
            // (reported in the stream); continue in a fresh process image, see harness/c11.cpp
            printf("assert %s\n", oneLine(f.what()).c_str());
            vh::endCase();
            if (a.only >= 0) _exit(0);
            std::vector<char *> nargv;
            for (int i = 0; i < argc; ++i) {
                if (std::string(argv[i]) == "--from") { ++i; continue; }
                nargv.push_back(argv[i]);
            }
            std::string fromS = std::to_string(k + 1);
            nargv.push_back((char *) "--from"); nargv.push_back((char *) fromS.c_str()); nargv.push_back(nullptr);
            execv("/proc/self/exe", nargv.data());
            _exit(3);
        }
    }
    return 0;
}
