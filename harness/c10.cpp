// C10 correspondence harness: libavoid orthogonal nudging.
// One case = one scene: two rectangular blocks leave a straight corridor of free width W between
// them (horizontal, or vertical when transposed); m = 2..6 orthogonal connectors with pairwise
// distinct free end points start on one side and end on the other, so that their cheapest routes
// have to share the corridor (and the approach channels beside the blocks, which are unbounded).
// idealNudgingDistance d in {1,4,10}; every combination of the five nudging RoutingOptions.
// "wide enough" is W >= (m+1)*d by construction and is recorded in the case (`cfg` line).
// The harness prints route() and displayRoute() of every connector after processTransaction();
// the Lean driver (Driver/C10.lean) runs the proven checkers of Check/Nudge.lean on them.
// Hook H1 (harness/c10_regions.h): when /repo carries the guarded hook, every region that nudgeOrthogonalRoutes
// forms is dumped (ordered segments, variables, constraints of every attempt, solver outcome, write-back) and the
// driver compares it with Model/NudgeRegion.lean; without the hook the harness prints `hook 0`.
#include "common.h"
#include "libavoid/libavoid.h"
#include "libvpsc/assertions.h"
#include "c10_regions.h"
#include "c10_segs.h"
#include <unistd.h>
#include <sys/wait.h>
#include <sys/mman.h>
#include <set>
using namespace Avoid;
using vh::hx;

static std::string oneLine(std::string s) {
    for (auto &c : s) if (c == ' ' || c == '\n' || c == '\t') c = '_';
    return s;
}

struct Pt2 { double x, y; };

static void pts(const char *key, int id, const PolyLine &pl, bool tr) {
    printf("%s %d %zu", key, id, pl.size());
    for (size_t i = 0; i < pl.size(); ++i) {
        double x = pl.ps[i].x, y = pl.ps[i].y;
        (void) tr;
        printf(" %s %s", hx(x).c_str(), hx(y).c_str());
    }
    printf("\n");
}

static void reexecFrom(long k, int argc, char **argv) {
    std::vector<char *> nargv;
    for (int i = 0; i < argc; ++i) {
        if (std::string(argv[i]) == "--from") { ++i; continue; }
        nargv.push_back(argv[i]);
    }
    std::string fromS = std::to_string(k);
    nargv.push_back((char *) "--from"); nargv.push_back((char *) fromS.c_str()); nargv.push_back(nullptr);
    execv("/proc/self/exe", nargv.data());
    _exit(3);
}

// Second family ("cpmid"): one obstacle, m = 2..3 connectors whose routes are S/Z-shaped: a first leg
// that runs THROUGH a checkpoint lying strictly inside it (not at a bend), a middle segment in the
// channel beside the obstacle, a last leg to the target. All middle segments share that channel and
// have to be nudged apart; they may move towards the checkpoints only as far as the nearest checkpoint
// coordinate (buildOrthogonalNudgingSegments limits a middle segment by the checkpoints on the two
// adjoining segments). `side` = +1: the checkpoints lie at a HIGHER coordinate than the channel,
// -1: mirrored (lower coordinate); optionally transposed. The channel [edge+buffer, checkpoint] is
// wide enough, (m+1)*d <= its width, by construction.
static bool cpMidCase(const vh::Args &a, long k, int argc, char **argv) {
    vh::Rng r = vh::caseRng(a.seed, k, 1);
    static const double ds[] = {1, 4, 8, 10};
    double d = ds[r.range(0, 3)];
    int m = (int) r.range(2, 3);
    unsigned opts = (unsigned) (2 * r.range(0, 15));           // nudgeOrthogonalSegmentsConnectedToShapes off
    if (r.coin()) opts = 4 | 8;                                 // the library defaults
    double buf = r.coin() ? 10.0 : 4.0;
    double side = r.coin() ? 1.0 : -1.0;
    bool transpose = r.coin();
    double hw = (double) r.range(20, 40);                       // obstacle [-hw,hw] x [20, 20+ht]
    double ht = (double) r.range(40, 80);
    double width = (m + 1) * d + (double) r.range(0, 20);       // channel width between obstacle buffer and checkpoint
    double cx = hw + buf + width;                               // checkpoint abscissa (before mirroring)
    double X = cx + (double) r.range(40, 160);                  // source abscissa
    double seg = r.coin() ? 50.0 : 10.0;                        // segmentPenalty
    auto P = [&](double x, double y) { return transpose ? Point(y, side * x) : Point(side * x, y); };
    vh::beginCase(k, side > 0 ? "cpmid" : "cpmid-mirror");
    printf("cfg %s %s %d %d %s %u %s %d cpmid\n", hx(d).c_str(), hx(width).c_str(), m, 1, hx(buf).c_str(), opts, hx(0.0).c_str(), (int) transpose);
    Router *router = nullptr;
    try {
        router = new c10s::SegRouter(OrthogonalRouting);
        router->setTransactionUse(true);
        router->setRoutingParameter(segmentPenalty, seg);
        router->setRoutingParameter(idealNudgingDistance, d);
        router->setRoutingParameter(shapeBufferDistance, buf);
        router->setRoutingOption(nudgeOrthogonalSegmentsConnectedToShapes, false);
        router->setRoutingOption(nudgeOrthogonalTouchingColinearSegments, (opts & 2) != 0);
        router->setRoutingOption(performUnifyingNudgingPreprocessingStep, (opts & 4) != 0);
        router->setRoutingOption(nudgeSharedPathsWithCommonEndPoint, (opts & 8) != 0);
        router->setRoutingOption(penaliseOrthogonalSharedPathsAtConnEnds, (opts & 16) != 0);
        Point o1 = P(-hw, 20), o2 = P(hw, 20 + ht);
        Rectangle rect(Point(std::min(o1.x, o2.x), std::min(o1.y, o2.y)), Point(std::max(o1.x, o2.x), std::max(o1.y, o2.y)));
        printf("obstacle %s %s %s %s\n", hx(std::min(o1.x, o2.x)).c_str(), hx(std::min(o1.y, o2.y)).c_str(), hx(std::max(o1.x, o2.x)).c_str(), hx(std::max(o1.y, o2.y)).c_str());
        new ShapeRef(router, rect, 1);
        std::vector<ConnRef *> conns;
        int noCp = r.coin(1, 4) ? (int) r.range(0, m - 1) : -1;      // sometimes one connector without checkpoint
        for (int i = 0; i < m; ++i) {
            double ys = i ? -20.0 * i : 0.0, yt = 20 + ht + 20 + 20.0 * i;
            Point s = P(X, ys), t = P(0, yt);
            printf("conn %d %s %s %s %s\n", i, hx(s.x).c_str(), hx(s.y).c_str(), hx(t.x).c_str(), hx(t.y).c_str());
            ConnRef *c = new ConnRef(router, ConnEnd(s), ConnEnd(t), (unsigned) (100 + i));
            c->setRoutingType(ConnType_Orthogonal);
            if (i != noCp) {
                Point cp = P(cx, ys);
                printf("cps %d 1 %s %s\n", i, hx(cp.x).c_str(), hx(cp.y).c_str());
                std::vector<Checkpoint> v; v.push_back(Checkpoint(cp));
                c->setRoutingCheckpoints(v);
            }
            conns.push_back(c);
        }
        fflush(stdout);
        c10r::arm(); c10s::arm();
        router->processTransaction();
        c10r::dump(); c10s::dump();
        for (int i = 0; i < m; ++i) {
            pts("route", i, conns[i]->route(), transpose);
            pts("disp", i, conns[i]->displayRoute(), transpose);
        }
        printf("overlap %d\n", (int) router->existsOrthogonalSegmentOverlap());
        vh::endCase();
        delete router;
    } catch (vpsc::CriticalFailure &f) {
        c10r::dump(); c10s::dump();
        printf("assert %s\n", oneLine(f.what()).c_str());
        vh::endCase();
        if (a.only >= 0) _exit(0);
        reexecFrom(k + 1, argc, argv);
    }
    return true;
}

// Third family ("endseg-tie" / control "endseg-off"): one obstacle; connector A leaves its source
// (a free point with a direction, or the pin of a small shape) exactly along the line
// obstacle edge + shapeBufferDistance, so its FIRST segment - which nudging may not move - lies on the
// line along which 1..2 other connectors (no common end point) wrap around the obstacle as c-bends.
// The side away from the obstacle is free for >= (m+1)*d + 20, so the channel is wide enough and the
// c-bends have to be moved out. Control: A's source is off that line by 3 + d. All eight
// mirror / transpose images are generated.
static bool endSegTieCase(const vh::Args &a, long k, int argc, char **argv) {
    vh::Rng r = vh::caseRng(a.seed, k, 2);
    static const double ds[] = {1, 4, 10};
    double d = ds[r.range(0, 2)];
    int nb = (int) r.range(1, 2), m = nb + 1;
    bool tie = r.coin(3, 4);
    bool pins = r.coin();
    unsigned opts = r.coin() ? (4u | 8u) : (unsigned) (2 * r.range(0, 15));   // defaults, or any combination with final-nudge off
    double buf = r.coin() ? 10.0 : 4.0;
    double seg = r.coin() ? 50.0 : 10.0;
    double sx = r.coin() ? 1.0 : -1.0, sy = r.coin() ? 1.0 : -1.0;
    bool transpose = r.coin();
    double w = 2.0 * r.range(30, 70), h = 2.0 * r.range(20, 40), cx = 200, cy = 100;
    double left = cx - w / 2, right = cx + w / 2, ye = cy + h / 2 + buf;      // buffered lower edge
    double room = (m + 1) * d + 20;
    double ya = tie ? ye : ye + 3 + d;
    double xa = left - buf - (double) r.range(50, 110), xt = right + buf + (double) r.range(50, 110);
    double yt = ye + room + (double) r.range(20, 60);
    auto P = [&](double x, double y) { double X = sx * x, Y = sy * y; return transpose ? Point(Y, X) : Point(X, Y); };
    auto D = [&](double dx, double dy) -> ConnDirFlags {          // image of a direction
        double X = sx * dx, Y = sy * dy; if (transpose) std::swap(X, Y);
        return X > 0 ? ConnDirRight : X < 0 ? ConnDirLeft : Y > 0 ? ConnDirDown : ConnDirUp;
    };
    auto mkRect = [&](double x0, double y0, double x1, double y1) {
        Point p = P(x0, y0), q = P(x1, y1);
        return Rectangle(Point(std::min(p.x, q.x), std::min(p.y, q.y)), Point(std::max(p.x, q.x), std::max(p.y, q.y)));
    };
    vh::beginCase(k, tie ? "endseg-tie" : "endseg-off");
    printf("cfg %s %s %d %d %s %u %s %d endseg %d %d\n", hx(d).c_str(), hx(room).c_str(), m, 1, hx(buf).c_str(), opts, hx(0.0).c_str(), (int) transpose, (int) tie, (int) pins);
    Router *router = nullptr;
    try {
        router = new c10s::SegRouter(OrthogonalRouting);
        router->setTransactionUse(true);
        router->setRoutingParameter(segmentPenalty, seg);
        router->setRoutingParameter(idealNudgingDistance, d);
        router->setRoutingParameter(shapeBufferDistance, buf);
        router->setRoutingOption(nudgeOrthogonalSegmentsConnectedToShapes, false);
        router->setRoutingOption(nudgeOrthogonalTouchingColinearSegments, (opts & 2) != 0);
        router->setRoutingOption(performUnifyingNudgingPreprocessingStep, (opts & 4) != 0);
        router->setRoutingOption(nudgeSharedPathsWithCommonEndPoint, (opts & 8) != 0);
        router->setRoutingOption(penaliseOrthogonalSharedPathsAtConnEnds, (opts & 16) != 0);
        Rectangle ob = mkRect(left, cy - h / 2, right, cy + h / 2);
        printf("obstacle %s %s %s %s\n", hx(ob.ps[3].x).c_str(), hx(ob.ps[3].y).c_str(), hx(ob.ps[1].x).c_str(), hx(ob.ps[1].y).c_str());
        new ShapeRef(router, ob, 1);
        {   // sentinels beyond all four extremes: libavoid widens the directions of connection points on
            // the first / last sweep position of the scene (see harness/c11.cpp)
            Rectangle s1(Point(-800, -800), Point(-790, -790)), s2(Point(790, 790), Point(800, 800));
            new ShapeRef(router, s1, 8); new ShapeRef(router, s2, 9);
        }
        std::vector<ConnRef *> conns;
        // connector A
        Point as = P(xa, ya), at = P(xt, yt);
        printf("conn 0 %s %s %s %s\n", hx(as.x).c_str(), hx(as.y).c_str(), hx(at.x).c_str(), hx(at.y).c_str());
        ConnRef *A;
        if (pins) {
            // source: pin in the middle of the side of a 40x40 shape that faces the obstacle; target: pin in
            // the middle of the side of a 40x40 shape that faces the line
            Rectangle rs = mkRect(xa - 40, ya - 20, xa, ya + 20), rt = mkRect(xt - 20, yt, xt + 20, yt + 40);
            ShapeRef *s = new ShapeRef(router, rs, 2), *t = new ShapeRef(router, rt, 3);
            Box bs = rs.offsetBoundingBox(0), bt = rt.offsetBoundingBox(0);
            new ShapeConnectionPin(s, 1, (as.x - bs.min.x) / bs.width(), (as.y - bs.min.y) / bs.height(), true, 0.0, D(1, 0));
            new ShapeConnectionPin(t, 1, (at.x - bt.min.x) / bt.width(), (at.y - bt.min.y) / bt.height(), true, 0.0, D(0, -1));
            A = new ConnRef(router, ConnEnd(s, 1), ConnEnd(t, 1), 100);
        } else {
            A = new ConnRef(router, ConnEnd(as, D(1, 0)), ConnEnd(at, D(0, -1)), 100);
        }
        A->setRoutingType(ConnType_Orthogonal);
        conns.push_back(A);
        // connectors B_i: both ends level with the lower half of the obstacle, left and right of it
        for (int i = 0; i < nb; ++i) {
            double yb = cy + 2 + (double) r.range(0, (long) (h / 2) - 4) - 0.5 * i;
            double xb = left - buf - 10 - 12.0 * i - (double) r.range(0, 8), xb2 = right + buf + 10 + 12.0 * i + (double) r.range(0, 8);
            Point bs = P(xb, yb), bt = P(xb2, yb);
            printf("conn %d %s %s %s %s\n", i + 1, hx(bs.x).c_str(), hx(bs.y).c_str(), hx(bt.x).c_str(), hx(bt.y).c_str());
            ConnRef *c = new ConnRef(router, ConnEnd(bs), ConnEnd(bt), (unsigned) (101 + i));
            c->setRoutingType(ConnType_Orthogonal);
            conns.push_back(c);
        }
        fflush(stdout);
        c10r::arm(); c10s::arm();
        router->processTransaction();
        c10r::dump(); c10s::dump();
        for (int i = 0; i < m; ++i) {
            pts("route", i, conns[i]->route(), transpose);
            pts("disp", i, conns[i]->displayRoute(), transpose);
        }
        printf("overlap %d\n", (int) router->existsOrthogonalSegmentOverlap());
        vh::endCase();
        delete router;
    } catch (vpsc::CriticalFailure &f) {
        c10r::dump(); c10s::dump();
        printf("assert %s\n", oneLine(f.what()).c_str());
        vh::endCase();
        if (a.only >= 0) _exit(0);
        reexecFrom(k + 1, argc, argv);
    }
    return true;
}

// Fourth family ("zcross-rtl" / "zcross-ltr"): a wide empty channel between two tall shapes; connector K runs
// straight down the centre line of the channel (one segment: first and last, hence fixed); n = 2..3 connectors
// cross the channel as Z-bends (end points 10 inside the shapes, leaving / arriving along the crossing axis)
// whose middle runs have pairwise DISJOINT spans along the channel, so zigzag centring puts every one of
// them exactly onto K. Each overlaps K but not the other Z-runs: in the sorted region K has several overlapping
// neighbours that do not overlap each other (crossing right-to-left sorts them all before K, left-to-right all
// after it). The channel is >= 200 wide, far more than (m+1)*d, so all Z-runs have to be moved off K.
static bool zCrossCase(const vh::Args &a, long k, int argc, char **argv) {
    vh::Rng r = vh::caseRng(a.seed, k, 3);
    static const double ds[] = {1, 4, 10};
    double d = ds[r.range(0, 2)];
    int n = (int) r.range(2, 3), m = n + 1;
    bool rtl = r.coin();
    bool transpose = r.coin();
    unsigned opts = r.coin() ? (4u | 8u) : (unsigned) (2 * r.range(0, 15));   // defaults, or any combination with final-nudge off
    double Wc = 2.0 * r.range(100, 200);                      // free channel width
    double x0 = 100, x1 = x0 + Wc, cx = x0 + Wc / 2;
    double L = x0 - 10, R = x1 + 10;
    // spans of the Z-runs: consecutive, separated by >= 20
    std::vector<double> ya, yb;
    double y = 80 + (double) r.range(0, 40);
    for (int i = 0; i < n; ++i) {
        double len = 10.0 * r.range(4, 15);
        bool up = r.coin();                                   // source higher or lower than target
        ya.push_back(up ? y + len : y); yb.push_back(up ? y : y + len);
        y += len + 10.0 * r.range(2, 6);
    }
    double H = y + 80;
    auto P = [&](double x, double yy) { return transpose ? Point(yy, x) : Point(x, yy); };
    auto D = [&](double dx) -> ConnDirFlags { return transpose ? (dx > 0 ? ConnDirDown : ConnDirUp) : (dx > 0 ? ConnDirRight : ConnDirLeft); };
    auto mkRect = [&](double xa, double y0, double xb, double y1) {
        Point p = P(xa, y0), q = P(xb, y1);
        return Rectangle(Point(std::min(p.x, q.x), std::min(p.y, q.y)), Point(std::max(p.x, q.x), std::max(p.y, q.y)));
    };
    vh::beginCase(k, rtl ? "zcross-rtl" : "zcross-ltr");
    printf("cfg %s %s %d %d %s %u %s %d zcross %d\n", hx(d).c_str(), hx(Wc).c_str(), m, 1, hx(0.0).c_str(), opts, hx(0.0).c_str(), (int) transpose, (int) rtl);
    Router *router = nullptr;
    try {
        router = new c10s::SegRouter(OrthogonalRouting);
        router->setTransactionUse(true);
        router->setRoutingParameter(idealNudgingDistance, d);
        router->setRoutingOption(nudgeOrthogonalSegmentsConnectedToShapes, false);
        router->setRoutingOption(nudgeOrthogonalTouchingColinearSegments, (opts & 2) != 0);
        router->setRoutingOption(performUnifyingNudgingPreprocessingStep, (opts & 4) != 0);
        router->setRoutingOption(nudgeSharedPathsWithCommonEndPoint, (opts & 8) != 0);
        router->setRoutingOption(penaliseOrthogonalSharedPathsAtConnEnds, (opts & 16) != 0);
        Rectangle rl = mkRect(0, 0, x0, H), rr = mkRect(x1, 0, x1 + 100, H);
        printf("obstacle %s %s %s %s\n", hx(rl.ps[3].x).c_str(), hx(rl.ps[3].y).c_str(), hx(rl.ps[1].x).c_str(), hx(rl.ps[1].y).c_str());
        printf("obstacle %s %s %s %s\n", hx(rr.ps[3].x).c_str(), hx(rr.ps[3].y).c_str(), hx(rr.ps[1].x).c_str(), hx(rr.ps[1].y).c_str());
        new ShapeRef(router, rl, 1);
        new ShapeRef(router, rr, 2);
        std::vector<ConnRef *> conns;
        {
            Point s = P(cx, 50), t = P(cx, H - 50);
            printf("conn 0 %s %s %s %s\n", hx(s.x).c_str(), hx(s.y).c_str(), hx(t.x).c_str(), hx(t.y).c_str());
            ConnRef *c = new ConnRef(router, ConnEnd(s), ConnEnd(t), 100);
            c->setRoutingType(ConnType_Orthogonal);
            conns.push_back(c);
        }
        for (int i = 0; i < n; ++i) {
            Point s = P(rtl ? R : L, ya[i]), t = P(rtl ? L : R, yb[i]);
            printf("conn %d %s %s %s %s\n", i + 1, hx(s.x).c_str(), hx(s.y).c_str(), hx(t.x).c_str(), hx(t.y).c_str());
            ConnRef *c = new ConnRef(router, ConnEnd(s, D(rtl ? -1 : 1)), ConnEnd(t, D(rtl ? 1 : -1)), (unsigned) (101 + i));
            c->setRoutingType(ConnType_Orthogonal);
            conns.push_back(c);
        }
        fflush(stdout);
        c10r::arm(); c10s::arm();
        router->processTransaction();
        c10r::dump(); c10s::dump();
        for (int i = 0; i < m; ++i) {
            pts("route", i, conns[i]->route(), transpose);
            pts("disp", i, conns[i]->displayRoute(), transpose);
        }
        printf("overlap %d\n", (int) router->existsOrthogonalSegmentOverlap());
        vh::endCase();
        delete router;
    } catch (vpsc::CriticalFailure &f) {
        c10r::dump(); c10s::dump();
        printf("assert %s\n", oneLine(f.what()).c_str());
        vh::endCase();
        if (a.only >= 0) _exit(0);
        reexecFrom(k + 1, argc, argv);
    }
    return true;
}

// Fifth family ("shape-ends"): routing option nudgeOrthogonalSegmentsConnectedToShapes ON and connectors whose ends lie INSIDE
// shapes: two facing shapes whose sides overlap over H = 16..60, m = 2..5 straight single-segment connectors between them lying
// 1..3 apart (so nudging has to spread them inside the window the two shapes leave, which is too small for (m-1)*d in part of
// the cases), optionally one connector from the left shape to a free point (an end segment that ends in a shape at one end only).
// Exercises: singleConnectedSegment / endsInShape, the strong / stronger weights, shouldAlignWith on final segments, merging of
// aligned end segments in linesort, retries with channel edges = shape sides. Route-level clauses that this option breaks by
// design are the known class opt-final-nudge; the family is there for the region tie.
static bool shapeEndsCase(const vh::Args &a, long k, int argc, char **argv) {
    vh::Rng r = vh::caseRng(a.seed, k, 4);
    static const double ds[] = {1, 4, 10};
    double d = ds[r.range(0, 2)];
    int m = (int) r.range(2, 5);
    bool transpose = r.coin();
    bool extra = r.coin(1, 3);
    unsigned opts = 1u | (unsigned) (2 * r.range(0, 15));
    bool jog = r.coin();
    double H = (double) r.range(16, 60) + (jog ? 24 : 0);
    double ya = 200 - (double) r.range(0, 20), yb = 200 - (double) r.range(0, 20);      // tops of the two shapes
    double top = std::max(ya, yb), y0 = top + 2, step = (double) r.range(1, 3);
    double gapx = 10.0 * r.range(4, 12);
    auto P = [&](double x, double y) { return transpose ? Point(y, x) : Point(x, y); };
    auto mkRect = [&](double xa, double y0_, double xb, double y1_) {
        Point p = P(xa, y0_), q = P(xb, y1_);
        return Rectangle(Point(std::min(p.x, q.x), std::min(p.y, q.y)), Point(std::max(p.x, q.x), std::max(p.y, q.y)));
    };
    vh::beginCase(k, "shape-ends");
    printf("cfg %s %s %d %d %s %u %s %d shapeends\n", hx(d).c_str(), hx(H).c_str(), m + (extra ? 1 : 0) + (jog ? 1 : 0), 0, hx(0.0).c_str(), opts, hx(0.0).c_str(), (int) transpose);
    Router *router = nullptr;
    try {
        router = new c10s::SegRouter(OrthogonalRouting);
        router->setTransactionUse(true);
        router->setRoutingParameter(idealNudgingDistance, d);
        router->setRoutingOption(nudgeOrthogonalSegmentsConnectedToShapes, true);
        router->setRoutingOption(nudgeOrthogonalTouchingColinearSegments, (opts & 2) != 0);
        router->setRoutingOption(performUnifyingNudgingPreprocessingStep, (opts & 4) != 0);
        router->setRoutingOption(nudgeSharedPathsWithCommonEndPoint, (opts & 8) != 0);
        router->setRoutingOption(penaliseOrthogonalSharedPathsAtConnEnds, (opts & 16) != 0);
        Rectangle ra = mkRect(100, ya, 160, ya + H + 20), rb = mkRect(160 + gapx, yb, 220 + gapx, yb + H + 20);
        printf("obstacle %s %s %s %s\n", hx(ra.ps[3].x).c_str(), hx(ra.ps[3].y).c_str(), hx(ra.ps[1].x).c_str(), hx(ra.ps[1].y).c_str());
        printf("obstacle %s %s %s %s\n", hx(rb.ps[3].x).c_str(), hx(rb.ps[3].y).c_str(), hx(rb.ps[1].x).c_str(), hx(rb.ps[1].y).c_str());
        new ShapeRef(router, ra, 1);
        new ShapeRef(router, rb, 2);
        std::vector<ConnRef *> conns;
        int n = 0;
        for (int i = 0; i < m; ++i) {
            double y = y0 + step * i;
            Point s = P(130, y), t = P(190 + gapx, y);
            printf("conn %d %s %s %s %s\n", n, hx(s.x).c_str(), hx(s.y).c_str(), hx(t.x).c_str(), hx(t.y).c_str());
            ConnRef *c = new ConnRef(router, ConnEnd(s), ConnEnd(t), (unsigned) (100 + n));
            c->setRoutingType(ConnType_Orthogonal);
            conns.push_back(c); ++n;
        }
        if (jog) {
            // a connector whose two end segments are parallel, touch end to end and lie < 10 apart (a Z with a short jog):
            // with nudgeOrthogonalTouchingColinearSegments they "overlap", shouldAlignWith holds and linesort merges them
            double y = y0 + step * m + 12, dy = (double) r.range(2, 8);
            Point s = P(130, y), t = P(190 + gapx, y + dy);
            printf("conn %d %s %s %s %s\n", n, hx(s.x).c_str(), hx(s.y).c_str(), hx(t.x).c_str(), hx(t.y).c_str());
            ConnRef *c = new ConnRef(router, ConnEnd(s), ConnEnd(t), (unsigned) (100 + n));
            c->setRoutingType(ConnType_Orthogonal);
            conns.push_back(c); ++n;
        }
        if (extra) {
            Point s = P(130, y0 + step * m), t = P(160 + gapx / 2, top - 40 - (double) r.range(0, 30));
            printf("conn %d %s %s %s %s\n", n, hx(s.x).c_str(), hx(s.y).c_str(), hx(t.x).c_str(), hx(t.y).c_str());
            ConnRef *c = new ConnRef(router, ConnEnd(s), ConnEnd(t), (unsigned) (100 + n));
            c->setRoutingType(ConnType_Orthogonal);
            conns.push_back(c); ++n;
        }
        fflush(stdout);
        c10r::arm(); c10s::arm();
        router->processTransaction();
        c10r::dump(); c10s::dump();
        for (int i = 0; i < n; ++i) {
            pts("route", i, conns[i]->route(), transpose);
            pts("disp", i, conns[i]->displayRoute(), transpose);
        }
        printf("overlap %d\n", (int) router->existsOrthogonalSegmentOverlap());
        vh::endCase();
        delete router;
    } catch (vpsc::CriticalFailure &f) {
        c10r::dump(); c10s::dump();
        printf("assert %s\n", oneLine(f.what()).c_str());
        vh::endCase();
        if (a.only >= 0) _exit(0);
        reexecFrom(k + 1, argc, argv);
    }
    return true;
}

// Sixth family ("fan"): a corridor between two blocks as in the first family, but m = 2..4 connectors leave ONE common source
// point (their shared path up to and through the corridor has a common end point) to pairwise distinct targets, plus optionally an
// unrelated connector through the same corridor. With nudgeSharedPathsWithCommonEndPoint off the code ties the shared segments
// together with equality constraints (m_shared_path_connectors_with_common_endpoints), with it on it separates them. The property
// makes no promise for connectors with a common end point; the family is there for the region tie (common-end rule, equalities).
static bool fanCase(const vh::Args &a, long k, int argc, char **argv) {
    vh::Rng r = vh::caseRng(a.seed, k, 5);
    static const double ds[] = {1, 4, 10};
    double d = ds[r.range(0, 2)];
    int m = (int) r.range(2, 4);
    bool other = r.coin();
    bool transpose = r.coin();
    unsigned opts = (unsigned) (2 * r.range(0, 15));           // final-nudge off, bit 3 = nudgeSharedPathsWithCommonEndPoint
    double W = (m + 2) * d + (double) r.range(0, 20);
    double L = 300, R = 300 + 10.0 * r.range(10, 30), T1 = 400, Hh = 300;
    bool above = r.coin();
    auto P = [&](double x, double y) { return transpose ? Point(y, x) : Point(x, y); };
    vh::beginCase(k, "fan");
    printf("cfg %s %s %d %d %s %u %s %d fan\n", hx(d).c_str(), hx(W).c_str(), m + (other ? 1 : 0), 0, hx(0.0).c_str(), opts, hx(0.0).c_str(), (int) transpose);
    Router *router = nullptr;
    try {
        router = new c10s::SegRouter(OrthogonalRouting);
        router->setTransactionUse(true);
        router->setRoutingParameter(idealNudgingDistance, d);
        router->setRoutingOption(nudgeOrthogonalSegmentsConnectedToShapes, false);
        router->setRoutingOption(nudgeOrthogonalTouchingColinearSegments, (opts & 2) != 0);
        router->setRoutingOption(performUnifyingNudgingPreprocessingStep, (opts & 4) != 0);
        router->setRoutingOption(nudgeSharedPathsWithCommonEndPoint, (opts & 8) != 0);
        router->setRoutingOption(penaliseOrthogonalSharedPathsAtConnEnds, (opts & 16) != 0);
        Point b1a = P(L, T1 - Hh), b1b = P(R, T1), b2a = P(L, T1 + W), b2b = P(R, T1 + W + Hh);
        Rectangle r1(b1a, b1b), r2(b2a, b2b);
        printf("obstacle %s %s %s %s\n", hx(std::min(b1a.x, b1b.x)).c_str(), hx(std::min(b1a.y, b1b.y)).c_str(), hx(std::max(b1a.x, b1b.x)).c_str(), hx(std::max(b1a.y, b1b.y)).c_str());
        printf("obstacle %s %s %s %s\n", hx(std::min(b2a.x, b2b.x)).c_str(), hx(std::min(b2a.y, b2b.y)).c_str(), hx(std::max(b2a.x, b2b.x)).c_str(), hx(std::max(b2a.y, b2b.y)).c_str());
        new ShapeRef(router, r1, 1);
        new ShapeRef(router, r2, 2);
        std::vector<ConnRef *> conns;
        double ys = above ? T1 - 20 - (double) r.range(0, 40) : T1 + W + 20 + (double) r.range(0, 40);
        Point src = P(L - 60, ys);
        int n = 0;
        for (int i = 0; i < m; ++i) {
            double yt = (i % 2 == 0) ? T1 - 15 - 13.0 * i - (double) r.range(0, 5) : T1 + W + 15 + 13.0 * i + (double) r.range(0, 5);
            Point t = P(R + 60 + 14.0 * i, yt);
            printf("conn %d %s %s %s %s\n", n, hx(src.x).c_str(), hx(src.y).c_str(), hx(t.x).c_str(), hx(t.y).c_str());
            ConnRef *c = new ConnRef(router, ConnEnd(src), ConnEnd(t), (unsigned) (100 + n));
            c->setRoutingType(ConnType_Orthogonal);
            conns.push_back(c); ++n;
        }
        if (other) {
            Point s = P(L - 90, above ? T1 + W + 33 : T1 - 33), t = P(R + 130, above ? T1 - 71 : T1 + W + 71);
            printf("conn %d %s %s %s %s\n", n, hx(s.x).c_str(), hx(s.y).c_str(), hx(t.x).c_str(), hx(t.y).c_str());
            ConnRef *c = new ConnRef(router, ConnEnd(s), ConnEnd(t), (unsigned) (100 + n));
            c->setRoutingType(ConnType_Orthogonal);
            conns.push_back(c); ++n;
        }
        fflush(stdout);
        c10r::arm(); c10s::arm();
        router->processTransaction();
        c10r::dump(); c10s::dump();
        for (int i = 0; i < n; ++i) {
            pts("route", i, conns[i]->route(), transpose);
            pts("disp", i, conns[i]->displayRoute(), transpose);
        }
        printf("overlap %d\n", (int) router->existsOrthogonalSegmentOverlap());
        vh::endCase();
        delete router;
    } catch (vpsc::CriticalFailure &f) {
        c10r::dump(); c10s::dump();
        printf("assert %s\n", oneLine(f.what()).c_str());
        vh::endCase();
        if (a.only >= 0) _exit(0);
        reexecFrom(k + 1, argc, argv);
    }
    return true;
}

// Seventh family ("twin-narrow-first" / "twin-wide-first"): TWO independent corridors in one dimension, 1000 apart: a wide one
// (120 free, nw = 2..4 connectors crossing it, all centred onto its middle line, so they have to be separated by the full
// nudging distance) and a narrow one (width d/20 .. 2.5 d, nn = 2..4 connectors: its region needs reduced distances or is given
// up after ten attempts). The regions of a pass are processed in the order of the router's connector list (descending id), so
// the group that gets the HIGHER connector indices is processed first: both orders are generated. What happens in the narrow
// region must not influence the wide one (every region starts again at idealNudgingDistance:
// Props/C10Region.first_attempt_uses_base_distance). The wide-enough promise (cfg) is for the connectors of the wide corridor
// only: `twin lo hi` = their index range.
static bool twinCase(const vh::Args &a, long k, int argc, char **argv) {
    vh::Rng r = vh::caseRng(a.seed, k, 6);
    static const double ds[] = {1, 4, 10};
    double d = ds[r.range(0, 2)];
    int nw = (int) r.range(2, 4), nn = (int) r.range(2, 4), m = nw + nn;
    bool narrowFirst = r.coin();                              // narrow group gets the higher ids = is processed first
    bool transpose = r.coin();
    bool defaults = r.coin();
    unsigned opts = defaults ? (4u | 8u) : (unsigned) (2 * r.range(0, 15));
    static const double fr[] = {0.05, 0.125, 0.5, 1.0, 1.5, 2.5};
    double gapN = d * fr[r.range(0, 5)];
    double seg = r.coin() ? 50.0 : 10.0;
    double Ww = 120;
    auto P = [&](double x, double y) { return transpose ? Point(y, x) : Point(x, y); };
    auto mkRect = [&](double xa, double y0_, double xb, double y1_) {
        Point p = P(xa, y0_), q = P(xb, y1_);
        return Rectangle(Point(std::min(p.x, q.x), std::min(p.y, q.y)), Point(std::max(p.x, q.x), std::max(p.y, q.y)));
    };
    int wlo = narrowFirst ? 0 : nn, whi = wlo + nw;            // index range of the wide corridor's connectors
    vh::beginCase(k, narrowFirst ? "twin-narrow-first" : "twin-wide-first");
    printf("cfg %s %s %d %d %s %u %s %d twin %d %d %s\n", hx(d).c_str(), hx(Ww).c_str(), m, 1, hx(0.0).c_str(), opts, hx(0.0).c_str(),
           (int) transpose, wlo, whi, hx(gapN).c_str());
    Router *router = nullptr;
    try {
        router = new c10s::SegRouter(OrthogonalRouting);
        router->setTransactionUse(true);
        router->setRoutingParameter(segmentPenalty, seg);
        router->setRoutingParameter(idealNudgingDistance, d);
        router->setRoutingOption(nudgeOrthogonalSegmentsConnectedToShapes, false);
        router->setRoutingOption(nudgeOrthogonalTouchingColinearSegments, (opts & 2) != 0);
        router->setRoutingOption(performUnifyingNudgingPreprocessingStep, (opts & 4) != 0);
        router->setRoutingOption(nudgeSharedPathsWithCommonEndPoint, (opts & 8) != 0);
        router->setRoutingOption(penaliseOrthogonalSharedPathsAtConnEnds, (opts & 16) != 0);
        Rectangle w1 = mkRect(200, -100, 300, 250 - Ww / 2), w2 = mkRect(200, 250 + Ww / 2, 300, 600);
        Rectangle n1 = mkRect(1200, -100, 1300, 250 - gapN / 2), n2 = mkRect(1200, 250 + gapN / 2, 1300, 600);
        Rectangle *rs[4] = {&w1, &w2, &n1, &n2};
        for (int i = 0; i < 4; ++i) {
            printf("obstacle %s %s %s %s\n", hx(rs[i]->ps[3].x).c_str(), hx(rs[i]->ps[3].y).c_str(), hx(rs[i]->ps[1].x).c_str(), hx(rs[i]->ps[1].y).c_str());
            new ShapeRef(router, *rs[i], (unsigned) (1 + i));
        }
        std::vector<ConnRef *> conns(m, nullptr);
        std::vector<Point> S(m), T(m);
        for (int g = 0; g < 2; ++g) {                          // g = 0 wide, 1 narrow
            int cnt = g ? nn : nw, base = g ? (narrowFirst ? nw : 0) : wlo;
            double x0 = g ? 1000.0 : 0.0;
            for (int j = 0; j < cnt; ++j) {
                bool up = (j % 2 == 0);                        // source above, target below (or the other way round)
                double ys = up ? 100 - 9.0 * j : 400 + 9.0 * j, yt = up ? 400 + 9.0 * j + 4 : 100 - 9.0 * j - 4;
                S[base + j] = P(x0 + 100 - 25.0 * j, ys);
                T[base + j] = P(x0 + 400 + 25.0 * j, yt);
            }
        }
        for (int i = 0; i < m; ++i) {
            printf("conn %d %s %s %s %s\n", i, hx(S[i].x).c_str(), hx(S[i].y).c_str(), hx(T[i].x).c_str(), hx(T[i].y).c_str());
            conns[i] = new ConnRef(router, ConnEnd(S[i]), ConnEnd(T[i]), (unsigned) (100 + i));
            conns[i]->setRoutingType(ConnType_Orthogonal);
        }
        fflush(stdout);
        c10r::arm(); c10s::arm();
        router->processTransaction();
        c10r::dump(); c10s::dump();
        for (int i = 0; i < m; ++i) {
            pts("route", i, conns[i]->route(), transpose);
            pts("disp", i, conns[i]->displayRoute(), transpose);
        }
        printf("overlap %d\n", (int) router->existsOrthogonalSegmentOverlap());
        vh::endCase();
        delete router;
    } catch (vpsc::CriticalFailure &f) {
        c10r::dump(); c10s::dump();
        printf("assert %s\n", oneLine(f.what()).c_str());
        vh::endCase();
        if (a.only >= 0) _exit(0);
        reexecFrom(k + 1, argc, argv);
    }
    return true;
}

// Eighth family ("segs-mix" / "segs-target-side" / "segs-source-side" / "segs-cp"): scenes for the SEGMENT tie
// (buildOrthogonalNudgingSegments + buildOrthogonalChannelInfo against Model/NudgeSegs.lean, see harness/c10_segs.h).
// 2..4 small shapes on a coarse grid (never overlapping), shapeBufferDistance 0/2/4, optionally a junction (fixed or free),
// optionally a centre pin on every shape; m = 2..6 connectors whose ends are: a point inside a shape (centre, or close to a
// side), a point ON the border of a shape, the centre pin, the junction, or a free point.  nudgeOrthogonalSegmentsConnectedToShapes
// on in half of the cases.  `target-side`: m = 3..6 connectors from scattered free points INTO one side of one small shape, their
// TARGET ends inside the shape 2..4 apart (seed C14-5's situation); `source-side`: the same scene with source and target swapped.
// `cp`: connectors with one or two checkpoints, placed on the line through the source (strictly inside the first segment), on
// the line through the target (inside the last segment), or anywhere (bends, middle segments); both directions of travel and
// both orientations (transposition).  The route-level clauses of the driver run on these scenes as on all others.
static bool segsCase(const vh::Args &a, long k, int argc, char **argv) {
    vh::Rng r = vh::caseRng(a.seed, k, 8);
    static const double ds[] = {1, 4, 10};
    double d = ds[r.range(0, 2)];
    int sub = (int) r.range(0, 3);
    bool transpose = r.coin();
    bool nudgeFinal = (sub == 1 || sub == 2) ? r.coin(3, 4) : r.coin();
    unsigned opts = (nudgeFinal ? 1u : 0u) | (unsigned) (2 * r.range(0, 15));
    static const double bufs[] = {0, 0, 2, 4};
    double buf = bufs[r.range(0, 3)];
    double fsp = r.coin(1, 10) ? 110.0 : 0.0;
    auto P = [&](double x, double y) { return transpose ? Point(y, x) : Point(x, y); };
    auto mkRect = [&](double xa, double ya, double xb, double yb) {
        Point p = P(xa, ya), q = P(xb, yb);
        return Rectangle(Point(std::min(p.x, q.x), std::min(p.y, q.y)), Point(std::max(p.x, q.x), std::max(p.y, q.y)));
    };
    struct Sh { double x0, y0, x1, y1; };
    std::vector<Sh> shapes;
    std::vector<std::pair<Pt2, Pt2> > ends;                   // untransposed source / target
    std::vector<int> srcKind, dstKind, srcObj, dstObj;        // 0 point, 1 pin of shape obj, 2 junction
    std::vector<std::vector<Pt2> > cps;
    bool withPins = false, withJunction = false, junctionFixed = false;
    Pt2 jpos = {0, 0};
    const char *tag = "segs-mix";
    if (sub == 1 || sub == 2) {
        tag = (sub == 1) ? "segs-target-side" : "segs-source-side";
        double w = (double) r.range(20, 40), h = (double) r.range(20, 40);
        Sh s0 = {400, 300, 400 + w, 300 + h};
        shapes.push_back(s0);
        if (r.coin()) { Sh s1 = {250, 300 - (double) r.range(0, 60), 300, 360 + (double) r.range(0, 60)}; shapes.push_back(s1); }
        int m = (int) r.range(3, 6);
        double step = (double) r.range(2, 4);
        int where = (int) r.range(0, 2);                      // 0 centre line, 1 close to the entered side, 2 on the border
        std::set<long> used;
        for (int j = 0; j < m; ++j) {
            long sy;
            do { sy = r.range(180, 480); } while (used.count(sy));
            used.insert(sy);
            Pt2 s = {(double) (100 - 12 * j) + (double) r.range(0, 5), (double) sy};
            double ty = 300 + h / 2 + step * (j - m / 2.0);
            if (ty < 300) ty = 300;
            if (ty > 300 + h) ty = 300 + h;
            Pt2 t = {where == 0 ? 400 + w / 2 : where == 1 ? 400 + (double) r.range(1, 4) : 400, ty};
            if (sub == 1) ends.push_back(std::make_pair(s, t)); else ends.push_back(std::make_pair(t, s));
            srcKind.push_back(0); dstKind.push_back(0); srcObj.push_back(0); dstObj.push_back(0);
            cps.push_back(std::vector<Pt2>());
        }
    } else {
        if (sub == 3) tag = "segs-cp";
        int ns = (int) r.range(2, 4);
        std::vector<int> cells;
        for (int c = 0; c < 9; ++c) cells.push_back(c);
        r.shuffle(cells);
        for (int i = 0; i < ns; ++i) {
            int cx = cells[i] % 3, cy = cells[i] / 3;
            double w = (double) r.range(10, 30) * 2, h = (double) r.range(10, 30) * 2;
            double x0 = 100 + 150 * cx + (double) r.range(0, 40), y0 = 100 + 150 * cy + (double) r.range(0, 40);
            Sh s = {x0, y0, x0 + w, y0 + h};
            shapes.push_back(s);
        }
        if (sub == 0 && r.coin(1, 4)) {
            // a shape nested in shape 0 along x with the same y-range (overlapping obstacles: the sweep orders scan-line
            // nodes by their MID coordinate, Props/C10Segs.sweep_orders_by_mid_witness)
            Sh s = shapes[0];
            s.x0 += (double) r.range(2, 6); s.x1 -= (double) r.range(3, 8);
            if (s.x1 - s.x0 >= 4) shapes.push_back(s);
        }
        withPins = r.coin(1, 3);
        withJunction = r.coin(1, 3);
        if (withJunction) {
            int cx = cells[ns] % 3, cy = cells[ns] / 3;
            jpos.x = 100 + 150 * cx + (double) r.range(10, 70); jpos.y = 100 + 150 * cy + (double) r.range(10, 70);
            junctionFixed = r.coin();
        }
        int m = (int) r.range(2, 6);
        auto mkEnd = [&](int &kind, int &obj) -> Pt2 {
            int what = (int) r.range(0, 9);
            kind = 0; obj = 0;
            int si = (int) r.range(0, ns - 1);
            const Sh &s = shapes[si];
            double cx = (s.x0 + s.x1) / 2, cy = (s.y0 + s.y1) / 2;
            Pt2 p;
            if (what <= 1) { p.x = cx; p.y = cy; }                                                  // centre of a shape
            else if (what <= 3) {                                                                   // inside, close to a side
                int side = (int) r.range(0, 3);
                double off = (double) r.range(1, 4);
                p.x = side == 0 ? s.x0 + off : side == 1 ? s.x1 - off : s.x0 + (double) r.range(1, (long) (s.x1 - s.x0) - 1);
                p.y = side == 2 ? s.y0 + off : side == 3 ? s.y1 - off : s.y0 + (double) r.range(1, (long) (s.y1 - s.y0) - 1);
            } else if (what == 4) {                                                                 // on the border
                int side = (int) r.range(0, 3);
                p.x = side == 0 ? s.x0 : side == 1 ? s.x1 : s.x0 + (double) r.range(0, (long) (s.x1 - s.x0));
                p.y = side == 2 ? s.y0 : side == 3 ? s.y1 : s.y0 + (double) r.range(0, (long) (s.y1 - s.y0));
            } else if (what == 5 && withPins) { kind = 1; obj = si; p.x = cx; p.y = cy; }
            else if (what == 6 && withJunction) { kind = 2; p = jpos; }
            else {                                                                                  // a free point in the gaps of the grid
                int gx = (int) r.range(0, 3), gy = (int) r.range(0, 3);
                p.x = 80 + 150 * gx + (double) r.range(0, 15); p.y = 80 + 150 * gy + (double) r.range(0, 15);
            }
            return p;
        };
        for (int j = 0; j < m; ++j) {
            int ks, os, kt, ot;
            Pt2 s = mkEnd(ks, os), t = mkEnd(kt, ot);
            if (s.x == t.x && s.y == t.y) { t.x += 37; t.y += 23; kt = 0; }
            ends.push_back(std::make_pair(s, t));
            srcKind.push_back(ks); dstKind.push_back(kt); srcObj.push_back(os); dstObj.push_back(ot);
            std::vector<Pt2> cp;
            if (sub == 3 && (j == 0 || r.coin())) {
                int n = (int) r.range(1, 2);
                for (int c = 0; c < n; ++c) {
                    int how = (int) r.range(0, 3);
                    Pt2 q;
                    double fx = 80 + 150 * (double) r.range(0, 3) + (double) r.range(0, 15), fy = 80 + 150 * (double) r.range(0, 3) + (double) r.range(0, 15);
                    if (how == 0) { q.x = s.x; q.y = fy; }          // on the line through the source
                    else if (how == 1) { q.x = fx; q.y = t.y; }     // on the line through the target
                    else if (how == 2) { q.x = fx; q.y = s.y; }
                    else { q.x = fx; q.y = fy; }
                    if ((q.x == s.x && q.y == s.y) || (q.x == t.x && q.y == t.y)) { q.x += 21; q.y += 13; }
                    cp.push_back(q);
                }
            }
            cps.push_back(cp);
        }
        if (sub == 0 && r.coin(1, 3)) {
            // a straight connector from inside shape 0 to a free point on the same line (display route of two points with ONE
            // end in a shape: final segment, endsInShape, not singleConnectedSegment)
            const Sh &s0 = shapes[0];
            Pt2 s = {(s0.x0 + s0.x1) / 2, s0.y0 + (double) r.range(1, (long) (s0.y1 - s0.y0) - 1)};
            Pt2 t = {r.coin() ? s0.x0 - (double) r.range(20, 60) : s0.x1 + (double) r.range(20, 60), s.y};
            if (r.coin()) std::swap(s, t);
            ends.push_back(std::make_pair(s, t));
            srcKind.push_back(0); dstKind.push_back(0); srcObj.push_back(0); dstObj.push_back(0);
            cps.push_back(std::vector<Pt2>());
        }
    }
    int m = (int) ends.size();
    vh::beginCase(k, tag);
    printf("cfg %s %s %d %d %s %u %s %d segs\n", hx(d).c_str(), hx(0.0).c_str(), m, 0, hx(buf).c_str(), opts, hx(fsp).c_str(), (int) transpose);
    Router *router = nullptr;
    try {
        router = new c10s::SegRouter(OrthogonalRouting);
        router->setTransactionUse(true);
        router->setRoutingParameter(idealNudgingDistance, d);
        router->setRoutingParameter(shapeBufferDistance, buf);
        if (fsp > 0) router->setRoutingParameter(fixedSharedPathPenalty, fsp);
        router->setRoutingOption(nudgeOrthogonalSegmentsConnectedToShapes, (opts & 1) != 0);
        router->setRoutingOption(nudgeOrthogonalTouchingColinearSegments, (opts & 2) != 0);
        router->setRoutingOption(performUnifyingNudgingPreprocessingStep, (opts & 4) != 0);
        router->setRoutingOption(nudgeSharedPathsWithCommonEndPoint, (opts & 8) != 0);
        router->setRoutingOption(penaliseOrthogonalSharedPathsAtConnEnds, (opts & 16) != 0);
        router->setRoutingOption(improveHyperedgeRoutesMovingJunctions, false);
        std::vector<ShapeRef *> srefs;
        for (size_t i = 0; i < shapes.size(); ++i) {
            Rectangle rc = mkRect(shapes[i].x0, shapes[i].y0, shapes[i].x1, shapes[i].y1);
            printf("obstacle %s %s %s %s\n", hx(rc.ps[3].x).c_str(), hx(rc.ps[3].y).c_str(), hx(rc.ps[1].x).c_str(), hx(rc.ps[1].y).c_str());
            ShapeRef *sr = new ShapeRef(router, rc, (unsigned) (1 + i));
            srefs.push_back(sr);
            if (withPins) new ShapeConnectionPin(sr, 1, ATTACH_POS_CENTRE, ATTACH_POS_CENTRE, true, 0.0, ConnDirNone);
        }
        JunctionRef *jref = nullptr;
        if (withJunction) {
            Point jp = P(jpos.x, jpos.y);
            printf("junction %s %s %d\n", hx(jp.x).c_str(), hx(jp.y).c_str(), (int) junctionFixed);
            jref = new JunctionRef(router, jp, 50);
            jref->setPositionFixed(junctionFixed);
        }
        std::vector<ConnRef *> conns;
        for (int i = 0; i < m; ++i) {
            Point s = P(ends[i].first.x, ends[i].first.y), t = P(ends[i].second.x, ends[i].second.y);
            printf("conn %d %s %s %s %s\n", i, hx(s.x).c_str(), hx(s.y).c_str(), hx(t.x).c_str(), hx(t.y).c_str());
            ConnEnd se = srcKind[i] == 1 ? ConnEnd(srefs[srcObj[i]], 1) : srcKind[i] == 2 ? ConnEnd(jref) : ConnEnd(s);
            ConnEnd te = dstKind[i] == 1 ? ConnEnd(srefs[dstObj[i]], 1) : dstKind[i] == 2 ? ConnEnd(jref) : ConnEnd(t);
            ConnRef *c = new ConnRef(router, se, te, (unsigned) (100 + i));
            c->setRoutingType(ConnType_Orthogonal);
            if (!cps[i].empty()) {
                std::vector<Checkpoint> v;
                printf("cps %d %zu", i, cps[i].size());
                for (size_t q = 0; q < cps[i].size(); ++q) {
                    Point cp = P(cps[i][q].x, cps[i][q].y);
                    printf(" %s %s", hx(cp.x).c_str(), hx(cp.y).c_str());
                    v.push_back(Checkpoint(cp));
                }
                printf("\n");
                c->setRoutingCheckpoints(v);
            }
            conns.push_back(c);
        }
        fflush(stdout);
        c10r::arm(); c10s::arm();
        router->processTransaction();
        c10r::dump(); c10s::dump();
        for (int i = 0; i < m; ++i) {
            pts("route", i, conns[i]->route(), transpose);
            pts("disp", i, conns[i]->displayRoute(), transpose);
        }
        printf("overlap %d\n", (int) router->existsOrthogonalSegmentOverlap());
        vh::endCase();
        delete router;
    } catch (vpsc::CriticalFailure &f) {
        c10r::dump(); c10s::dump();
        printf("assert %s\n", oneLine(f.what()).c_str());
        vh::endCase();
        return false;                                         // the library state is broken: the supervisor starts a fresh child
    }
    (void) argc; (void) argv;
    return true;
}

// The eighth family runs in a forked child (one fork for the whole range, one more after every abnormal end): free-space scenes
// reach, about once in 5000 cases, the debug-only block of nudgeOrthogonalRoutes that reads vs[it->second] one past the end of vs
// (known finding C10-nudging-assert-3041: the range (i, i+1) started by an unsatisfied channel-left variable that is the LAST
// variable).  Usually that trips the library assertion (exception, reported as `assert`); when the slot holds allocator fill the
// sanitizer aborts the process.  The parent then closes the open case with an `assert sanitizer:...` line taken from the child's
// stderr and continues behind it.
static void segsSupervised(const vh::Args &a, long from, long to, int argc, char **argv) {
    long *sh = (long *) mmap(nullptr, 2 * sizeof(long), PROT_READ | PROT_WRITE, MAP_SHARED | MAP_ANONYMOUS, -1, 0);
    if (sh == MAP_FAILED) _exit(4);
    char errPath[64];
    snprintf(errPath, sizeof errPath, "/tmp/c10segs.%d.err", (int) getpid());
    long k = from;
    while (k < to) {
        fflush(stdout);
        sh[0] = -1; sh[1] = 0;                                // current case, case already closed
        pid_t child = fork();
        if (child == 0) {
            if (FILE *ef = fopen(errPath, "w")) dup2(fileno(ef), 2);
            for (long kk = k; kk < to; ++kk) {
                if (!a.want(kk)) continue;
                sh[0] = kk; sh[1] = 0;
                bool ok = segsCase(a, kk, argc, argv);
                fflush(stdout);
                if (!ok) { sh[1] = 1; _exit(77); }
            }
            _exit(0);
        }
        int status = 0;
        waitpid(child, &status, 0);
        if (WIFEXITED(status) && WEXITSTATUS(status) == 0) break;
        if (sh[0] < 0) _exit(5);
        if (!sh[1]) {
            std::string why = "child_status_" + std::to_string(status);
            if (FILE *f = fopen(errPath, "r")) {
                char line[1024];
                while (fgets(line, sizeof line, f)) {
                    std::string l(line);
                    if (l.find("runtime error") != std::string::npos || l.find("ERROR: AddressSanitizer") != std::string::npos) { why = l; break; }
                }
                fclose(f);
            }
            printf("assert sanitizer:%s\n", oneLine(why).c_str());
            vh::endCase();
        }
        k = sh[0] + 1;
    }
    unlink(errPath);
}

int main(int argc, char **argv) {
    vh::Args a = vh::parseArgs(argc, argv);
    bool thorough = (a.tier == "thorough");
    long ncases = (thorough ? 40000 : 5000) * a.scale;
    if (a.n >= 0) ncases = a.n;
    long from = 0;
    for (int i = 1; i + 1 < argc; ++i) if (std::string(argv[i]) == "--from") from = atol(argv[i + 1]);
    long nmid = (thorough ? 8000 : 1500) * a.scale;        // second family, indices ncases .. ncases+nmid-1
    long ntie = (thorough ? 8000 : 1500) * a.scale;        // third family, after the second
    long nzc = (thorough ? 4000 : 800) * a.scale;          // fourth family, after the third
    long nse = (thorough ? 3000 : 500) * a.scale;          // fifth family, after the fourth
    long nfan = (thorough ? 2500 : 400) * a.scale;         // sixth family, after the fifth
    long ntw = (thorough ? 3000 : 500) * a.scale;          // seventh family, after the sixth
    long nsg = (thorough ? 8000 : 2000) * a.scale;        // eighth family, after the seventh
    for (long k = from; k < ncases + nmid + ntie + nzc + nse + nfan + ntw + nsg; ++k) {
        if (!a.want(k)) continue;
        if (k >= ncases + nmid + ntie + nzc + nse + nfan + ntw) {
            segsSupervised(a, k, ncases + nmid + ntie + nzc + nse + nfan + ntw + nsg, argc, argv);
            break;
        }
        if (k >= ncases + nmid + ntie + nzc + nse + nfan) {
            if (!twinCase(a, k, argc, argv)) return 0;
            continue;
        }
        if (k >= ncases + nmid + ntie + nzc + nse) {
            if (!fanCase(a, k, argc, argv)) return 0;
            continue;
        }
        if (k >= ncases + nmid + ntie + nzc) {
            if (!shapeEndsCase(a, k, argc, argv)) return 0;
            continue;
        }
        if (k >= ncases + nmid + ntie) {
            if (!zCrossCase(a, k, argc, argv)) return 0;
            continue;
        }
        if (k >= ncases + nmid) {
            if (!endSegTieCase(a, k, argc, argv)) return 0;
            continue;
        }
        if (k >= ncases) {
            if (!cpMidCase(a, k, argc, argv)) return 0;
            continue;
        }
        vh::Rng r = vh::caseRng(a.seed, k);
        // ---- parameters
        static const double ds[] = {1, 4, 10};
        double d = ds[r.range(0, 2)];
        int m = (int) r.range(2, 6);
        unsigned opts = (unsigned) (k % 32);                // all 2^5 option combinations in turn
        bool wide = r.coin(3, 4);
        double need = (m + 1) * d;
        double W = wide ? need + (double) r.range(0, (long) (3 * d)) : (double) r.range(1, (long) need - 1);
        if (!wide && W < 1) W = 1;
        double buf = r.coin(1, 3) ? 2.0 : 0.0;
        bool transpose = r.coin();
        double fsp = r.coin(1, 6) ? 110.0 : 0.0;            // fixedSharedPathPenalty
        bool withCp = r.coin(1, 4);
        // ---- geometry (described for the horizontal corridor; transposed on output/input)
        // blocks span x in [L,R]; the corridor is y in (T1+buf, T1+buf+W)
        double L = 300, R = 300 + (double) r.range(10, 30) * 10, T1 = 400, H = 300;
        double gap = W + 2 * buf;
        double c0 = T1 + buf, c1 = T1 + buf + W;            // free corridor interval
        double side = (m + 3) * d + 30;                     // room beside the blocks for the approach channels
        auto P = [&](double x, double y) { return transpose ? Point(y, x) : Point(x, y); };
        // end points: pairwise distinct abscissae and pairwise distinct ordinates (so no two first /
        // last legs can be collinear). In a wide-enough case no end point ordinate lies in the
        // closed corridor range, so every segment inside the corridor is an inner (movable) one.
        std::set<long> used;
        std::vector<Pt2> S, T;
        for (int i = 0; i < m; ++i) {
            for (int e = 0; e < 2; ++e) {
                long y;
                do {
                    int zone = (int) r.range(0, wide ? 1 : 3);   // 0 above, 1 below, 2 inside / near, 3 anywhere
                    long lo = (long) (T1 - 80), hi = (long) (T1 + gap + 80);
                    if (zone == 0) hi = (long) T1 - 3; else if (zone == 1) lo = (long) (T1 + gap) + 3;
                    else if (zone == 2) { lo = (long) T1 - 10; hi = (long) (T1 + gap) + 10; }
                    y = r.range(lo, hi);
                } while (used.count(y));
                used.insert(y);
                Pt2 p; p.y = (double) y; p.x = e ? R + side + 14 * i : L - side - 14 * i;
                (e ? T : S).push_back(p);
            }
        }
        const char *tag = (opts & 1) ? "final-nudge" : fsp > 0 ? "shared-penalty" : wide ? "wide" : "narrow";
        vh::beginCase(k, tag);
        printf("cfg %s %s %d %d %s %u %s %d\n", hx(d).c_str(), hx(W).c_str(), m, (int) wide, hx(buf).c_str(), opts, hx(fsp).c_str(), (int) transpose);
        Router *router = nullptr;
        try {
            router = new c10s::SegRouter(OrthogonalRouting);
            router->setTransactionUse(true);
            router->setRoutingParameter(idealNudgingDistance, d);
            router->setRoutingParameter(shapeBufferDistance, buf);
            if (fsp > 0) router->setRoutingParameter(fixedSharedPathPenalty, fsp);
            router->setRoutingOption(nudgeOrthogonalSegmentsConnectedToShapes, (opts & 1) != 0);
            router->setRoutingOption(nudgeOrthogonalTouchingColinearSegments, (opts & 2) != 0);
            router->setRoutingOption(performUnifyingNudgingPreprocessingStep, (opts & 4) != 0);
            router->setRoutingOption(nudgeSharedPathsWithCommonEndPoint, (opts & 8) != 0);
            router->setRoutingOption(penaliseOrthogonalSharedPathsAtConnEnds, (opts & 16) != 0);
            // blocks
            Point b1a = P(L, T1 - H), b1b = P(R, T1), b2a = P(L, T1 + gap), b2b = P(R, T1 + gap + H);
            Rectangle r1(b1a, b1b), r2(b2a, b2b);
            printf("block 0 %s %s %s %s\n", hx(std::min(b1a.x, b1b.x)).c_str(), hx(std::min(b1a.y, b1b.y)).c_str(), hx(std::max(b1a.x, b1b.x)).c_str(), hx(std::max(b1a.y, b1b.y)).c_str());
            printf("block 1 %s %s %s %s\n", hx(std::min(b2a.x, b2b.x)).c_str(), hx(std::min(b2a.y, b2b.y)).c_str(), hx(std::max(b2a.x, b2b.x)).c_str(), hx(std::max(b2a.y, b2b.y)).c_str());
            new ShapeRef(router, r1, 1);
            new ShapeRef(router, r2, 2);
            std::vector<ConnRef *> conns;
            int cpConn = withCp ? (int) r.range(0, m - 1) : -1;
            for (int i = 0; i < m; ++i) {
                Point s = P(S[i].x, S[i].y), t = P(T[i].x, T[i].y);
                printf("conn %d %s %s %s %s\n", i, hx(s.x).c_str(), hx(s.y).c_str(), hx(t.x).c_str(), hx(t.y).c_str());
                ConnRef *c = new ConnRef(router, ConnEnd(s), ConnEnd(t), (unsigned) (100 + i));
                c->setRoutingType(ConnType_Orthogonal);
                if (i == cpConn) {
                    // a checkpoint inside the corridor, on its centre line (W even) or on an integer line
                    double cy = c0 + std::floor(W / 2), cx = L + std::floor((R - L) / 20) * 10;
                    Point cp = P(cx, cy);
                    printf("cps %d 1 %s %s\n", i, hx(cp.x).c_str(), hx(cp.y).c_str());
                    std::vector<Checkpoint> v; v.push_back(Checkpoint(cp));
                    c->setRoutingCheckpoints(v);
                }
                conns.push_back(c);
            }
            (void) c1;
            fflush(stdout);
            c10r::arm(); c10s::arm();
            router->processTransaction();
            c10r::dump(); c10s::dump();
            for (int i = 0; i < m; ++i) {
                pts("route", i, conns[i]->route(), transpose);
                pts("disp", i, conns[i]->displayRoute(), transpose);
            }
            printf("overlap %d\n", (int) router->existsOrthogonalSegmentOverlap());
            vh::endCase();
            delete router;
        } catch (vpsc::CriticalFailure &f) {
            // libraries are built with -DUSE_ASSERT_EXCEPTIONS: a failed COLA_ASSERT costs one case
            // (reported in the stream); continue in a fresh process image, see harness/c11.cpp
            c10r::dump(); c10s::dump();
        printf("assert %s\n", oneLine(f.what()).c_str());
            vh::endCase();
            if (a.only >= 0) _exit(0);
            std::vector<char *> nargv;
            for (int i = 0; i < argc; ++i) {
                if (std::string(argv[i]) == "--from") { ++i; continue; }
                nargv.push_back(argv[i]);
            }
            std::string fromS = std::to_string(k + 1);
            nargv.push_back((char *) "--from"); nargv.push_back((char *) fromS.c_str()); nargv.push_back(nullptr);
            execv("/proc/self/exe", nargv.data());
            _exit(3);
        }
    }
    return 0;
}
