// C15 harness: generated LEGAL API histories executed under ASan+UBSan+LSan with assertions on.
//
// Stream classes (case tags):
//   router-hist     libavoid Router lifecycles (5..40 ops), strictly legal in the sense of
//                   Model/Lifecycle.lean `Legal`; after every op the router's public live sets
//                   (m_obstacles split into shapes/junctions, connRefs, endpoint anchors) are printed
//                   and compared with the Lean model by driver_c15
//   vpsc-hist / cola-hist / topology-hist / dialect-hist     (harness/c15_libs.h)
//   kf-*            one deterministic case per known-finding class (selected with --mode kf-<name>,
//                   run as separate harness invocations because they abort the process)
// After every case `__lsan_do_recoverable_leak_check()` attributes leaks to the case just finished:
// a leak prints `LEAK <tag>` and aborts with the case still open (=> CRASH verdict on that case).
#include "common.h"
#include "libavoid/libavoid.h"
#include <sanitizer/lsan_interface.h>
#include <map>
#include <set>
#include <unistd.h>
#if __has_include("c15_libs.h") && !defined(C15_NO_LIBS)
#include "c15_libs.h"
#define HAVE_C15_LIBS 1
#endif

using namespace Avoid;

namespace {

struct PinM { long id; ShapeConnectionPin *ptr; unsigned cls; long key; };   // key: (class, offsets, directions) — unique per shape
struct ObstM {
    long id; bool junction; Obstacle *ptr;
    bool pendingAdd, pendingRemove;
    std::vector<PinM> pins;          // junction: the implicit pin (ptr unknown = nullptr)
};
struct ConnM { long id; ConnRef *ptr; bool routerMade; long srcA, dstA; long srcO, dstO; };   // srcA/dstA: junction last requested for that end (-1 = none); srcO/dstO: obstacle of any kind

struct World {
    Router *r = nullptr;
    bool consolidate = true;
    bool dirty = false;                    // some mutator ran since the last processTransaction
    bool orth = false;
    bool majorHyper = false;
    long nextId = 1;
    std::vector<ObstM> obst;
    std::vector<ConnM> conns;
    std::set<long> mentioned;              // obstacles named by a ConnEnd since the last processing
    std::vector<size_t> hyperIdx;          // registered hyperedges (indices) awaiting the transaction
    std::map<long, long> comp;             // union-find over junctions ever joined by a connector (never split)
    int nops = 0;
};

static void flushLine() { fflush(stdout); }
static long compOf(World &w, long j) { std::map<long, long>::iterator it = w.comp.find(j); if (it == w.comp.end() || it->second == j) return j; long r = compOf(w, it->second); w.comp[j] = r; return r; }
static void joinComp(World &w, long a, long b) { w.comp[compOf(w, a)] = compOf(w, b); }

static ObstM *findObst(World &w, long id) { for (auto &o : w.obst) if (o.id == id) return &o; return nullptr; }

// print the router's observable live sets
static void observe(World &w) {
    std::vector<unsigned> s, j, c;
    for (ObstacleList::const_iterator it = w.r->m_obstacles.begin(); it != w.r->m_obstacles.end(); ++it) {
        if (dynamic_cast<ShapeRef *>(*it)) s.push_back((*it)->id()); else j.push_back((*it)->id());
    }
    for (ConnRefList::const_iterator it = w.r->connRefs.begin(); it != w.r->connRefs.end(); ++it) c.push_back((*it)->id());
    std::sort(s.begin(), s.end()); std::sort(j.begin(), j.end()); std::sort(c.begin(), c.end());
    printf("os"); for (unsigned x : s) printf(" %u", x); printf("\n");
    printf("oj"); for (unsigned x : j) printf(" %u", x); printf("\n");
    printf("oc"); for (unsigned x : c) printf(" %u", x); printf("\n");
    // endpoint anchors of every connector in connRefs (ConnRef::endpointConnEnds is public)
    std::vector<std::pair<unsigned, std::pair<long, long> > > es;
    for (ConnRefList::const_iterator it = w.r->connRefs.begin(); it != w.r->connRefs.end(); ++it) {
        ConnRef *cr = *it;
        if (!cr->src() || !cr->dst()) { es.push_back(std::make_pair(cr->id(), std::make_pair(-2L, -2L))); continue; }
        std::pair<ConnEnd, ConnEnd> e = cr->endpointConnEnds();
        long a = -1, b = -1;
        if (e.first.shape()) a = e.first.shape()->id(); else if (e.first.junction()) a = e.first.junction()->id();
        if (e.second.shape()) b = e.second.shape()->id(); else if (e.second.junction()) b = e.second.junction()->id();
        es.push_back(std::make_pair(cr->id(), std::make_pair(a, b)));
    }
    std::sort(es.begin(), es.end());
    for (auto &e : es) printf("oe %u %ld %ld\n", e.first, e.second.first, e.second.second);
    // per obstacle: number of attached connectors (Obstacle::attachedConnectors is public)
    for (ObstacleList::const_iterator it = w.r->m_obstacles.begin(); it != w.r->m_obstacles.end(); ++it)
        printf("oa %u %zu\n", (*it)->id(), (*it)->attachedConnectors().size());
    // per connector created by the harness: read-back of its checkpoint list (ConnRef::routingCheckpoints is public)
    for (auto &cm : w.conns) if (!cm.routerMade) printf("ock %ld %zu\n", cm.id, cm.ptr->routingCheckpoints().size());
    flushLine();
}

static Rectangle rectAt(vh::Rng &g) {
    double x = 20.0 * g.range(0, 20), y = 20.0 * g.range(0, 20);
    double wd = 10.0 * g.range(2, 5), ht = 10.0 * g.range(2, 5);
    return Rectangle(Point(x, y), Point(x + wd, y + ht));
}
static Point ptAt(vh::Rng &g) { return Point(5.0 * g.range(-10, 100), 5.0 * g.range(-10, 100)); }
// free connector end points: never axis-aligned with a junction centre or a pin (those sit on multiples of 2.5):
// an orthogonal connector from a junction to an aligned free point trips makepath.cpp:938 (kf-orth-junction-aligned-point)
static Point freePtAt(vh::Rng &g) { return Point(5.0 * g.range(-10, 100) + 1.0, 5.0 * g.range(-10, 100) + 1.0); }

struct EndChoice { bool attached; long obj; unsigned cls; Point p; };

static ConnEnd mkEnd(World &w, const EndChoice &e) {
    if (!e.attached) return ConnEnd(e.p);
    ObstM *o = findObst(w, e.obj);
    if (o->junction) return ConnEnd(static_cast<JunctionRef *>(o->ptr));
    return ConnEnd(static_cast<ShapeRef *>(o->ptr), e.cls);
}
static void printEnd(const EndChoice &e) {
    if (!e.attached) printf(" P %g %g", e.p.x, e.p.y); else printf(" A %ld %u", e.obj, e.cls);
}
// candidates a ConnEnd may name: allocated, no queued remove; shapes need a pin
static bool pickEnd(World &w, vh::Rng &g, EndChoice &out, bool allowJunction, long avoidJunction = -1, long avoidObst = -1) {
    out.attached = false; out.obj = 0; out.cls = 0; out.p = freePtAt(g);
    if (g.coin(2, 5)) return true;
    std::vector<std::pair<long, unsigned> > cand;
    for (auto &o : w.obst) {
        // both ends of a connector on one obstacle may pick the same pin: zero-length orthogonal route, makepath.cpp:938
        if (o.pendingRemove || o.id == avoidObst) continue;
        // in transactions-off mode an obstacle whose addition is still queued does not occur
        // both ends of one connector on the same junction leak a HyperedgeTreeNode (kf-conn-loop-on-junction)
        // and a cycle of junctions and connectors is skipped by the hyperedge improver without freeing its tree (kf-cyclic-hyperedge)
        if (o.junction) { if (allowJunction && (avoidJunction < 0 || compOf(w, o.id) != compOf(w, avoidJunction))) cand.push_back(std::make_pair(o.id, 0u)); }
        else for (auto &p : o.pins) cand.push_back(std::make_pair(o.id, p.cls));
    }
    if (cand.empty()) return true;
    std::pair<long, unsigned> c = g.pick(cand);
    out.attached = true; out.obj = c.first; out.cls = c.second;
    return true;
}

static void doProcessed(World &w) { w.dirty = false; w.mentioned.clear(); for (auto &o : w.obst) o.pendingAdd = false; }
static void dropRemoved(World &w);
// transactions off: the mutator ends with processTransaction(), which also handles anything queued earlier
static void afterMutator(World &w) { if (w.consolidate) w.dirty = true; else { dropRemoved(w); doProcessed(w); } }

// after a processed transaction: drop obstacles whose removal was queued
static void dropRemoved(World &w) {
    std::vector<ObstM> keep;
    for (auto &o : w.obst) if (!o.pendingRemove) keep.push_back(o);
    w.obst.swap(keep);
}

static void reportHyper(World &w, const HyperedgeNewAndDeletedObjectLists &l) {
    for (ConnRefList::const_iterator it = l.deletedConnectorList.begin(); it != l.deletedConnectorList.end(); ++it) {
        for (size_t i = 0; i < w.conns.size(); ++i) if (w.conns[i].ptr == *it) {
            printf("hyper dc %ld\n", w.conns[i].id); w.conns.erase(w.conns.begin() + i); break; }
    }
    for (JunctionRefList::const_iterator it = l.deletedJunctionList.begin(); it != l.deletedJunctionList.end(); ++it) {
        for (size_t i = 0; i < w.obst.size(); ++i) if (w.obst[i].ptr == *it) {
            printf("hyper dj %ld\n", w.obst[i].id); w.obst.erase(w.obst.begin() + i); break; }
    }
    for (JunctionRefList::const_iterator it = l.newJunctionList.begin(); it != l.newJunctionList.end(); ++it) {
        long id = (*it)->id(); long pid = 100000 + w.nextId++;
        ObstM o; o.id = id; o.junction = true; o.ptr = *it; o.pendingAdd = false; o.pendingRemove = false;
        PinM p; p.id = pid; p.ptr = nullptr; p.cls = 0; p.key = -1; o.pins.push_back(p);
        w.obst.push_back(o);
        printf("hyper nj %ld %ld\n", id, pid);
    }
    for (ConnRefList::const_iterator it = l.newConnectorList.begin(); it != l.newConnectorList.end(); ++it) {
        ConnM c; c.id = (*it)->id(); c.ptr = *it; c.routerMade = true; c.srcA = c.dstA = -1; c.srcO = c.dstO = -1; w.conns.push_back(c);
        printf("hyper nc %ld\n", c.id);
    }
}

static void opProcess(World &w) {
    printf("op processTransaction\n"); flushLine();
    bool did = w.r->processTransaction();
    dropRemoved(w);
    if (did) {
        for (size_t i = 0; i < w.hyperIdx.size(); ++i)
            reportHyper(w, w.r->hyperedgeRerouter()->newAndDeletedObjectLists(w.hyperIdx[i]));
        if (w.majorHyper) reportHyper(w, w.r->newAndDeletedObjectListsFromHyperedgeImprovement());
    }
    w.hyperIdx.clear();
    doProcessed(w);
}

static long freshId(World &w) {
    // ids handed to the constructors explicitly; skip ids the router took for its own objects
    while (!w.r->objectIdIsUnused((unsigned) w.nextId)) w.nextId++;
    return w.nextId++;
}

static void opNewShape(World &w, vh::Rng &g) {
    long id = freshId(w);
    Rectangle rc = rectAt(g);
    printf("op newShape %ld @ %g %g %g %g\n", id, rc.at(0).x, rc.at(0).y, rc.at(2).x, rc.at(2).y); flushLine();
    ShapeRef *s = new ShapeRef(w.r, rc, (unsigned) id);
    ObstM o; o.id = id; o.junction = false; o.ptr = s; o.pendingAdd = w.consolidate; o.pendingRemove = false;
    w.obst.push_back(o);
    afterMutator(w);
}
static void opNewJunction(World &w, vh::Rng &g) {
    long id = freshId(w); long pid = 100000 + w.nextId++;
    Point p = ptAt(g);
    printf("op newJunction %ld %ld @ %g %g\n", id, pid, p.x, p.y); flushLine();
    JunctionRef *j = new JunctionRef(w.r, p, (unsigned) id);
    ObstM o; o.id = id; o.junction = true; o.ptr = j; o.pendingAdd = w.consolidate; o.pendingRemove = false;
    PinM pm; pm.id = pid; pm.ptr = nullptr; pm.cls = 0; pm.key = -1; o.pins.push_back(pm);
    w.obst.push_back(o);
    afterMutator(w);
}
static void opNewPin(World &w, vh::Rng &g, ObstM &o) {
    long pid = 100000 + w.nextId++;
    unsigned cls = (unsigned) g.range(1, 2);
    static const double offs[] = {ATTACH_POS_LEFT, 0.25, ATTACH_POS_CENTRE, 0.75, ATTACH_POS_RIGHT};
    // Obstacle::m_connection_pins is a std::set ordered by pin *value* (class, directions, offsets): a second pin equal
    // to an existing one is silently not inserted, hence never freed (kf-duplicate-pin); keep them distinct
    long xi, yi, key; ConnDirFlags dirs;
    for (;;) {
        xi = g.range(0, 4); yi = g.range(0, 4); dirs = g.coin() ? ConnDirAll : ConnDirNone;
        key = ((long) cls * 10 + xi) * 10 + yi; key = key * 2 + (dirs == ConnDirAll ? 1 : 0);
        bool used = false; for (auto &q : o.pins) if (q.key == key) used = true;
        if (!used) break;
    }
    double xo = offs[xi], yo = offs[yi];
    printf("op newPin %ld %ld %u @ %g %g %u\n", pid, o.id, cls, xo, yo, (unsigned) dirs); flushLine();
    ShapeConnectionPin *p = new ShapeConnectionPin(static_cast<ShapeRef *>(o.ptr), cls, xo, yo, true, 0.0, dirs);
    if (g.coin()) p->setExclusive(false);
    PinM pm; pm.id = pid; pm.ptr = p; pm.cls = cls; pm.key = key; o.pins.push_back(pm);
    afterMutator(w);
}
static void opNewConn(World &w, vh::Rng &g) {
    long id = freshId(w);
    EndChoice a, b;
    // transactions off: `setEndpoints` routes after the source alone has been set; a junction source
    // with an empty route leaks a HyperedgeTreeNode (known-finding class kf-junction-halfconn-leak)
    pickEnd(w, g, a, w.consolidate); pickEnd(w, g, b, true, (a.attached && findObst(w, a.obj)->junction) ? a.obj : -1, a.attached ? a.obj : -1);
    bool ctor3 = g.coin();      // (with transactions off the 3-argument form asserted before /repo 3650d5c)
    printf("op newConn %ld %d", id, ctor3 ? 1 : 0); printEnd(a); printEnd(b); printf("\n"); flushLine();
    ConnRef *c;
    if (ctor3) c = new ConnRef(w.r, mkEnd(w, a), mkEnd(w, b), (unsigned) id);
    else { c = new ConnRef(w.r, (unsigned) id); c->setEndpoints(mkEnd(w, a), mkEnd(w, b)); }
    if (w.orth && g.coin(1, 3) == false) c->setRoutingType(ConnType_Orthogonal);
    ConnM cm; cm.id = id; cm.ptr = c; cm.routerMade = false;
    cm.srcA = (a.attached && findObst(w, a.obj)->junction) ? a.obj : -1; cm.dstA = (b.attached && findObst(w, b.obj)->junction) ? b.obj : -1;
    if (cm.srcA >= 0 && cm.dstA >= 0) joinComp(w, cm.srcA, cm.dstA);
    cm.srcO = a.attached ? a.obj : -1; cm.dstO = b.attached ? b.obj : -1;
    w.conns.push_back(cm);
    if (a.attached) w.mentioned.insert(a.obj);
    if (b.attached) w.mentioned.insert(b.obj);
    afterMutator(w);
}
static void opSetEndpoint(World &w, vh::Rng &g, ConnM &c) {
    bool isDst = g.coin();
    EndChoice e; pickEnd(w, g, e, true, isDst ? c.srcA : c.dstA, isDst ? c.srcO : c.dstO);
    (isDst ? c.dstO : c.srcO) = e.attached ? e.obj : -1;
    (isDst ? c.dstA : c.srcA) = (e.attached && findObst(w, e.obj)->junction) ? e.obj : -1;
    if (c.srcA >= 0 && c.dstA >= 0) joinComp(w, c.srcA, c.dstA);
    printf("op setEndpoint %ld %d", c.id, isDst ? 1 : 0); printEnd(e); printf("\n"); flushLine();
    if (isDst) c.ptr->setDestEndpoint(mkEnd(w, e)); else c.ptr->setSourceEndpoint(mkEnd(w, e));
    if (e.attached) w.mentioned.insert(e.obj);
    afterMutator(w);
}
// ConnRef::setRoutingCheckpoints: frees the connector's old checkpoint vertices and creates k new ones; callable
// repeatedly; queues nothing.  The vertex ids (third id space, 200000+) only exist in the model.
static void opSetCheckpoints(World &w, vh::Rng &g, ConnM &c, int k) {
    std::vector<Checkpoint> cps;
    printf("op setRoutingCheckpoints %ld %d", c.id, k);
    for (int i = 0; i < k; ++i) printf(" %ld", 200000 + w.nextId++);
    printf(" @");
    for (int i = 0; i < k; ++i) {
        // off the 5-unit grid of shapes/junctions and off the +1 grid of free ends
        Point p(5.0 * g.range(-10, 100) + 2.0, 5.0 * g.range(-10, 100) + 2.0);
        printf(" %g %g", p.x, p.y);
        cps.push_back(Checkpoint(p));
    }
    printf("\n"); flushLine();
    c.ptr->setRoutingCheckpoints(cps);
}
static void opDeleteConn(World &w, size_t i) {
    printf("op deleteConn %ld\n", w.conns[i].id); flushLine();
    w.r->deleteConnector(w.conns[i].ptr);
    w.conns.erase(w.conns.begin() + i);
}
static void opDeleteObst(World &w, ObstM &o) {
    printf("op %s %ld\n", o.junction ? "deleteJunction" : "deleteShape", o.id); flushLine();
    if (o.junction) w.r->deleteJunction(static_cast<JunctionRef *>(o.ptr));
    else w.r->deleteShape(static_cast<ShapeRef *>(o.ptr));
    o.pendingRemove = true;
    if (!w.consolidate) dropRemoved(w);
    afterMutator(w);
}
static void opMoveObst(World &w, vh::Rng &g, ObstM &o) {
    double dx = 5.0 * g.range(-6, 6), dy = 5.0 * g.range(-6, 6);
    printf("op %s %ld @ %g %g\n", o.junction ? "moveJunction" : "moveShape", o.id, dx, dy); flushLine();
    bool hadAdd = o.pendingAdd;
    if (o.junction) w.r->moveJunction(static_cast<JunctionRef *>(o.ptr), dx, dy);
    else if (g.coin()) w.r->moveShape(static_cast<ShapeRef *>(o.ptr), dx, dy);
    else { Polygon np = static_cast<ShapeRef *>(o.ptr)->polygon(); np.translate(dx, dy); w.r->moveShape(static_cast<ShapeRef *>(o.ptr), np); }
    if (!hadAdd) afterMutator(w);
}
static void opDeletePin(World &w, ObstM &o, size_t pi) {
    printf("op deletePin %ld\n", o.pins[pi].id); flushLine();
    delete o.pins[pi].ptr;
    o.pins.erase(o.pins.begin() + pi);
    afterMutator(w);
}
static void opSetTransactionUse(World &w, bool b) {
    printf("op setTransactionUse %d\n", b ? 1 : 0); flushLine();
    w.r->setTransactionUse(b);
    w.consolidate = b;
}
static void opDeleteRouter(World &w) {
    printf("op deleteRouter\n"); flushLine();
    delete w.r; w.r = nullptr;
}

static bool allActive(World &w) {
    for (auto &o : w.obst) if (o.pendingAdd) return false;
    // connectors become active when their first endpoint update is processed
    return !w.dirty || true;
}

// one strictly legal random history
static void routerHist(vh::Rng &g, bool big, bool allowMajor = false, bool allowHyper = false) {
    World w;
    w.orth = g.coin();
    unsigned flags = w.orth ? (g.coin(1, 4) ? (PolyLineRouting | OrthogonalRouting) : OrthogonalRouting) : PolyLineRouting;
    bool startOff = g.coin(1, 3);
    // improveHyperedgeRoutesMovingAddingAndDeletingJunctions is not exercised by the main class (allowMajor = false)
    bool wantMajor = w.orth && !startOff && g.coin(1, 4);
    w.majorHyper = allowMajor && wantMajor;
    printf("router %u\n", flags);
    w.r = new Router(flags);
    if (w.majorHyper) {
        printf("note majorHyperedgeImprovement\n");
        w.r->setRoutingOption(improveHyperedgeRoutesMovingAddingAndDeletingJunctions, true);
    }
    if (g.coin(1, 3)) w.r->setRoutingParameter(shapeBufferDistance, 4.0);
    if (g.coin(1, 3)) w.r->setRoutingPenalty(crossingPenalty);
    if (startOff) opSetTransactionUse(w, false);
    int target = (int) g.range(5, big ? 60 : 40);
    observe(w);
    // number of connectors whose first endpoint change is still queued (inactive)
    for (int step = 0; step < target; ++step) {
        // weights of the currently legal operations
        std::vector<int> kinds;
        auto add = [&](int k, int wgt) { for (int i = 0; i < wgt; ++i) kinds.push_back(k); };
        size_t nShapes = 0, nJ = 0;
        for (auto &o : w.obst) if (!o.pendingRemove) { if (o.junction) nJ++; else nShapes++; }
        if (w.obst.size() < 7) { add(0, nShapes < 2 ? 6 : 2); add(1, nJ < 1 ? 3 : 1); }
        if (nShapes > 0) add(2, 3);
        if (w.conns.size() < 7) add(3, 4);
        if (!w.conns.empty()) { add(4, 2); add(5, 1); add(13, 3); }
        if (!w.obst.empty()) { add(6, 2); add(7, 3); add(8, 1); }
        if (w.consolidate) add(9, 4);
        if (w.consolidate && !w.obst.empty()) add(12, 2);
        if (!w.majorHyper) add(10, 1);
        // HyperedgeRerouter::registerHyperedgeForRerouting trips internal assertions on generated star hyperedges
        // (kf-hyperedge-leaf-junction, kf-hyperedge-mtst-assert); the main class keeps the weight (same random
        // sequence) but only performs the registration when allowHyper is set
        if (w.consolidate && w.orth && nJ > 0) add(11, 1);
        int k = g.pick(kinds);
        bool done = false;
        switch (k) {
        case 0: opNewShape(w, g); done = true; break;
        case 1: opNewJunction(w, g); done = true; break;
        case 2: {
            // (with transactions off a new pin on a shape with attached connectors crashed before /repo f871b2f)
            std::vector<ObstM *> c; for (auto &o : w.obst) if (!o.junction && !o.pendingRemove && o.pins.size() < 4) c.push_back(&o);
            if (!c.empty()) { opNewPin(w, g, *g.pick(c)); done = true; }
            break; }
        case 3: opNewConn(w, g); done = true; break;
        case 4: {
            std::vector<ConnM *> c; for (auto &x : w.conns) if (!x.routerMade) c.push_back(&x);
            if (!c.empty()) { opSetEndpoint(w, g, *g.pick(c)); done = true; }
            break; }
        case 5: opDeleteConn(w, (size_t) g.range(0, (long) w.conns.size() - 1)); done = true; break;
        case 6: {   // delete obstacle (strictly legal: no queued add, not named by a queued ConnEnd)
            std::vector<ObstM *> c;
            for (auto &o : w.obst) {
                if (o.pendingRemove || o.pendingAdd || w.mentioned.count(o.id)) continue;
                c.push_back(&o);
            }
            if (!c.empty()) { opDeleteObst(w, *g.pick(c)); done = true; }
            break; }
        case 7: {   // move obstacle
            std::vector<ObstM *> c;
            for (auto &o : w.obst) {
                if (o.pendingRemove) continue;
                c.push_back(&o);
            }
            if (!c.empty()) { opMoveObst(w, g, *g.pick(c)); done = true; }
            break; }
        case 8: {   // delete a pin of a shape directly (tests/connectionpin02.cpp does)
            std::vector<std::pair<ObstM *, size_t> > c;
            for (auto &o : w.obst) if (!o.junction && !o.pendingRemove) for (size_t i = 0; i < o.pins.size(); ++i) c.push_back(std::make_pair(&o, i));
            if (!c.empty()) { std::pair<ObstM *, size_t> p = g.pick(c); opDeletePin(w, *p.first, p.second); done = true; }
            break; }
        case 9: opProcess(w); done = true; break;
        case 13: {  // (re)set routing checkpoints; half of the time twice in a row on the same connector (replace, then
                    // replace/remove again) so that the vertices of the first call have to be released by the second
            std::vector<ConnM *> c; for (auto &x : w.conns) if (!x.routerMade) c.push_back(&x);
            if (c.empty()) break;
            ConnM *cm = g.pick(c);
            opSetCheckpoints(w, g, *cm, (int) g.range(0, 3));
            if (g.coin()) { w.nops++; observe(w); opSetCheckpoints(w, g, *cm, g.coin() ? 0 : (int) g.range(1, 3)); }
            done = true;
            break; }
        case 12: {  // move an obstacle and delete it in the same pending transaction (deleteShape/deleteJunction must drop the queued move)
            std::vector<ObstM *> c;
            for (auto &o : w.obst) if (!o.pendingRemove && !o.pendingAdd && !w.mentioned.count(o.id)) c.push_back(&o);
            if (!c.empty()) { ObstM *o = g.pick(c); opMoveObst(w, g, *o); w.nops++; observe(w); opDeleteObst(w, *o); done = true; }
            break; }
        case 10: {
            if (w.consolidate) { if (w.hyperIdx.empty()) { opSetTransactionUse(w, false); done = true; } }   // queued work is processed by the next mutator
            else { opSetTransactionUse(w, true); done = true; }
            break; }
        case 11: {  // register a hyperedge for rerouting through one of its junctions
            if (!allowHyper || w.dirty || !w.hyperIdx.empty()) break;
            std::vector<ObstM *> c;
            // only star-shaped hyperedges (one junction, >= 3 connectors whose other ends are not junctions): a junction of
            // degree 1 inside a registered hyperedge trips hyperedge.cpp:333 COLA_ASSERT(treeRoot) (kf-hyperedge-leaf-junction)
            for (auto &o : w.obst) if (o.junction && !o.pendingRemove && !o.pendingAdd) {
                ConnRefList at = o.ptr->attachedConnectors();
                bool star = at.size() >= 3;
                for (ConnRefList::iterator it = at.begin(); it != at.end() && star; ++it) {
                    std::pair<ConnEnd, ConnEnd> e = (*it)->endpointConnEnds();
                    int nj = (e.first.junction() ? 1 : 0) + (e.second.junction() ? 1 : 0);
                    if (nj != 1) star = false;
                }
                if (star) c.push_back(&o);
            }
            if (c.empty()) break;
            ObstM *o = g.pick(c);
            printf("op registerHyperedge %ld\n", o->id); flushLine();
            w.hyperIdx.push_back(w.r->hyperedgeRerouter()->registerHyperedgeForRerouting(static_cast<JunctionRef *>(o->ptr)));
            opProcess(w);
            done = true;
            break; }
        }
        if (done) { w.nops++; observe(w); }
    }
    // tear-down: ~Router frees what is in its lists; a queued (never processed) addition would leak
    // (known-finding class kf-destroy-queued-add), so finish such transactions first; other queued
    // work (moves, removals, endpoint changes of active connectors) stays queued in half of the cases
    bool needProcess = false;
    for (auto &o : w.obst) if (o.pendingAdd) needProcess = true;
    for (ConnM &c : w.conns) {
        bool active = false;
        for (ConnRefList::const_iterator it = w.r->connRefs.begin(); it != w.r->connRefs.end(); ++it) if (*it == c.ptr) active = true;
        if (!active) needProcess = true;
    }
    if (!w.consolidate && g.coin()) opSetTransactionUse(w, true);
    if (needProcess || (w.consolidate && g.coin())) { opProcess(w); observe(w); }
    printf("queued %d\n", w.dirty ? 1 : 0);
    opDeleteRouter(w);
    (void) allActive;
}

// ---------------------------------------------------------------- known-finding classes
static Rectangle R10(double x, double y) { return Rectangle(Point(x, y), Point(x + 10, y + 10)); }

static void kfCase(const std::string &name) {
    Router *r = new Router(PolyLineRouting);
    printf("router %u\n", (unsigned) PolyLineRouting);
    if (name == "kf-destroy-queued-add") {
        // K1: ~Router frees only the members of m_obstacles/connRefs; a shape whose ShapeAdd is still queued is neither
        Rectangle p = R10(0, 0);
        printf("op newShape 1\n"); flushLine();
        new ShapeRef(r, p, 1);
        printf("op deleteRouter\n"); flushLine();
        delete r;
    } else if (name == "kf-delete-queued-add") {
        // K2: COLA_ASSERT(no ShapeAdd queued) in Router::deleteShape (router.cpp:286)
        Rectangle p = R10(0, 0);
        printf("op newShape 1\n"); flushLine();
        ShapeRef *s = new ShapeRef(r, p, 1);
        printf("op deleteShape 1\n"); flushLine();
        r->deleteShape(s);
        printf("op processTransaction\n"); flushLine();
        r->processTransaction();
        printf("op deleteRouter\n"); flushLine();
        delete r;
    } else if (name == "kf-notrans-delete-junction") {
        // K3: processTransaction re-entered from ~ShapeConnectionPin via Router::modifyConnectionPin
        printf("op setTransactionUse 0\n"); flushLine();
        r->setTransactionUse(false);
        printf("op newJunction 1 2\n"); flushLine();
        JunctionRef *j = new JunctionRef(r, Point(10, 10), 1);
        printf("op deleteJunction 1\n"); flushLine();
        r->deleteJunction(j);
        printf("op deleteRouter\n"); flushLine();
        delete r;
    } else if (name == "kf-notrans-move-attached") {
        // K3: processTransaction re-entered from moveAttachedConns via Router::modifyConnector (unbounded recursion)
        printf("op setTransactionUse 0\n"); flushLine();
        r->setTransactionUse(false);
        Rectangle p = R10(0, 0);
        printf("op newShape 1\n"); flushLine();
        ShapeRef *s = new ShapeRef(r, p, 1);
        printf("op newPin 2 1 1\n"); flushLine();
        new ShapeConnectionPin(s, 1, 0.5, 0.5, true, 0, ConnDirAll);
        printf("op newConn 3 0 A 1 1 P 50 50\n"); flushLine();
        ConnRef *c = new ConnRef(r, 3); c->setEndpoints(ConnEnd(s, 1), ConnEnd(Point(50, 50)));
        printf("op moveShape 1\n"); flushLine();
        r->moveShape(s, 5, 5);
        printf("op deleteRouter\n"); flushLine();
        delete r;
    } else if (name == "kf-endpoint-to-deleted") {
        // K4: queued ConnEnd names a shape that is freed earlier in the same processActions
        Rectangle p = R10(0, 0);
        printf("op newShape 1\n"); flushLine();
        ShapeRef *s = new ShapeRef(r, p, 1);
        printf("op newPin 2 1 1\n"); flushLine();
        new ShapeConnectionPin(s, 1, 0.5, 0.5, true, 0, ConnDirAll);
        printf("op newConn 3 1 P -20 -20 P 50 50\n"); flushLine();
        ConnRef *c = new ConnRef(r, ConnEnd(Point(-20, -20)), ConnEnd(Point(50, 50)), 3);
        printf("op processTransaction\n"); flushLine();
        r->processTransaction();
        printf("op setEndpoint 3 0 A 1 1\n"); flushLine();
        c->setSourceEndpoint(ConnEnd(s, 1));
        printf("op deleteShape 1\n"); flushLine();
        r->deleteShape(s);
        printf("op processTransaction\n"); flushLine();
        r->processTransaction();
        printf("op deleteRouter\n"); flushLine();
        delete r;
    } else if (name == "kf-notrans-conn-ctor") {
        // K5: ConnRef(router, src, dst) calls setEndpoints (=> processTransaction) before m_reroute_flag_ptr is assigned
        printf("op setTransactionUse 0\n"); flushLine();
        r->setTransactionUse(false);
        printf("op newConn 1 1 P 0 0 P 50 50\n"); flushLine();
        new ConnRef(r, ConnEnd(Point(0, 0)), ConnEnd(Point(50, 50)), 1);
        printf("op deleteRouter\n"); flushLine();
        delete r;
    } else if (name == "kf-junction-halfconn-leak") {
        // K6: HyperedgeImprover::execute allocates a HyperedgeTreeNode for the non-junction end of a connector
        // attached to a junction and never links/frees it when the connector has no route yet
        printf("op setTransactionUse 0\n"); flushLine();
        r->setTransactionUse(false);
        printf("op newJunction 1 2\n"); flushLine();
        JunctionRef *j = new JunctionRef(r, Point(10, 10), 1);
        printf("op newConn 3 0 A 1 0 P 50 50\n"); flushLine();
        ConnRef *c = new ConnRef(r, 3); c->setEndpoints(ConnEnd(j), ConnEnd(Point(50, 50)));
        printf("op deleteRouter\n"); flushLine();
        delete r;
    } else if (name == "kf-conn-loop-on-junction") {
        // K7: both ends of one connector on the same junction: HyperedgeImprover::execute computes seenBack before
        // registering the front node, allocates a second node for the same junction and loses the first
        printf("op newJunction 1 2\n"); flushLine();
        JunctionRef *j = new JunctionRef(r, Point(10, 10), 1);
        printf("op newConn 3 1 A 1 0 A 1 0\n"); flushLine();
        new ConnRef(r, ConnEnd(j), ConnEnd(j), 3);
        printf("op processTransaction\n"); flushLine();
        r->processTransaction();
        printf("op deleteRouter\n"); flushLine();
        delete r;
    } else if (name == "kf-notrans-new-pin") {
        // K8: ShapeConnectionPin's constructor registers the pin (=> processTransaction with transactions off) before
        // m_vertex is created; a connector attached to that shape and class is rerouted through the null vertex
        printf("op setTransactionUse 0\n"); flushLine();
        r->setTransactionUse(false);
        Rectangle p = R10(0, 0);
        printf("op newShape 1\n"); flushLine();
        ShapeRef *s = new ShapeRef(r, p, 1);
        printf("op newPin 2 1 1\n"); flushLine();
        new ShapeConnectionPin(s, 1, 0.5, 0.5, true, 0, ConnDirAll);
        printf("op newConn 3 0 A 1 1 P 50 50\n"); flushLine();
        ConnRef *c = new ConnRef(r, 3); c->setEndpoints(ConnEnd(s, 1), ConnEnd(Point(50, 50)));
        printf("op newPin 4 1 1\n"); flushLine();
        new ShapeConnectionPin(s, 1, 0.25, 0.5, true, 0, ConnDirAll);
        printf("op deleteRouter\n"); flushLine();
        delete r;
    } else if (name == "kf-duplicate-pin") {
        // K9: two pins of one shape with equal class, offsets and directions: the second is not inserted into the
        // owner's std::set (ordered by value), so ~Obstacle never frees it
        Rectangle p = R10(0, 0);
        printf("op newShape 1\n"); flushLine();
        ShapeRef *s = new ShapeRef(r, p, 1);
        printf("op newPin 2 1 1\n"); flushLine();
        new ShapeConnectionPin(s, 1, 0.5, 0.5, true, 0, ConnDirAll);
        printf("op newPin 3 1 1\n"); flushLine();
        new ShapeConnectionPin(s, 1, 0.5, 0.5, true, 0, ConnDirAll);
        printf("op processTransaction\n"); flushLine();
        r->processTransaction();
        printf("op deleteRouter\n"); flushLine();
        delete r;
    } else if (name == "kf-cyclic-hyperedge") {
        // K10: two junctions joined by two connectors: "Skipping cyclic hyperedge" drops the root without freeing the tree
        printf("op newJunction 1 2\n"); flushLine();
        JunctionRef *j1 = new JunctionRef(r, Point(10, 10), 1);
        printf("op newJunction 3 4\n"); flushLine();
        JunctionRef *j2 = new JunctionRef(r, Point(60, 40), 3);
        printf("op newConn 5 1 A 1 0 A 3 0\n"); flushLine();
        new ConnRef(r, ConnEnd(j1), ConnEnd(j2), 5);
        printf("op newConn 6 1 A 3 0 A 1 0\n"); flushLine();
        new ConnRef(r, ConnEnd(j2), ConnEnd(j1), 6);
        printf("op processTransaction\n"); flushLine();
        r->processTransaction();
        printf("op deleteRouter\n"); flushLine();
        delete r;
    } else if (name == "kf-orth-junction-aligned-point") {
        // K11: orthogonal connector from a junction to a free point with the same x: A* start-up calls
        // determineEndPointLocation for a zero-length visibility edge (makepath.cpp:938 assertion)
        delete r; r = new Router(OrthogonalRouting);
        printf("op newJunction 1 2 @ 100 90\n"); flushLine();
        JunctionRef *j = new JunctionRef(r, Point(100, 90), 1);
        printf("op newConn 3 0 A 1 0 P 100 185\n"); flushLine();
        ConnRef *c = new ConnRef(r, 3); c->setEndpoints(ConnEnd(j), ConnEnd(Point(100, 185)));
        printf("op processTransaction\n"); flushLine();
        r->processTransaction();
        printf("op deleteRouter\n"); flushLine();
        delete r;
    } else if (name == "kf-hyperedge-leaf-junction") {
        // K12: registered hyperedge containing a junction with a single connector: COLA_ASSERT(treeRoot), hyperedge.cpp:333
        delete r; r = new Router(OrthogonalRouting);
        printf("op newJunction 4 5 @ 50 205\n"); flushLine();
        JunctionRef *j4 = new JunctionRef(r, Point(50, 205), 4);
        printf("op newConn 1 0 P -9 91 A 4 0\n"); flushLine();
        ConnRef *c1 = new ConnRef(r, 1); c1->setEndpoints(ConnEnd(Point(-9, 91)), ConnEnd(j4));
        printf("op newConn 6 0 P 151 -39 A 4 0\n"); flushLine();
        ConnRef *c6 = new ConnRef(r, 6); c6->setEndpoints(ConnEnd(Point(151, -39)), ConnEnd(j4));
        printf("op newJunction 7 8 @ 180 475\n"); flushLine();
        JunctionRef *j7 = new JunctionRef(r, Point(180, 475), 7);
        printf("op newConn 9 1 A 7 0 A 4 0\n"); flushLine();
        new ConnRef(r, ConnEnd(j7), ConnEnd(j4), 9);
        printf("op processTransaction\n"); flushLine();
        r->processTransaction();
        printf("op registerHyperedge 4\n"); flushLine();
        r->hyperedgeRerouter()->registerHyperedgeForRerouting(j4);
        printf("op processTransaction\n"); flushLine();
        r->processTransaction();
        printf("op deleteRouter\n"); flushLine();
        delete r;
    } else {
        printf("note unknown-mode\n");
        delete r;
    }
}

static void leakCheck(const char *tag) {
    if (__lsan_do_recoverable_leak_check() != 0) {
        printf("LEAK %s\n", tag); fflush(stdout);
        fprintf(stderr, "C15 harness: leak attributed to the case just finished (%s)\n", tag);
        abort();
    }
}

} // namespace

int main(int argc, char **argv) {
    vh::Args a = vh::parseArgs(argc, argv);
    bool big = a.tier == "thorough";
    if (a.mode.compare(0, 3, "kf-") == 0) {
        if (a.want(0)) {
            vh::beginCase(0, a.mode.c_str());
#ifdef HAVE_C15_LIBS
            // known-finding classes of the other four libraries (harness/c15_libs.h)
            struct { const char *mode; void (*fn)(void); } libKf[] = {
                {"kf-dialect-faces-negative-x-assert", c15::kf_dialect_faces_negative_x_assert},
                {"kf-dialect-hola-leak", c15::kf_dialect_hola_leak},
                {"kf-dialect-peel-edgeless", c15::kf_dialect_peel_edgeless},
                {"kf-cola-cml-rerun-leak", c15::kf_cola_cml_rerun_leak},
                {"kf-cola-cml-unsatinfo-leak", c15::kf_cola_cml_unsatinfo_leak},
                {"kf-cola-unsatinfo-internal-cc-uaf", c15::kf_cola_unsatinfo_internal_cc_uaf},
                {"kf-cola-unsatinfo-alignment-var-uaf", c15::kf_cola_unsatinfo_alignment_var_uaf},
                {"kf-cola-makefeasible-hang", c15::kf_cola_makefeasible_hang},
                {"kf-vpsc-addconstraint-oob", c15::kf_vpsc_addconstraint_oob},
                {"kf-vpsc-static-cycle-leak", c15::kf_vpsc_static_cycle_leak},
                {"kf-topology-endnode-visibility-assert", c15::kf_topology_endnode_visibility_assert}};
            bool isLib = false;
            for (size_t i = 0; i < sizeof(libKf) / sizeof(libKf[0]); ++i)
                if (a.mode == libKf[i].mode) { isLib = true; libKf[i].fn(); }
            if (isLib) { leakCheck(a.mode.c_str()); vh::endCase(); return 0; }
#endif
            if (a.mode == "kf-hyperedge-mtst-assert") {
                // K13: replay of a generated history (seed 9, case 88, quick) with hyperedge registration enabled:
                // mtst.cpp:816 COLA_ASSERT(origTerminals.size() == 1)
                vh::Rng g = vh::caseRng(9, 88);
                routerHist(g, false, false, true);
            } else
            kfCase(a.mode);
            leakCheck(a.mode.c_str());
            vh::endCase();
        }
        return 0;
    }
    long nRouter = (big ? 700 : 150) * a.scale;
    long nLib = (big ? 150 : 40) * a.scale;
    if (a.n >= 0) { nRouter = a.n; nLib = a.n / 4; }
    // --mode router / --mode libs run one half only (same case indices), so that an abort in one half (e.g. the
    // known nudging assertion orthogonal.cpp:3041) does not cost the other half its cases
    bool doRouter = a.mode != "libs", doLibs = a.mode != "router";
    long k = 0;
    for (long i = 0; i < nRouter; ++i, ++k) {
        if (!doRouter || !a.want(k)) continue;
        vh::Rng g = vh::caseRng(a.seed, (uint64_t) k);
        vh::beginCase(k, "router-hist");
        routerHist(g, big);
        leakCheck("router-hist");
        vh::endCase();
    }
#ifdef HAVE_C15_LIBS
    typedef void (*LibFn)(vh::Rng &, bool);
    struct { const char *tag; LibFn fn; } libs[] = {
        {"vpsc-hist", c15::vpscHist}, {"cola-hist", c15::colaHist},
        {"topology-hist", c15::topologyHist}, {"dialect-hist", c15::dialectHist}};
    for (int c = 0; c < 4; ++c) {
        for (long i = 0; i < nLib; ++i, ++k) {
            if (!doLibs || !a.want(k)) continue;
            vh::Rng g = vh::caseRng(a.seed, (uint64_t) k);
            vh::beginCase(k, libs[c].tag);
            libs[c].fn(g, big);
            leakCheck(libs[c].tag);
            vh::endCase();
        }
    }
#endif
    return 0;
}
