// C15 harness: generated LEGAL API histories executed under ASan+UBSan+LSan with assertions on.
//
// Stream classes (case tags):
//   router-hist     libavoid Router lifecycles (5..40 ops), strictly legal in the sense of
//                   Model/Lifecycle.lean `Legal`; after every op the router's public live sets
//                   (m_obstacles split into shapes/junctions, connRefs, endpoint anchors) are printed
//                   and compared with the Lean model by driver_c15
//                   Since round 6 the class also exercises: clusters (ClusterRef: rectangular / triangular / L-shaped /
//                   pentagonal boundaries containing, overlapping, disjoint from shapes, nested; polygons REFERENCING
//                   shape vertices when polyline connectors pay a cluster-crossing penalty; setNewPoly; deleteCluster in
//                   the middle; ~Router with clusters alive; `ocl` = Router::clusterRefs), ALL RoutingParameters and
//                   RoutingOptions (0 / default / non-default values at the start and between transactions,
//                   setRoutingPenalty defaults), ConnRef::setRoutingType flips, fixed routes (set / existing / clear),
//                   setHateCrossings, callbacks, ConnRef::splitAtSegment, JunctionRef::removeJunctionAndMergeConnectors,
//                   ShapeRef::transformConnectionPinPositions, moveShape with a resized polygon and first_move,
//                   JunctionRef::setPositionFixed, pins with absolute offsets / connection cost, ConnEnd(Point, dirs),
//                   the orthogonal-route queries, outputInstanceToSVG / outputDiagramText, id queries.
//   vpsc-hist / cola-hist / topology-hist / dialect-hist     (harness/c15_libs.h)
//   kf-*            one deterministic case per known-finding class (selected with --mode kf-<name>,
//                   run as separate harness invocations because they abort the process)
// After every case `__lsan_do_recoverable_leak_check()` attributes leaks to the case just finished:
// a leak prints `LEAK <tag>` and aborts with the case still open (=> CRASH verdict on that case).
#include "common.h"
#include "libavoid/libavoid.h"
#include <sanitizer/lsan_interface.h>
#include <map>
#include <set>
#include <unistd.h>
#include <cstring>
#include <cstdlib>
#if __has_include("c15_libs.h") && !defined(C15_NO_LIBS)
#include "c15_libs.h"
#define HAVE_C15_LIBS 1
#endif

using namespace Avoid;

namespace {

struct PinM { long id; ShapeConnectionPin *ptr; unsigned cls; long key; bool prop = true; };   // key: (class, offsets, directions) — unique per shape
struct ObstM {
    long id; bool junction; Obstacle *ptr;
    bool pendingAdd, pendingRemove;
    std::vector<PinM> pins;          // junction: the implicit pin (ptr unknown = nullptr)
};
struct ConnM { long id; ConnRef *ptr; bool routerMade; long srcA, dstA; long srcO, dstO; unsigned srcC = 0, dstC = 0; bool fixedRoute = false; };   // srcA/dstA: junction last requested for that end (-1 = none); srcO/dstO: obstacle of any kind (srcC/dstC: its pin class)
struct ClusterM { long id; ClusterRef *ptr; std::vector<long> refs; };   // refs: shapes whose polygon the cluster's ReferencingPolygon points into

// Router::shouldContinueTransactionWithProgress is documented as the hook to cancel a slow transaction: the subclass returns
// false once `abortAfter` progress calls have been made (-1 = never); the final TransactionPhaseCompleted call is only counted
struct ProgressRouter : public Router {
    long abortAfter = -1, calls = 0, completed = 0;
    explicit ProgressRouter(unsigned flags) : Router(flags) {}
    bool shouldContinueTransactionWithProgress(unsigned int, unsigned int phase, unsigned int, double) override {
        if (phase == TransactionPhaseCompleted) { ++completed; return true; }
        ++calls;
        return !(abortAfter >= 0 && calls > abortAfter);
    }
};

struct World {
    Router *r = nullptr;
    bool consolidate = true;
    bool dirty = false;                    // some mutator ran since the last processTransaction
    bool orth = false;
    bool majorHyper = false;
    long nextId = 1;
    std::vector<ObstM> obst;
    std::vector<ConnM> conns;
    std::set<long> mentioned;              // obstacles named by a ConnEnd since the last processing
    std::vector<size_t> hyperIdx;          // registered hyperedges (indices) awaiting the transaction
    std::map<long, long> comp;             // union-find over junctions ever joined by a connector (never split)
    int nops = 0;
    unsigned flags = 0;
    bool polyCapable = false;              // the router can hold polyline connectors
    // 0: no clusters in this history; 1: free polygons (orthogonal-only router, or clusterCrossingPenalty pinned to 0);
    // 2: polygons referencing shape vertices (polyline connectors + a positive cluster-crossing penalty: cost() asserts that
    //    every boundary point is a visibility-graph vertex, makepath.cpp:385 — kf-cluster-polyline-nonvertex-assert —
    //    which also pins shapeBufferDistance to 0, because the graph vertices sit on the BUFFERED polygon)
    int clusterMode = 0;
    // (a candidate path running around a cluster boundary used to overflow ConnectorCrossings::countForSegment's c_path / p_path
    //  arrays — kf-cluster-crossings-overflow, repaired in /repo 93cb140 — so a positive clusterCrossingPenalty next to clusters
    //  is generated again.)  Mode 2 is only generated by the class `router-hist-cp` (--mode router-cp): a polyline connector that
    //  runs along a referencing boundary trips midVertexNumber's assertion (kf-cluster-branching-midvertex-assert).
    std::vector<ClusterM> clusters;
    int callbacks = 0;
    // splitAtSegment / removeJunctionAndMergeConnectors queue a COPY of a live ConnEnd, active-pin pointer included; deleting
    // that pin before the transaction is processed leaves the queued copy dangling (kf-merge-copied-end-pin-deleted)
    bool copiedEndQueued = false;
    std::set<long> usedIds;                // every router-space id seen so far (Router::objectIdIsUnused only looks at ACTIVE objects)
};
// (debug / search) C15_ALLOW=zeronudge,zerosegment lets the generator produce the values the main class keeps away from
static bool hazard(const char *name) { const char *e = getenv("C15_ALLOW"); return e && strstr(e, name); }
static void connCallback(void *p) { ++*static_cast<int *>(p); }

static void flushLine() { fflush(stdout); }
static long compOf(World &w, long j) {
    long r = j;
    for (int guard = 0; guard < 100000; ++guard) { std::map<long, long>::iterator it = w.comp.find(r); if (it == w.comp.end() || it->second == r) break; r = it->second; }
    while (j != r) { std::map<long, long>::iterator it = w.comp.find(j); long nx = it->second; it->second = r; j = nx; }
    return r;
}
static void joinComp(World &w, long a, long b) { long ra = compOf(w, a), rb = compOf(w, b); if (ra != rb) w.comp[ra] = rb; }

static ObstM *findObst(World &w, long id) { for (auto &o : w.obst) if (o.id == id) return &o; return nullptr; }

// print the router's observable live sets
static void observe(World &w) {
    std::vector<unsigned> s, j, c;
    for (ObstacleList::const_iterator it = w.r->m_obstacles.begin(); it != w.r->m_obstacles.end(); ++it) {
        if (dynamic_cast<ShapeRef *>(*it)) s.push_back((*it)->id()); else j.push_back((*it)->id());
    }
    for (ConnRefList::const_iterator it = w.r->connRefs.begin(); it != w.r->connRefs.end(); ++it) c.push_back((*it)->id());
    std::sort(s.begin(), s.end()); std::sort(j.begin(), j.end()); std::sort(c.begin(), c.end());
    printf("os"); for (unsigned x : s) printf(" %u", x); printf("\n");
    printf("oj"); for (unsigned x : j) printf(" %u", x); printf("\n");
    printf("oc"); for (unsigned x : c) printf(" %u", x); printf("\n");
    std::vector<unsigned> cl;
    for (ClusterRefList::const_iterator it = w.r->clusterRefs.begin(); it != w.r->clusterRefs.end(); ++it) cl.push_back((*it)->id());
    std::sort(cl.begin(), cl.end());
    printf("ocl"); for (unsigned x : cl) printf(" %u", x); printf("\n");
    // endpoint anchors of every connector in connRefs (ConnRef::endpointConnEnds is public)
    std::vector<std::pair<unsigned, std::pair<long, long> > > es;
    for (ConnRefList::const_iterator it = w.r->connRefs.begin(); it != w.r->connRefs.end(); ++it) {
        ConnRef *cr = *it;
        if (!cr->src() || !cr->dst()) { es.push_back(std::make_pair(cr->id(), std::make_pair(-2L, -2L))); continue; }
        std::pair<ConnEnd, ConnEnd> e = cr->endpointConnEnds();
        long a = -1, b = -1;
        if (e.first.shape()) a = e.first.shape()->id(); else if (e.first.junction()) a = e.first.junction()->id();
        if (e.second.shape()) b = e.second.shape()->id(); else if (e.second.junction()) b = e.second.junction()->id();
        es.push_back(std::make_pair(cr->id(), std::make_pair(a, b)));
    }
    std::sort(es.begin(), es.end());
    for (auto &e : es) printf("oe %u %ld %ld\n", e.first, e.second.first, e.second.second);
    // per obstacle: number of attached connectors (Obstacle::attachedConnectors is public)
    for (ObstacleList::const_iterator it = w.r->m_obstacles.begin(); it != w.r->m_obstacles.end(); ++it)
        printf("oa %u %zu\n", (*it)->id(), (*it)->attachedConnectors().size());
    // per connector created by the harness: read-back of its checkpoint list (ConnRef::routingCheckpoints is public)
    for (auto &cm : w.conns) if (!cm.routerMade) printf("ock %ld %zu\n", cm.id, cm.ptr->routingCheckpoints().size());
    flushLine();
}

static Rectangle rectAt(vh::Rng &g) {
    double x = 20.0 * g.range(0, 20), y = 20.0 * g.range(0, 20);
    double wd = 10.0 * g.range(2, 5), ht = 10.0 * g.range(2, 5);
    return Rectangle(Point(x, y), Point(x + wd, y + ht));
}
static Point ptAt(vh::Rng &g) { return Point(5.0 * g.range(-10, 100), 5.0 * g.range(-10, 100)); }
// free connector end points: never axis-aligned with a junction centre or a pin (those sit on multiples of 2.5):
// an orthogonal connector from a junction to an aligned free point trips makepath.cpp:938 (kf-orth-junction-aligned-point)
static Point freePtAt(vh::Rng &g) { return Point(5.0 * g.range(-10, 100) + 1.0, 5.0 * g.range(-10, 100) + 1.0); }

struct EndChoice { bool attached; long obj; unsigned cls; Point p; unsigned dirs = ConnDirAll; };

static ConnEnd mkEnd(World &w, const EndChoice &e) {
    if (!e.attached) return e.dirs == ConnDirAll ? ConnEnd(e.p) : ConnEnd(e.p, (ConnDirFlags) e.dirs);
    ObstM *o = findObst(w, e.obj);
    if (o->junction) return ConnEnd(static_cast<JunctionRef *>(o->ptr));
    return ConnEnd(static_cast<ShapeRef *>(o->ptr), e.cls);
}
static void printEnd(const EndChoice &e) {
    if (!e.attached) printf(" P %g %g", e.p.x, e.p.y); else printf(" A %ld %u", e.obj, e.cls);
}
static void printEndDirs(const EndChoice &a, const EndChoice &b) {
    if ((!a.attached && a.dirs != ConnDirAll) || (!b.attached && b.dirs != ConnDirAll)) printf(" @dirs %u %u", a.dirs, b.dirs);
}
// candidates a ConnEnd may name: allocated, no queued remove; shapes need a pin
static bool pickEnd(World &w, vh::Rng &g, EndChoice &out, bool allowJunction, long avoidJunction = -1, long avoidObst = -1) {
    out.attached = false; out.obj = 0; out.cls = 0; out.p = freePtAt(g); out.dirs = ConnDirAll;
    // ConnEnd(Point, visDirs): a free end that may only be left in some directions
    if (g.coin(1, 6)) { static const unsigned ds[] = {ConnDirUp, ConnDirDown, ConnDirLeft, ConnDirRight, ConnDirUp | ConnDirDown, ConnDirLeft | ConnDirRight, ConnDirUp | ConnDirRight}; out.dirs = ds[g.range(0, 6)]; }
    if (g.coin(2, 5)) return true;
    std::vector<std::pair<long, unsigned> > cand;
    for (auto &o : w.obst) {
        // both ends of a connector on one obstacle may pick the same pin: zero-length orthogonal route, makepath.cpp:938
        if (o.pendingRemove || o.id == avoidObst) continue;
        // in transactions-off mode an obstacle whose addition is still queued does not occur
        // both ends of one connector on the same junction leak a HyperedgeTreeNode (kf-conn-loop-on-junction)
        // and a cycle of junctions and connectors is skipped by the hyperedge improver without freeing its tree (kf-cyclic-hyperedge)
        if (o.junction) { if (allowJunction && (avoidJunction < 0 || compOf(w, o.id) != compOf(w, avoidJunction))) cand.push_back(std::make_pair(o.id, 0u)); }
        else for (auto &p : o.pins) cand.push_back(std::make_pair(o.id, p.cls));
    }
    if (cand.empty()) return true;
    std::pair<long, unsigned> c = g.pick(cand);
    out.attached = true; out.obj = c.first; out.cls = c.second;
    return true;
}

static void doProcessed(World &w) { w.dirty = false; w.copiedEndQueued = false; w.mentioned.clear(); for (auto &o : w.obst) o.pendingAdd = false; }
static void dropRemoved(World &w);
// transactions off: the mutator ends with processTransaction(), which also handles anything queued earlier
static void afterMutator(World &w) { if (w.consolidate) w.dirty = true; else { dropRemoved(w); doProcessed(w); } }

// after a processed transaction: drop obstacles whose removal was queued
// Obstacle::makeInactive turns the ends that followed the obstacle into free points
static void detachConns(World &w, long obstId) {
    for (auto &c : w.conns) {
        if (c.srcO == obstId) { c.srcO = -1; c.srcA = -1; c.srcC = 0; }
        if (c.dstO == obstId) { c.dstO = -1; c.dstA = -1; c.dstC = 0; }
    }
}
static void dropRemoved(World &w) {
    std::vector<ObstM> keep;
    for (auto &o : w.obst) if (!o.pendingRemove) keep.push_back(o); else detachConns(w, o.id);
    w.obst.swap(keep);
}

static void reportHyper(World &w, const HyperedgeNewAndDeletedObjectLists &l) {
    for (ConnRefList::const_iterator it = l.deletedConnectorList.begin(); it != l.deletedConnectorList.end(); ++it) {
        for (size_t i = 0; i < w.conns.size(); ++i) if (w.conns[i].ptr == *it) {
            printf("hyper dc %ld\n", w.conns[i].id); w.conns.erase(w.conns.begin() + i); break; }
    }
    for (JunctionRefList::const_iterator it = l.deletedJunctionList.begin(); it != l.deletedJunctionList.end(); ++it) {
        for (size_t i = 0; i < w.obst.size(); ++i) if (w.obst[i].ptr == *it) {
            printf("hyper dj %ld\n", w.obst[i].id); detachConns(w, w.obst[i].id); w.obst.erase(w.obst.begin() + i); break; }
    }
    for (JunctionRefList::const_iterator it = l.newJunctionList.begin(); it != l.newJunctionList.end(); ++it) {
        long id = (*it)->id(); long pid = 100000 + w.nextId++; w.usedIds.insert(id);
        ObstM o; o.id = id; o.junction = true; o.ptr = *it; o.pendingAdd = false; o.pendingRemove = false;
        PinM p; p.id = pid; p.ptr = nullptr; p.cls = 0; p.key = -1; o.pins.push_back(p);
        w.obst.push_back(o);
        printf("hyper nj %ld %ld\n", id, pid);
    }
    for (ConnRefList::const_iterator it = l.newConnectorList.begin(); it != l.newConnectorList.end(); ++it) {
        w.usedIds.insert((*it)->id());
        ConnM c; c.id = (*it)->id(); c.ptr = *it; c.routerMade = true; c.srcA = c.dstA = -1; c.srcO = c.dstO = -1; w.conns.push_back(c);
        printf("hyper nc %ld\n", c.id);
    }
}

static void opProcess(World &w) {
    printf("op processTransaction\n"); flushLine();
    bool did = w.r->processTransaction();
    dropRemoved(w);
    if (did) {
        for (size_t i = 0; i < w.hyperIdx.size(); ++i)
            reportHyper(w, w.r->hyperedgeRerouter()->newAndDeletedObjectLists(w.hyperIdx[i]));
        if (w.majorHyper) reportHyper(w, w.r->newAndDeletedObjectListsFromHyperedgeImprovement());
    }
    w.hyperIdx.clear();
    doProcessed(w);
}

static long freshId(World &w) {
    // ids handed to the constructors explicitly; skip ids the router took for its own objects
    while (!w.r->objectIdIsUnused((unsigned) w.nextId) || w.usedIds.count(w.nextId)) w.nextId++;
    w.usedIds.insert(w.nextId);
    return w.nextId++;
}

static void opNewShape(World &w, vh::Rng &g) {
    long id = freshId(w);
    Rectangle rc = rectAt(g);
    printf("op newShape %ld @ %g %g %g %g\n", id, rc.at(0).x, rc.at(0).y, rc.at(2).x, rc.at(2).y); flushLine();
    ShapeRef *s = new ShapeRef(w.r, rc, (unsigned) id);
    ObstM o; o.id = id; o.junction = false; o.ptr = s; o.pendingAdd = w.consolidate; o.pendingRemove = false;
    w.obst.push_back(o);
    afterMutator(w);
}
static void opNewJunction(World &w, vh::Rng &g) {
    long id = freshId(w); long pid = 100000 + w.nextId++;
    Point p = ptAt(g);
    printf("op newJunction %ld %ld @ %g %g\n", id, pid, p.x, p.y); flushLine();
    JunctionRef *j = new JunctionRef(w.r, p, (unsigned) id);
    ObstM o; o.id = id; o.junction = true; o.ptr = j; o.pendingAdd = w.consolidate; o.pendingRemove = false;
    PinM pm; pm.id = pid; pm.ptr = nullptr; pm.cls = 0; pm.key = -1; o.pins.push_back(pm);
    w.obst.push_back(o);
    afterMutator(w);
}
static void opNewPin(World &w, vh::Rng &g, ObstM &o) {
    long pid = 100000 + w.nextId++;
    unsigned cls = (unsigned) g.range(1, 2);
    static const double offs[] = {ATTACH_POS_LEFT, 0.25, ATTACH_POS_CENTRE, 0.75, ATTACH_POS_RIGHT};
    // Obstacle::m_connection_pins is a std::set ordered by pin *value* (class, directions, offsets): a second pin equal
    // to an existing one is silently not inserted, hence never freed (kf-duplicate-pin); keep them distinct
    long xi, yi, key; ConnDirFlags dirs;
    for (;;) {
        xi = g.range(0, 4); yi = g.range(0, 4); dirs = g.coin() ? ConnDirAll : ConnDirNone;
        key = ((long) cls * 10 + xi) * 10 + yi; key = key * 2 + (dirs == ConnDirAll ? 1 : 0);
        bool used = false; for (auto &q : o.pins) if (q.key == key) used = true;
        if (!used) break;
    }
    double xo = offs[xi], yo = offs[yi];
    // one pin in five uses ABSOLUTE offsets (proportional = false): 3/7/11/13/17 units from the shape's low corner
    // (never equal to a proportional offset, so the value-ordered pin set cannot see a duplicate)
    bool prop = !g.coin(1, 5);
    if (!prop) { static const double ab[] = {3, 7, 11, 13, 17}; xo = ab[xi]; yo = ab[yi]; }
    double inside = g.coin(1, 6) ? 1.0 : 0.0;
    bool nonExcl = g.coin(); double cost = g.coin(1, 4) ? 10.0 * g.range(0, 3) : -1.0;
    printf("op newPin %ld %ld %u @ %g %g %u %d %g %d %g\n", pid, o.id, cls, xo, yo, (unsigned) dirs, prop ? 1 : 0, inside, nonExcl ? 1 : 0, cost); flushLine();
    ShapeConnectionPin *p = new ShapeConnectionPin(static_cast<ShapeRef *>(o.ptr), cls, xo, yo, prop, inside, dirs);
    if (nonExcl) p->setExclusive(false);
    if (cost >= 0) p->setConnectionCost(cost);
    (void) p->isExclusive(); (void) p->directions(); (void) p->position();
    PinM pm; pm.id = pid; pm.ptr = p; pm.cls = cls; pm.key = key; pm.prop = prop; o.pins.push_back(pm);
    afterMutator(w);
}
static void opNewConn(World &w, vh::Rng &g, const EndChoice *fa = nullptr, const EndChoice *fb = nullptr) {
    long id = freshId(w);
    EndChoice a, b;
    // transactions off: `setEndpoints` routes after the source alone has been set; a junction source
    // with an empty route leaks a HyperedgeTreeNode (known-finding class kf-junction-halfconn-leak)
    pickEnd(w, g, a, w.consolidate); pickEnd(w, g, b, true, (a.attached && findObst(w, a.obj)->junction) ? a.obj : -1, a.attached ? a.obj : -1);
    if (fa) a = *fa;
    if (fb) b = *fb;
    bool ctor3 = g.coin();      // (with transactions off the 3-argument form asserted before /repo 3650d5c)
    bool mkOrth = w.orth && g.coin(1, 3) == false, withCb = g.coin(1, 4); int hate = g.coin(1, 6) ? (g.coin() ? 1 : 0) : -1;
    printf("op newConn %ld %d", id, ctor3 ? 1 : 0); printEnd(a); printEnd(b); printEndDirs(a, b); printf(" @opts %d %d %d\n", mkOrth ? 1 : 0, withCb ? 1 : 0, hate); flushLine();
    ConnRef *c;
    if (ctor3) c = new ConnRef(w.r, mkEnd(w, a), mkEnd(w, b), (unsigned) id);
    else { c = new ConnRef(w.r, (unsigned) id); c->setEndpoints(mkEnd(w, a), mkEnd(w, b)); }
    if (mkOrth) c->setRoutingType(ConnType_Orthogonal);
    ConnM cm; cm.id = id; cm.ptr = c; cm.routerMade = false;
    cm.srcA = (a.attached && findObst(w, a.obj)->junction) ? a.obj : -1; cm.dstA = (b.attached && findObst(w, b.obj)->junction) ? b.obj : -1;
    if (cm.srcA >= 0 && cm.dstA >= 0) joinComp(w, cm.srcA, cm.dstA);
    cm.srcO = a.attached ? a.obj : -1; cm.dstO = b.attached ? b.obj : -1; cm.srcC = a.cls; cm.dstC = b.cls;
    if (withCb) c->setCallback(connCallback, &w.callbacks);
    if (hate >= 0) c->setHateCrossings(hate == 1);
    w.conns.push_back(cm);
    if (a.attached) w.mentioned.insert(a.obj);
    if (b.attached) w.mentioned.insert(b.obj);
    afterMutator(w);
}
static void opSetEndpoint(World &w, vh::Rng &g, ConnM &c) {
    bool isDst = g.coin();
    EndChoice e; pickEnd(w, g, e, true, isDst ? c.srcA : c.dstA, isDst ? c.srcO : c.dstO);
    (isDst ? c.dstO : c.srcO) = e.attached ? e.obj : -1; (isDst ? c.dstC : c.srcC) = e.cls;
    (isDst ? c.dstA : c.srcA) = (e.attached && findObst(w, e.obj)->junction) ? e.obj : -1;
    if (c.srcA >= 0 && c.dstA >= 0) joinComp(w, c.srcA, c.dstA);
    printf("op setEndpoint %ld %d", c.id, isDst ? 1 : 0); printEnd(e); if (!e.attached && e.dirs != ConnDirAll) printf(" @dirs %u", e.dirs); printf("\n"); flushLine();
    if (isDst) c.ptr->setDestEndpoint(mkEnd(w, e)); else c.ptr->setSourceEndpoint(mkEnd(w, e));
    if (e.attached) w.mentioned.insert(e.obj);
    afterMutator(w);
}
// ConnRef::setRoutingCheckpoints: frees the connector's old checkpoint vertices and creates k new ones; callable
// repeatedly; queues nothing.  The vertex ids (third id space, 200000+) only exist in the model.
static void opSetCheckpoints(World &w, vh::Rng &g, ConnM &c, int k) {
    std::vector<Checkpoint> cps;
    printf("op setRoutingCheckpoints %ld %d", c.id, k);
    for (int i = 0; i < k; ++i) printf(" %ld", 200000 + w.nextId++);
    printf(" @");
    for (int i = 0; i < k; ++i) {
        // off the 5-unit grid of shapes/junctions and off the +1 grid of free ends
        Point p(5.0 * g.range(-10, 100) + 2.0, 5.0 * g.range(-10, 100) + 2.0);
        printf(" %g %g", p.x, p.y);
        cps.push_back(Checkpoint(p));
    }
    printf("\n"); flushLine();
    c.ptr->setRoutingCheckpoints(cps);
}
static void opDeleteConn(World &w, size_t i) {
    printf("op deleteConn %ld\n", w.conns[i].id); flushLine();
    w.r->deleteConnector(w.conns[i].ptr);
    w.conns.erase(w.conns.begin() + i);
}
static void opDeleteObst(World &w, ObstM &o) {
    printf("op %s %ld\n", o.junction ? "deleteJunction" : "deleteShape", o.id); flushLine();
    if (o.junction) w.r->deleteJunction(static_cast<JunctionRef *>(o.ptr));
    else w.r->deleteShape(static_cast<ShapeRef *>(o.ptr));
    o.pendingRemove = true;
    if (!w.consolidate) dropRemoved(w);
    afterMutator(w);
}
static void opMoveObst(World &w, vh::Rng &g, ObstM &o) {
    double dx = 5.0 * g.range(-6, 6), dy = 5.0 * g.range(-6, 6);
    // shapes: 0 = moveShape(dx, dy); 1 = moveShape(translated polygon); 2 = moveShape(RESIZED rectangle wd x ht, first_move)
    int variant = o.junction ? 0 : (g.coin() ? 0 : (g.coin() ? 1 : 2));
    double wd = 0, ht = 0; bool fm = false;
    if (variant == 2) { wd = 10.0 * g.range(2, 6); ht = 10.0 * g.range(2, 6); fm = g.coin(); }
    printf("op %s %ld @ %g %g %d %g %g %d\n", o.junction ? "moveJunction" : "moveShape", o.id, dx, dy, variant, wd, ht, fm ? 1 : 0); flushLine();
    bool hadAdd = o.pendingAdd;
    if (o.junction) w.r->moveJunction(static_cast<JunctionRef *>(o.ptr), dx, dy);
    else if (variant == 0) w.r->moveShape(static_cast<ShapeRef *>(o.ptr), dx, dy);
    else if (variant == 1) { Polygon np = static_cast<ShapeRef *>(o.ptr)->polygon(); np.translate(dx, dy); w.r->moveShape(static_cast<ShapeRef *>(o.ptr), np); }
    else {
        Box bb = static_cast<ShapeRef *>(o.ptr)->polygon().offsetBoundingBox(0.0);
        Rectangle np(Point(bb.min.x + dx, bb.min.y + dy), Point(bb.min.x + dx + wd, bb.min.y + dy + ht));
        w.r->moveShape(static_cast<ShapeRef *>(o.ptr), np, fm);
    }
    if (!hadAdd) afterMutator(w);
}
static void opDeletePin(World &w, ObstM &o, size_t pi) {
    printf("op deletePin %ld\n", o.pins[pi].id); flushLine();
    delete o.pins[pi].ptr;
    o.pins.erase(o.pins.begin() + pi);
    afterMutator(w);
}
static void opSetTransactionUse(World &w, bool b) {
    printf("op setTransactionUse %d\n", b ? 1 : 0); flushLine();
    w.r->setTransactionUse(b);
    w.consolidate = b;
}
static void opDeleteRouter(World &w) {
    printf("op deleteRouter\n"); flushLine();
    delete w.r; w.r = nullptr;
}

// ---------------------------------------------------------------- round 6: settings, clusters, the rest of the public API
static const char *paramName(int p) {
    static const char *n[] = {"segmentPenalty", "anglePenalty", "crossingPenalty", "clusterCrossingPenalty", "fixedSharedPathPenalty",
        "portDirectionPenalty", "shapeBufferDistance", "idealNudgingDistance", "reverseDirectionPenalty"};
    return n[p];
}
// Router::setRoutingParameter / setRoutingPenalty: value 0, the default, non-default values, "choose a sensible value" (< 0)
static void opSetParam(World &w, vh::Rng &g) {
    static const double vals[9][4] = {{0, 10, 50, 1}, {0, 10, 100, 50}, {0, 200, 50, 1}, {0, 4000, 50, 1}, {0, 110, 50, 10},
                                      {0, 100, 10, 1}, {0, 4, 2, 1}, {4, 0, 2, 10}, {0, 50, 500, 5}};
    int p = (int) g.range(0, lastRoutingParameterMarker - 1);
    double v = vals[p][g.range(0, 3)];
    bool sensible = g.coin(1, 5);
    if (p == clusterCrossingPenalty && w.clusterMode == 1 && w.polyCapable) { v = 0; sensible = false; }
    if (p == shapeBufferDistance && w.clusterMode == 2) { v = 0; sensible = false; }
    // orthogonal routing with segmentPenalty 0 trips makepath.cpp:796 ("really doesn't make sense", kf-orth-zero-segment-penalty-assert)
    if (p == segmentPenalty && w.orth && !sensible && v == 0 && !hazard("zerosegment")) v = 1;
    // idealNudgingDistance 0 makes JunctionRef::makeRectangle a zero-size rectangle: the orthogonal scan asserts begin < finish
    // (orthogonal.cpp:702), the hyperedge improver's shift scan asserts result == 1 (scanline.cpp:456), as soon as a junction
    // exists (kf-zero-nudging-distance-junction-assert)
    if (p == idealNudgingDistance && !sensible && v == 0 && !hazard("zeronudge")) v = 2;
    if (sensible) {
        printf("op api router setRoutingPenalty %s\n", paramName(p)); flushLine();
        w.r->setRoutingPenalty((RoutingParameter) p);
    } else {
        printf("op api router setRoutingParameter %s %g\n", paramName(p), v); flushLine();
        w.r->setRoutingParameter((RoutingParameter) p, v);
    }
    (void) w.r->routingParameter((RoutingParameter) p);
}
// Router::setRoutingOption: every option except improveHyperedgeRoutesMovingAddingAndDeletingJunctions (allowMajor only)
static void opSetOption(World &w, vh::Rng &g) {
    static const RoutingOption os[] = {nudgeOrthogonalSegmentsConnectedToShapes, improveHyperedgeRoutesMovingJunctions,
        penaliseOrthogonalSharedPathsAtConnEnds, nudgeOrthogonalTouchingColinearSegments, performUnifyingNudgingPreprocessingStep,
        nudgeSharedPathsWithCommonEndPoint};
    RoutingOption o = os[g.range(0, 5)];
    bool b = g.coin();
    // (nudgeSharedPathsWithCommonEndPoint = false used to assert — orthogonal.cpp:76, UnsignedPair(id, id) — as soon as two segments
    //  of ONE connector were neighbours in a nudging region: kf-nudge-common-endpoint-same-conn-assert, repaired in /repo eb4b954)
    printf("op api router setRoutingOption %d %d\n", (int) o, b ? 1 : 0); flushLine();
    w.r->setRoutingOption(o, b);
    (void) w.r->routingOption(o);
}
// read-only Router calls; the orthogonal-route checks and the output functions walk every route / object
static void opRouterQuery(World &w, vh::Rng &g) {
    int k = (int) g.range(0, 4);
    if (k == 4) {
        // cancel the following transactions after N progress reports (N = -1: stop cancelling)
        static const long ns[] = {-1, 0, 1, 3, 10};
        long n = ns[g.range(0, 4)];
        printf("op api router abortTransactionAfter %ld\n", n); flushLine();
        ProgressRouter *pr = static_cast<ProgressRouter *>(w.r); pr->abortAfter = n; pr->calls = 0;
    } else if (k == 0) {
        printf("op api router idQueries\n"); flushLine();
        unsigned n = w.r->newObjectId(); (void) w.r->objectIdIsUnused(n); (void) w.r->objectIdIsUnused(1); (void) w.r->transactionUse();
    } else if (k == 1 && !w.dirty && w.flags == OrthogonalRouting) {
        // (undocumented helpers of libavoid's own orthogonal tests: only meaningful — and only assertion-free — when every
        //  route is orthogonal)
        printf("op api router existsQueries\n"); flushLine();
        (void) w.r->existsOrthogonalSegmentOverlap(g.coin()); (void) w.r->existsOrthogonalFixedSegmentOverlap(g.coin());
        (void) w.r->existsOrthogonalTouchingPaths(); (void) w.r->existsCrossings(g.coin()); (void) w.r->existsInvalidOrthogonalPaths();
    } else {
        // outputInstanceToSVG / outputDiagramText append ".svg" / ".txt" and write the whole scene: to a scratch name, removed at once
        char base[128]; snprintf(base, sizeof base, "/var/tmp/c15-harness-%d", (int) getpid());
        bool svg = g.coin();
        printf("op api router %s\n", svg ? "outputInstanceToSVG" : "outputDiagramText"); flushLine();
        if (svg) w.r->outputInstanceToSVG(base); else w.r->outputDiagramText(base);
        std::string f = std::string(base) + (svg ? ".svg" : ".txt"); unlink(f.c_str());
    }
}

// polygon with the given bounding box: 0 rectangle, 1 triangle, 2 L-shape, 3 pentagon ("house")
static Polygon polyInBox(double x0, double y0, double x1, double y1, int kind) {
    if (kind == 0) return Rectangle(Point(x0, y0), Point(x1, y1));
    double xm = (x0 + x1) / 2, ym = (y0 + y1) / 2;
    std::vector<Point> pts;
    if (kind == 1) { pts.push_back(Point(x1, y0)); pts.push_back(Point(xm, y1)); pts.push_back(Point(x0, y0)); }
    else if (kind == 2) { pts.push_back(Point(x1, y0)); pts.push_back(Point(x1, ym)); pts.push_back(Point(xm, ym)); pts.push_back(Point(xm, y1)); pts.push_back(Point(x0, y1)); pts.push_back(Point(x0, y0)); }
    else { pts.push_back(Point(x1, ym)); pts.push_back(Point(x1, y1)); pts.push_back(Point(x0, y1)); pts.push_back(Point(x0, ym)); pts.push_back(Point(xm, y0)); }
    Polygon pg((int) pts.size());
    for (size_t i = 0; i < pts.size(); ++i) pg.ps[i] = pts[i];
    return pg;
}
// cluster boundary for clusterMode 1: around / across / away from a shape, inside / around another cluster, or anywhere
static Polygon freeClusterPoly(World &w, vh::Rng &g, std::string &desc) {
    double x0, y0, x1, y1;
    std::vector<ObstM *> sh; for (auto &o : w.obst) if (!o.junction && !o.pendingRemove) sh.push_back(&o);
    int rel = (int) g.range(0, 4);
    if (rel <= 1 && !sh.empty()) {
        Box bb = g.pick(sh)->ptr->polygon().offsetBoundingBox(0.0);
        if (rel == 0) { double m = 5.0 * g.range(1, 4); x0 = bb.min.x - m; y0 = bb.min.y - m; x1 = bb.max.x + m; y1 = bb.max.y + m; desc = "contains"; }
        else { double hw = (bb.max.x - bb.min.x) / 2, hh = (bb.max.y - bb.min.y) / 2; x0 = bb.min.x + hw; y0 = bb.min.y + hh; x1 = bb.max.x + hw + 10; y1 = bb.max.y + hh + 10; desc = "overlaps"; }
    } else if (rel == 2) { x0 = 600 + 10.0 * g.range(0, 10); y0 = 600 + 10.0 * g.range(0, 10); x1 = x0 + 10.0 * g.range(2, 8); y1 = y0 + 10.0 * g.range(2, 8); desc = "disjoint"; }
    else if (rel == 3 && !w.clusters.empty()) {
        Box bb = g.pick(w.clusters).ptr->rectangularPolygon().offsetBoundingBox(0.0);
        if (g.coin() && bb.max.x - bb.min.x > 12 && bb.max.y - bb.min.y > 12) { x0 = bb.min.x + 3; y0 = bb.min.y + 3; x1 = bb.max.x - 3; y1 = bb.max.y - 3; desc = "nested-inside"; }
        else { x0 = bb.min.x - 7; y0 = bb.min.y - 7; x1 = bb.max.x + 7; y1 = bb.max.y + 7; desc = "nested-around"; }
    } else { x0 = 10.0 * g.range(-5, 40); y0 = 10.0 * g.range(-5, 40); x1 = x0 + 10.0 * g.range(2, 20); y1 = y0 + 10.0 * g.range(2, 20); desc = "anywhere"; }
    int kind = (int) g.range(0, 3);
    static const char *kn[] = {"rect", "triangle", "L", "pentagon"};
    desc += std::string(" ") + kn[kind];
    return polyInBox(x0, y0, x1, y1, kind);
}
// cluster boundary for clusterMode 2: the convex hull of the corners of one or two processed shapes, every point carrying
// (shape id, vertex number) so that ReferencingPolygon follows the shapes when they move
static bool refClusterPoly(World &w, vh::Rng &g, Polygon &out, std::vector<long> &refs, std::string &desc) {
    std::vector<ObstM *> sh; for (auto &o : w.obst) if (!o.junction && !o.pendingRemove && !o.pendingAdd) sh.push_back(&o);
    if (sh.empty()) return false;
    std::vector<ObstM *> use; use.push_back(g.pick(sh));
    if (sh.size() > 1 && g.coin()) { ObstM *b = g.pick(sh); if (b != use[0]) use.push_back(b); }
    std::vector<Point> pts;
    for (ObstM *o : use) { const Polygon &pg = o->ptr->polygon(); for (size_t i = 0; i < pg.size(); ++i) { Point q = pg.at(i); q.id = (unsigned) o->id; q.vn = (unsigned short) i; pts.push_back(q); } refs.push_back(o->id); }
    // monotone chain, collinear points dropped
    std::sort(pts.begin(), pts.end(), [](const Point &a, const Point &b) { return a.x < b.x || (a.x == b.x && a.y < b.y); });
    std::vector<Point> h(2 * pts.size()); size_t k = 0;
    auto cr = [](const Point &o, const Point &a, const Point &b) { return (a.x - o.x) * (b.y - o.y) - (a.y - o.y) * (b.x - o.x); };
    for (size_t i = 0; i < pts.size(); ++i) { while (k >= 2 && cr(h[k - 2], h[k - 1], pts[i]) <= 0) k--; h[k++] = pts[i]; }
    for (size_t i = pts.size() - 1, t = k + 1; i > 0; --i) { while (k >= t && cr(h[k - 2], h[k - 1], pts[i - 1]) <= 0) k--; h[k++] = pts[i - 1]; }
    h.resize(k - 1);
    out = Polygon((int) h.size());
    for (size_t i = 0; i < h.size(); ++i) out.ps[i] = h[i];
    desc = use.size() == 1 ? "ref-one-shape" : "ref-hull-of-two";
    return true;
}
static bool clusterPoly(World &w, vh::Rng &g, Polygon &pg, std::vector<long> &refs, std::string &desc) {
    if (w.clusterMode == 2) return refClusterPoly(w, g, pg, refs, desc);
    // mode 1: one boundary in three references shape vertices as well (harmless for routing there — no polyline connector pays
    // a cluster penalty — but the router reads the referenced polygons in generateContains / adjustClustersWithAdd / the output
    // functions, so the lifetime rule "do not delete a referenced shape" is exercised by the main class)
    if (g.coin(1, 3) && refClusterPoly(w, g, pg, refs, desc)) return true;
    pg = freeClusterPoly(w, g, desc); return true;
}
static void printPoly(const Polygon &pg) { for (size_t i = 0; i < pg.size(); ++i) printf(" %g %g %u %u", pg.ps[i].x, pg.ps[i].y, pg.ps[i].id, (unsigned) pg.ps[i].vn); }
static void opNewCluster(World &w, vh::Rng &g) {
    Polygon pg; std::vector<long> refs; std::string desc;
    if (!clusterPoly(w, g, pg, refs, desc)) return;
    long id = freshId(w);
    printf("op newCluster %ld @ %s :", id, desc.c_str()); printPoly(pg); printf("\n"); flushLine();
    ClusterM c; c.id = id; c.refs = refs;
    c.ptr = new ClusterRef(w.r, pg, (unsigned) id);
    (void) c.ptr->polygon().size(); (void) c.ptr->rectangularPolygon().size(); (void) c.ptr->router();
    w.clusters.push_back(c);
}
static void opSetClusterPoly(World &w, vh::Rng &g, ClusterM &c) {
    Polygon pg; std::vector<long> refs; std::string desc;
    if (!clusterPoly(w, g, pg, refs, desc)) return;
    printf("op setClusterPoly %ld @ %s :", c.id, desc.c_str()); printPoly(pg); printf("\n"); flushLine();
    c.ptr->setNewPoly(pg);
    c.refs = refs;
}
static void opDeleteCluster(World &w, size_t i) {
    printf("op deleteCluster %ld\n", w.clusters[i].id); flushLine();
    w.r->deleteCluster(w.clusters[i].ptr);
    w.clusters.erase(w.clusters.begin() + i);
}
static bool referencedByCluster(World &w, long shapeId) {
    for (auto &c : w.clusters) for (long r : c.refs) if (r == shapeId) return true;
    return false;
}

// ConnRef::setRoutingType: a real change (both routing kinds enabled) queues a bare ConnChange via Router::modifyConnector(conn)
static void opSetRoutingType(World &w, vh::Rng &g, ConnM &c) {
    ConnType t = g.coin() ? ConnType_Orthogonal : ConnType_PolyLine;
    if (g.coin()) t = c.ptr->routingType() == ConnType_Orthogonal ? ConnType_PolyLine : ConnType_Orthogonal;    // prefer a flip
    bool changes = w.r->validConnType(t) != c.ptr->routingType();
    if (changes) printf("op touchConn %ld @ setRoutingType %d\n", c.id, (int) t);
    else printf("op api conn %ld setRoutingType %d\n", c.id, (int) t);
    flushLine();
    c.ptr->setRoutingType(t);
    if (changes) afterMutator(w);
}
static void opConnQuery(World &w, ConnM &c) {
    printf("op api conn %ld queries\n", c.id); flushLine();
    (void) c.ptr->route().size(); (void) c.ptr->displayRoute().size(); (void) c.ptr->needsRepaint(); (void) c.ptr->hasFixedRoute();
    (void) c.ptr->routingCheckpoints().size(); (void) c.ptr->routingType(); (void) c.ptr->router(); (void) c.ptr->doesHateCrossings();
    if (c.ptr->src() && c.ptr->dst()) { (void) c.ptr->endpointConnEnds(); (void) c.ptr->possibleDstPinPoints().size(); }
    (void) w;
}
// ConnRef::setFixedRoute(route): setEndpoints(first, last) (two modifyConnector calls), then the route is pinned;
// orthogonal connectors get an axis-parallel route, polyline connectors any route
static void opSetFixedRoute(World &w, vh::Rng &g, ConnM &c) {
    PolyLine rt;
    Point a(5.0 * g.range(-10, 100) + 3.0, 5.0 * g.range(-10, 100) + 3.0);
    rt.ps.push_back(a);
    if (c.ptr->routingType() == ConnType_Orthogonal) {
        Point b(5.0 * g.range(-10, 100) + 3.0, a.y), d(b.x, 5.0 * g.range(-10, 100) + 3.0);
        if (b.x == a.x) b.x += 5; d.x = b.x; if (d.y == b.y) d.y += 5;
        rt.ps.push_back(b); rt.ps.push_back(d);
    } else {
        int n = (int) g.range(1, 3);
        for (int i = 0; i < n; ++i) rt.ps.push_back(Point(5.0 * g.range(-10, 100) + 3.0, 5.0 * g.range(-10, 100) + 3.0 + i));
    }
    const Point &f = rt.ps.front(), &l = rt.ps.back();
    printf("op setEndpoint %ld 0 P %g %g\n", c.id, f.x, f.y);
    printf("op setEndpoint %ld 1 P %g %g\n", c.id, l.x, l.y);
    printf("op api conn %ld setFixedRoute %zu @", c.id, rt.size()); for (size_t i = 0; i < rt.size(); ++i) printf(" %g %g", rt.ps[i].x, rt.ps[i].y); printf("\n"); flushLine();
    c.ptr->setFixedRoute(rt);
    c.srcA = c.dstA = c.srcO = c.dstO = -1; c.srcC = c.dstC = 0; c.fixedRoute = true;
    afterMutator(w);
}
static void opFixExisting(World &w, ConnM &c) {
    printf("op api conn %ld setFixedExistingRoute\n", c.id); flushLine();
    c.ptr->setFixedExistingRoute(); c.fixedRoute = true; (void) w;
}
static void opClearFixed(World &w, ConnM &c) {
    printf("op api conn %ld clearFixedRoute\n", c.id); flushLine();
    c.ptr->clearFixedRoute(); c.fixedRoute = false; (void) w;
}
// ShapeRef::transformConnectionPinPositions rewrites the pins' offsets (since /repo 68076bb outside the shape's value-ordered
// std::set; before, the set order broke and a later pin deletion used freed memory: kf-transform-pins-set-order).  Shapes
// whose pins all use proportional offsets: the harness tracks pin values by offset index to keep new pins distinct.
static void opTransformPins(World &w, vh::Rng &g, ObstM &o) {
    int t = (int) g.range(0, 4);
    printf("op transformPins %ld %d\n", o.id, t); flushLine();
    static_cast<ShapeRef *>(o.ptr)->transformConnectionPinPositions((ShapeTransformationType) t);
    for (auto &p : o.pins) {     // keep the duplicate-pin key in step with the new offsets (proportional pins: index i <-> 4 - i)
        long d = p.key % 2, rest = p.key / 2, yi = rest % 10, xi = (rest / 10) % 10, cls = rest / 100, nx = xi, ny = yi;
        if (t == TransformationType_CW90) { nx = 4 - yi; ny = xi; } else if (t == TransformationType_CW180) { nx = 4 - xi; ny = 4 - yi; }
        else if (t == TransformationType_CW270) { nx = yi; ny = 4 - xi; } else if (t == TransformationType_FlipX) nx = 4 - xi; else ny = 4 - yi;
        p.key = ((cls * 10 + nx) * 10 + ny) * 2 + d;
    }
    if (!o.pins.empty()) afterMutator(w);
}
static void opObstQuery(World &w, vh::Rng &g, ObstM &o) {
    if (o.junction) {
        JunctionRef *j = static_cast<JunctionRef *>(o.ptr);
        bool fix = g.coin();
        printf("op api obst %ld setPositionFixed %d\n", o.id, fix ? 1 : 0); flushLine();
        j->setPositionFixed(fix); (void) j->positionFixed(); (void) j->recommendedPosition(); (void) j->position();
    } else {
        printf("op api obst %ld queries\n", o.id); flushLine();
        ShapeRef *s = static_cast<ShapeRef *>(o.ptr);
        (void) s->position(); (void) s->polygon().size(); (void) s->attachedConnectors().size(); (void) s->routingBox(); (void) s->id();
    }
    (void) w;
}
static ConnM *findConnByPtr(World &w, ConnRef *p) { for (auto &c : w.conns) if (c.ptr == p) return &c; return nullptr; }
// ConnRef::splitAtSegment(n): new junction at the middle of segment n, new connector junction -> (copy of the old destination
// end), old destination := junction.  Main class: transactions on (with transactions off the new connector is routed with only
// its junction source set, kf-junction-halfconn-leak), nothing queued, and not the first / last segment of a connector that
// starts / ends at a free point (the junction would be axis-aligned with that point: kf-orth-junction-aligned-point).
// (Repaired in /repo: e53898e free-point destination = null m_dst_connend; 1afe4db second addJunction call.)
static bool opSplit(World &w, vh::Rng &g, ConnM &c) {
    size_t n = c.ptr->displayRoute().size();
    if (n < 3 && c.dstO < 0) return false;
    // the junction lands in the middle of segment `seg`: not on the first / last segment when that end is a free point
    size_t lo = c.srcO >= 0 ? 1 : 2, hi = c.dstO >= 0 ? n - 1 : n - 2;
    if (n < 2 || lo > hi || hi < 1) return false;
    size_t seg = (size_t) g.range((long) lo, (long) hi);
    long j = (long) w.r->newObjectId(), c2 = j + 1; long pid = 100000 + w.nextId++;
    if (w.usedIds.count(j) || w.usedIds.count(c2)) return false;      // (the router would reuse the id of an object whose addition is still queued)
    w.usedIds.insert(j); w.usedIds.insert(c2);
    printf("op splitAtSegment %ld %ld %ld %ld @ %zu\n", c.id, j, pid, c2, seg); flushLine();
    std::pair<JunctionRef *, ConnRef *> r = c.ptr->splitAtSegment(seg);
    if (!r.first || !r.second || (long) r.first->id() != j || (long) r.second->id() != c2) { printf("note splitAtSegment-unexpected-result\n"); flushLine(); abort(); }
    ObstM o; o.id = j; o.junction = true; o.ptr = r.first; o.pendingAdd = true; o.pendingRemove = false;
    PinM pm; pm.id = pid; pm.ptr = nullptr; pm.cls = 0; pm.key = -1; o.pins.push_back(pm);
    w.obst.push_back(o);
    ConnM cm; cm.id = c2; cm.ptr = r.second; cm.routerMade = false; cm.srcA = j; cm.srcO = j; cm.srcC = 0;
    cm.dstA = c.dstA; cm.dstO = c.dstO; cm.dstC = c.dstC;
    if (c.srcA >= 0) joinComp(w, j, c.srcA);
    if (c.dstA >= 0) joinComp(w, j, c.dstA);
    w.mentioned.insert(j); if (c.dstO >= 0) w.mentioned.insert(c.dstO);
    ConnM *cc = &c; cc->dstA = j; cc->dstO = j; cc->dstC = 0;
    w.conns.push_back(cm);      // (invalidates c)
    w.copiedEndQueued = true;
    afterMutator(w);
    return true;
}
// JunctionRef::removeJunctionAndMergeConnectors: the junction has exactly two connectors, both known, their other ends attached
// (a free-point other end makes the method return nullptr); the first ConnEnd of the junction's pointer-ordered set survives.
// The method itself calls Router::deleteJunction — the header comment telling the user to delete the junction afterwards is
// wrong (kf-merge-junction-doc-delete).
static bool opMerge(World &w, ObstM &o) {
    JunctionRef *j = static_cast<JunctionRef *>(o.ptr);
    ConnRefList at = j->attachedConnectors();
    if (at.size() != 2 || at.front() == at.back()) return false;
    ConnM *a = findConnByPtr(w, at.front()), *b = findConnByPtr(w, at.back());
    if (!a || !b || a->routerMade || b->routerMade) return false;
    for (ConnM *x : {a, b}) {
        int onJ = (x->srcO == o.id ? 1 : 0) + (x->dstO == o.id ? 1 : 0);
        long other = x->srcO == o.id ? x->dstO : x->srcO;
        if (onJ != 1 || other < 0) return false;
        ObstM *oo = findObst(w, other); if (!oo || oo->pendingRemove) return false;
    }
    {   // the merged connector must not end up with both ends on one obstacle (zero-length route, makepath.cpp:938)
        long oa = a->srcO == o.id ? a->dstO : a->srcO, ob = b->srcO == o.id ? b->dstO : b->srcO;
        if (oa == ob) return false;
    }
    printf("note mergeJunction %ld\n", o.id); flushLine();
    ConnRef *kept = j->removeJunctionAndMergeConnectors();
    if (!kept) { printf("note mergeJunction-returned-null\n"); flushLine(); abort(); }
    ConnM *k = findConnByPtr(w, kept), *d = (k == a) ? b : a;
    bool kDst = k->dstO == o.id;
    long other = d->srcO == o.id ? d->dstO : d->srcO; unsigned ocls = d->srcO == o.id ? d->dstC : d->srcC;
    long otherA = d->srcO == o.id ? d->dstA : d->srcA;
    printf("op mergeJunction %ld %ld %d %ld\n", o.id, k->id, kDst ? 1 : 0, d->id); flushLine();
    (kDst ? k->dstO : k->srcO) = other; (kDst ? k->dstC : k->srcC) = ocls; (kDst ? k->dstA : k->srcA) = otherA;
    if (k->srcA >= 0 && k->dstA >= 0) joinComp(w, k->srcA, k->dstA);
    w.mentioned.insert(other);
    long did = d->id;
    for (size_t i = 0; i < w.conns.size(); ++i) if (w.conns[i].id == did) { w.conns.erase(w.conns.begin() + i); break; }
    o.pendingRemove = true;
    w.copiedEndQueued = true;
    if (!w.consolidate) dropRemoved(w);
    afterMutator(w);
    return true;
}

static bool allActive(World &w) {
    for (auto &o : w.obst) if (o.pendingAdd) return false;
    // connectors become active when their first endpoint update is processed
    return !w.dirty || true;
}

// one strictly legal random history
static void routerHist(vh::Rng &g, bool big, bool allowMajor = false, bool allowHyper = false, bool allowRefClusters = false) {
    World w;
    w.orth = g.coin();
    unsigned flags = w.orth ? (g.coin(1, 2) ? (PolyLineRouting | OrthogonalRouting) : OrthogonalRouting) : PolyLineRouting;
    bool startOff = g.coin(1, 3);
    // improveHyperedgeRoutesMovingAddingAndDeletingJunctions is not exercised by the main class (allowMajor = false)
    bool wantMajor = w.orth && !startOff && g.coin(1, 4);
    w.majorHyper = allowMajor && wantMajor;
    printf("router %u\n", flags);
    w.r = new ProgressRouter(flags);
    w.flags = flags; w.polyCapable = (flags & PolyLineRouting) != 0;
    if (w.majorHyper) {
        printf("note majorHyperedgeImprovement\n");
        w.r->setRoutingOption(improveHyperedgeRoutesMovingAddingAndDeletingJunctions, true);
    }
    // clusters in two histories of three; which kind of boundary is legal depends on the router (see World::clusterMode)
    if (g.coin(2, 3)) {
        w.clusterMode = (!w.polyCapable || g.coin()) ? 1 : 2;
        // main class: free polygons; with polyline connectors around the penalty is pinned to 0 (makepath.cpp:385 wants every
        // boundary point to be a graph vertex), on orthogonal-only routers it takes any value
        if (w.clusterMode == 2 && !allowRefClusters) w.clusterMode = 1;
        if (w.clusterMode == 1 && w.polyCapable) {
            printf("op api router setRoutingParameter clusterCrossingPenalty 0\n"); flushLine();
            w.r->setRoutingParameter(clusterCrossingPenalty, 0);
        }
    }
    printf("note clusterMode %d\n", w.clusterMode);
    // every RoutingParameter / RoutingOption may start at 0, its default or another value
    for (long i = g.range(0, 5); i > 0; --i) opSetParam(w, g);
    for (long i = g.range(0, 3); i > 0; --i) opSetOption(w, g);
    if (startOff) opSetTransactionUse(w, false);
    int target = (int) g.range(5, big ? 60 : 40);
    observe(w);
    // number of connectors whose first endpoint change is still queued (inactive)
    for (int step = 0; step < target; ++step) {
        // weights of the currently legal operations
        std::vector<int> kinds;
        auto add = [&](int k, int wgt) { for (int i = 0; i < wgt; ++i) kinds.push_back(k); };
        size_t nShapes = 0, nJ = 0;
        for (auto &o : w.obst) if (!o.pendingRemove) { if (o.junction) nJ++; else nShapes++; }
        if (w.obst.size() < 7) { add(0, nShapes < 2 ? 6 : 2); add(1, nJ < 1 ? 3 : 1); }
        if (nShapes > 0) add(2, 3);
        if (w.conns.size() < 7) add(3, 4);
        if (!w.conns.empty()) { add(4, 2); add(5, 1); add(13, 3); }
        if (!w.obst.empty()) { add(6, 2); add(7, 3); add(8, 1); }
        if (w.consolidate) add(9, 4);
        if (w.consolidate && !w.obst.empty()) add(12, 2);
        if (!w.majorHyper) add(10, 1);
        // HyperedgeRerouter::registerHyperedgeForRerouting trips internal assertions on generated star hyperedges
        // (kf-hyperedge-leaf-junction, kf-hyperedge-mtst-assert); the main class keeps the weight (same random
        // sequence) but only performs the registration when allowHyper is set
        if (w.consolidate && w.orth && nJ > 0) add(11, 1);
        // round 6 operations
        add(14, 2); add(15, 1);
        if (w.clusterMode != 0 && w.clusters.size() < 4) add(16, w.clusters.empty() ? 3 : 1);
        if (!w.clusters.empty()) { add(17, 1); add(18, 1); }
        if (!w.conns.empty()) { add(19, 2); add(20, 1); add(21, 2); }
        if (!w.obst.empty()) { add(22, 1); add(23, 1); }
        if (w.consolidate && !w.conns.empty() && w.hyperIdx.empty()) add(24, 2);
        if (w.consolidate && nShapes >= 2 && w.hyperIdx.empty()) add(25, 2);
        int k = g.pick(kinds);
        bool done = false;
        switch (k) {
        case 0: opNewShape(w, g); done = true; break;
        case 1: opNewJunction(w, g); done = true; break;
        case 2: {
            // (with transactions off a new pin on a shape with attached connectors crashed before /repo f871b2f)
            std::vector<ObstM *> c; for (auto &o : w.obst) if (!o.junction && !o.pendingRemove && o.pins.size() < 4) c.push_back(&o);
            if (!c.empty()) { opNewPin(w, g, *g.pick(c)); done = true; }
            break; }
        case 3: opNewConn(w, g); done = true; break;
        case 4: {
            std::vector<ConnM *> c; for (auto &x : w.conns) if (!x.routerMade) c.push_back(&x);
            if (!c.empty()) { opSetEndpoint(w, g, *g.pick(c)); done = true; }
            break; }
        case 5: opDeleteConn(w, (size_t) g.range(0, (long) w.conns.size() - 1)); done = true; break;
        case 6: {   // delete obstacle (strictly legal: no queued add, not named by a queued ConnEnd)
            std::vector<ObstM *> c;
            for (auto &o : w.obst) {
                if (o.pendingRemove || o.pendingAdd || w.mentioned.count(o.id)) continue;
                // a cluster boundary that references this shape's vertices keeps raw pointers into it (kf-cluster-refs-deleted-shape)
                if (referencedByCluster(w, o.id)) continue;
                c.push_back(&o);
            }
            if (!c.empty()) { opDeleteObst(w, *g.pick(c)); done = true; }
            break; }
        case 7: {   // move obstacle
            std::vector<ObstM *> c;
            for (auto &o : w.obst) {
                if (o.pendingRemove) continue;
                c.push_back(&o);
            }
            if (!c.empty()) { opMoveObst(w, g, *g.pick(c)); done = true; }
            break; }
        case 8: {   // delete a pin of a shape directly (tests/connectionpin02.cpp does)
            std::vector<std::pair<ObstM *, size_t> > c;
            if (!w.copiedEndQueued) for (auto &o : w.obst) if (!o.junction && !o.pendingRemove) for (size_t i = 0; i < o.pins.size(); ++i) c.push_back(std::make_pair(&o, i));
            if (!c.empty()) { std::pair<ObstM *, size_t> p = g.pick(c); opDeletePin(w, *p.first, p.second); done = true; }
            break; }
        case 9: opProcess(w); done = true; break;
        case 13: {  // (re)set routing checkpoints; half of the time twice in a row on the same connector (replace, then
                    // replace/remove again) so that the vertices of the first call have to be released by the second
            std::vector<ConnM *> c; for (auto &x : w.conns) if (!x.routerMade) c.push_back(&x);
            if (c.empty()) break;
            ConnM *cm = g.pick(c);
            opSetCheckpoints(w, g, *cm, (int) g.range(0, 3));
            if (g.coin()) { w.nops++; observe(w); opSetCheckpoints(w, g, *cm, g.coin() ? 0 : (int) g.range(1, 3)); }
            done = true;
            break; }
        case 12: {  // move an obstacle and delete it in the same pending transaction (deleteShape/deleteJunction must drop the queued move)
            std::vector<ObstM *> c;
            for (auto &o : w.obst) if (!o.pendingRemove && !o.pendingAdd && !w.mentioned.count(o.id) && !referencedByCluster(w, o.id)) c.push_back(&o);
            if (!c.empty()) { ObstM *o = g.pick(c); opMoveObst(w, g, *o); w.nops++; observe(w); opDeleteObst(w, *o); done = true; }
            break; }
        case 10: {
            if (w.consolidate) { if (w.hyperIdx.empty()) { opSetTransactionUse(w, false); done = true; } }   // queued work is processed by the next mutator
            else { opSetTransactionUse(w, true); done = true; }
            break; }
        case 11: {  // register a hyperedge for rerouting through one of its junctions
            if (!allowHyper || w.dirty || !w.hyperIdx.empty()) break;
            std::vector<ObstM *> c;
            // only star-shaped hyperedges (one junction, >= 3 connectors whose other ends are not junctions): a junction of
            // degree 1 inside a registered hyperedge trips hyperedge.cpp:333 COLA_ASSERT(treeRoot) (kf-hyperedge-leaf-junction)
            for (auto &o : w.obst) if (o.junction && !o.pendingRemove && !o.pendingAdd) {
                ConnRefList at = o.ptr->attachedConnectors();
                bool star = at.size() >= 3;
                for (ConnRefList::iterator it = at.begin(); it != at.end() && star; ++it) {
                    std::pair<ConnEnd, ConnEnd> e = (*it)->endpointConnEnds();
                    int nj = (e.first.junction() ? 1 : 0) + (e.second.junction() ? 1 : 0);
                    if (nj != 1) star = false;
                }
                if (star) c.push_back(&o);
            }
            if (c.empty()) break;
            ObstM *o = g.pick(c);
            printf("op registerHyperedge %ld\n", o->id); flushLine();
            w.hyperIdx.push_back(w.r->hyperedgeRerouter()->registerHyperedgeForRerouting(static_cast<JunctionRef *>(o->ptr)));
            opProcess(w);
            done = true;
            break; }
        case 14: if (g.coin()) opSetParam(w, g); else opSetOption(w, g); done = true; break;
        case 15: opRouterQuery(w, g); done = true; break;
        case 16: { size_t n0 = w.clusters.size(); opNewCluster(w, g); done = w.clusters.size() > n0; break; }
        case 17: opSetClusterPoly(w, g, w.clusters[(size_t) g.range(0, (long) w.clusters.size() - 1)]); done = true; break;
        case 18: opDeleteCluster(w, (size_t) g.range(0, (long) w.clusters.size() - 1)); done = true; break;
        case 19: {
            std::vector<ConnM *> c; for (auto &x : w.conns) if (!x.routerMade) c.push_back(&x);
            if (!c.empty()) { opSetRoutingType(w, g, *g.pick(c)); done = true; }
            break; }
        case 20: opConnQuery(w, w.conns[(size_t) g.range(0, (long) w.conns.size() - 1)]); done = true; break;
        case 21: {  // fixed routes: set an explicit one, pin the existing one (needs a route), clear
            std::vector<ConnM *> c; for (auto &x : w.conns) if (!x.routerMade) c.push_back(&x);
            if (c.empty()) break;
            ConnM *cm = g.pick(c);
            int what = (int) g.range(0, 2);
            if (cm->fixedRoute) { opClearFixed(w, *cm); done = true; }
            else if (what == 0) { opSetFixedRoute(w, g, *cm); done = true; }
            else if (what == 1 && !w.dirty && cm->ptr->route().size() >= 2) { opFixExisting(w, *cm); done = true; }
            break; }
        case 22: {
            std::vector<ObstM *> c;
            for (auto &o : w.obst) if (!o.junction && !o.pendingRemove) { bool allProp = true; for (auto &q : o.pins) if (!q.prop) allProp = false; if (allProp) c.push_back(&o); }
            if (!c.empty()) { opTransformPins(w, g, *g.pick(c)); done = true; }
            break; }
        case 23: {
            std::vector<ObstM *> c; for (auto &o : w.obst) if (!o.pendingRemove) c.push_back(&o);
            if (!c.empty()) { opObstQuery(w, g, *g.pick(c)); done = true; }
            break; }
        case 24: {
            if (w.dirty) { opProcess(w); w.nops++; observe(w); }      // split and merge start from a processed scene
            std::vector<size_t> c;
            for (size_t i = 0; i < w.conns.size(); ++i) if (!w.conns[i].routerMade && !w.conns[i].fixedRoute) c.push_back(i);
            if (!c.empty() && w.obst.size() < 9) done = opSplit(w, g, w.conns[g.pick(c)]);
            break; }
        case 25: {  // removeJunctionAndMergeConnectors: on a junction that happens to qualify, else on a freshly built S1 - J - S2 chain
            if (w.dirty) { opProcess(w); w.nops++; observe(w); }
            std::vector<ObstM *> c; for (auto &o : w.obst) if (o.junction && !o.pendingRemove && !o.pendingAdd) c.push_back(&o);
            for (size_t i = 0; i < c.size() && !done; ++i) done = opMerge(w, *c[i]);
            if (done || w.obst.size() >= 8 || w.conns.size() >= 7) break;
            std::vector<ObstM *> sh; for (auto &o : w.obst) if (!o.junction && !o.pendingRemove && !o.pendingAdd) sh.push_back(&o);
            if (sh.size() < 2) break;
            ObstM *s1 = g.pick(sh), *s2 = g.pick(sh);
            if (s1 == s2) s2 = (s1 == sh[0]) ? sh[1] : sh[0];
            for (ObstM *sx : {s1, s2}) if (sx->pins.empty()) { opNewPin(w, g, *sx); w.nops++; observe(w); }
            long id1 = s1->id, id2 = s2->id; unsigned c1 = s1->pins[0].cls, c2 = s2->pins[0].cls;
            opNewJunction(w, g); w.nops++; observe(w);
            long jid = w.obst.back().id;
            EndChoice ej; ej.attached = true; ej.obj = jid; ej.cls = 0;
            EndChoice e1; e1.attached = true; e1.obj = id1; e1.cls = c1;
            EndChoice e2; e2.attached = true; e2.obj = id2; e2.cls = c2;
            opNewConn(w, g, &e1, &ej); w.nops++; observe(w);
            opNewConn(w, g, &ej, &e2); w.nops++; observe(w);
            opProcess(w); w.nops++; observe(w);
            ObstM *jo = findObst(w, jid);
            if (jo) done = opMerge(w, *jo);
            if (!done) { w.nops--; done = true; }       // (the steps above were observed already)
            break; }
        }
        if (done) { w.nops++; observe(w); }
    }
    // some histories delete their clusters first, the others leave them to ~Router
    if (!w.clusters.empty() && g.coin(1, 3)) while (!w.clusters.empty()) { opDeleteCluster(w, w.clusters.size() - 1); w.nops++; observe(w); }
    // tear-down: ~Router frees what is in its lists; a queued (never processed) addition would leak
    // (known-finding class kf-destroy-queued-add), so finish such transactions first; other queued
    // work (moves, removals, endpoint changes of active connectors) stays queued in half of the cases
    bool needProcess = false;
    for (auto &o : w.obst) if (o.pendingAdd) needProcess = true;
    for (ConnM &c : w.conns) {
        bool active = false;
        for (ConnRefList::const_iterator it = w.r->connRefs.begin(); it != w.r->connRefs.end(); ++it) if (*it == c.ptr) active = true;
        if (!active) needProcess = true;
    }
    if (!w.consolidate && g.coin()) opSetTransactionUse(w, true);
    if (needProcess || (w.consolidate && g.coin())) { opProcess(w); observe(w); }
    printf("queued %d\n", w.dirty ? 1 : 0);
    opDeleteRouter(w);
    (void) allActive;
}


// ---------------------------------------------------------------- script replay
// Executes the `router` / `op` lines of a history (exactly the lines this harness prints; every other line is skipped, so a
// failing case cut out of the stream is a script) against the library: deterministic replays that do not depend on the
// generator.  Used by the kf-* steps of the round-6 findings and by `--mode kf-script` (file named by $C15_SCRIPT).
struct Script {
    World w;
    std::map<long, ShapeConnectionPin *> pins;
    static std::vector<std::string> split(const std::string &l) {
        std::vector<std::string> t; size_t i = 0;
        while (i < l.size()) { while (i < l.size() && l[i] == ' ') ++i; size_t j = i; while (j < l.size() && l[j] != ' ') ++j; if (j > i) t.push_back(l.substr(i, j - i)); i = j; }
        return t;
    }
    static double D(const std::vector<std::string> &t, size_t i) { return i < t.size() ? atof(t[i].c_str()) : 0.0; }
    static long L(const std::vector<std::string> &t, size_t i) { return i < t.size() ? atol(t[i].c_str()) : 0; }
    static size_t find(const std::vector<std::string> &t, const char *k) { for (size_t i = 0; i < t.size(); ++i) if (t[i] == k) return i; return t.size(); }
    ConnM *conn(long id) { for (auto &c : w.conns) if (c.id == id) return &c; return nullptr; }
    ConnEnd end(const std::vector<std::string> &t, size_t &i, unsigned dirs) {
        if (t[i] == "P") { Point p(D(t, i + 1), D(t, i + 2)); i += 3; return dirs == ConnDirAll ? ConnEnd(p) : ConnEnd(p, (ConnDirFlags) dirs); }
        ObstM *o = findObst(w, L(t, i + 1)); unsigned cls = (unsigned) L(t, i + 2); i += 3;
        if (!o) { printf("note script: unknown obstacle\n"); flushLine(); abort(); }
        if (o->junction) return ConnEnd(static_cast<JunctionRef *>(o->ptr));
        return ConnEnd(static_cast<ShapeRef *>(o->ptr), cls);
    }
    Polygon poly(const std::vector<std::string> &t) {
        size_t c = find(t, ":") + 1; size_t n = (t.size() - c) / 4;
        Polygon pg((int) n);
        for (size_t k = 0; k < n; ++k) { Point q(D(t, c + 4 * k), D(t, c + 4 * k + 1)); q.id = (unsigned) L(t, c + 4 * k + 2); q.vn = (unsigned short) L(t, c + 4 * k + 3); pg.ps[k] = q; }
        return pg;
    }
    void dropGone() {      // obstacles whose removal has been processed
        if (!w.r) return;
        std::vector<ObstM> keep;
        for (auto &o : w.obst) { if (!o.pendingRemove) { keep.push_back(o); continue; } for (auto &p : o.pins) pins.erase(p.id); }
        w.obst.swap(keep);
    }
    void op(const std::vector<std::string> &t) {
        const std::string &k = t[1];
        Router *r = w.r;
        if (k == "setTransactionUse") { w.consolidate = L(t, 2) == 1; r->setTransactionUse(w.consolidate); }
        else if (k == "processTransaction") { r->processTransaction(); dropGone(); }
        else if (k == "deleteRouter") { delete r; w.r = nullptr; }
        else if (k == "newShape") {
            Rectangle rc(Point(D(t, 4), D(t, 5)), Point(D(t, 6), D(t, 7)));
            ObstM o; o.id = L(t, 2); o.junction = false; o.pendingAdd = o.pendingRemove = false; o.ptr = new ShapeRef(r, rc, (unsigned) o.id); w.obst.push_back(o);
        } else if (k == "newJunction") {
            ObstM o; o.id = L(t, 2); o.junction = true; o.pendingAdd = o.pendingRemove = false; o.ptr = new JunctionRef(r, Point(D(t, 5), D(t, 6)), (unsigned) o.id); w.obst.push_back(o);
        } else if (k == "newPin") {
            ObstM *o = findObst(w, L(t, 3));
            bool prop = t.size() > 9 ? L(t, 9) == 1 : true;
            ShapeConnectionPin *p = new ShapeConnectionPin(static_cast<ShapeRef *>(o->ptr), (unsigned) L(t, 4), D(t, 6), D(t, 7), prop, D(t, 10), (ConnDirFlags) L(t, 8));
            if (L(t, 11) == 1) p->setExclusive(false);
            if (t.size() > 12 && D(t, 12) >= 0) p->setConnectionCost(D(t, 12));
            pins[L(t, 2)] = p; PinM pm; pm.id = L(t, 2); pm.ptr = p; pm.cls = (unsigned) L(t, 4); pm.key = -1; o->pins.push_back(pm);
        } else if (k == "newConn") {
            size_t di = find(t, "@dirs"), oi = find(t, "@opts");
            unsigned da = di < t.size() ? (unsigned) L(t, di + 1) : ConnDirAll, db = di < t.size() ? (unsigned) L(t, di + 2) : ConnDirAll;
            size_t i = 4; ConnEnd a = end(t, i, da); ConnEnd b = end(t, i, db);
            ConnRef *c;
            if (L(t, 3) == 1) c = new ConnRef(r, a, b, (unsigned) L(t, 2)); else { c = new ConnRef(r, (unsigned) L(t, 2)); c->setEndpoints(a, b); }
            if (oi < t.size()) { if (L(t, oi + 1) == 1) c->setRoutingType(ConnType_Orthogonal); if (L(t, oi + 2) == 1) c->setCallback(connCallback, &w.callbacks); if (L(t, oi + 3) >= 0) c->setHateCrossings(L(t, oi + 3) == 1); }
            ConnM cm; cm.id = L(t, 2); cm.ptr = c; cm.routerMade = false; cm.srcA = cm.dstA = cm.srcO = cm.dstO = -1; w.conns.push_back(cm);
        } else if (k == "setEndpoint") {
            size_t di = find(t, "@dirs"); unsigned d = di < t.size() ? (unsigned) L(t, di + 1) : ConnDirAll;
            size_t i = 4; ConnEnd e = end(t, i, d);
            if (L(t, 3) == 1) conn(L(t, 2))->ptr->setDestEndpoint(e); else conn(L(t, 2))->ptr->setSourceEndpoint(e);
        } else if (k == "setRoutingCheckpoints") {
            size_t n = (size_t) L(t, 3), c = find(t, "@") + 1; std::vector<Checkpoint> cps;
            for (size_t q = 0; q < n; ++q) cps.push_back(Checkpoint(Point(D(t, c + 2 * q), D(t, c + 2 * q + 1))));
            conn(L(t, 2))->ptr->setRoutingCheckpoints(cps);
        } else if (k == "deleteConn") {
            for (size_t i = 0; i < w.conns.size(); ++i) if (w.conns[i].id == L(t, 2)) { r->deleteConnector(w.conns[i].ptr); w.conns.erase(w.conns.begin() + i); break; }
        } else if (k == "deleteShape" || k == "deleteJunction") {
            ObstM *o = findObst(w, L(t, 2));
            if (o->junction) r->deleteJunction(static_cast<JunctionRef *>(o->ptr)); else r->deleteShape(static_cast<ShapeRef *>(o->ptr));
            o->pendingRemove = true; if (!w.consolidate) dropGone();
        } else if (k == "deletePin") {
            delete pins[L(t, 2)]; pins.erase(L(t, 2));
            for (auto &o : w.obst) for (size_t i = 0; i < o.pins.size(); ++i) if (o.pins[i].id == L(t, 2)) { o.pins.erase(o.pins.begin() + i); break; }
        } else if (k == "moveJunction") r->moveJunction(static_cast<JunctionRef *>(findObst(w, L(t, 2))->ptr), D(t, 4), D(t, 5));
        else if (k == "moveShape") {
            ShapeRef *sh = static_cast<ShapeRef *>(findObst(w, L(t, 2))->ptr); double dx = D(t, 4), dy = D(t, 5); long v = L(t, 6);
            if (v == 0) r->moveShape(sh, dx, dy);
            else if (v == 1) { Polygon np = sh->polygon(); np.translate(dx, dy); r->moveShape(sh, np); }
            else { Box bb = sh->polygon().offsetBoundingBox(0.0); Rectangle np(Point(bb.min.x + dx, bb.min.y + dy), Point(bb.min.x + dx + D(t, 7), bb.min.y + dy + D(t, 8))); r->moveShape(sh, np, L(t, 9) == 1); }
        } else if (k == "newCluster") {
            Polygon pg = poly(t); ClusterM c; c.id = L(t, 2); c.ptr = new ClusterRef(r, pg, (unsigned) c.id); w.clusters.push_back(c);
        } else if (k == "setClusterPoly") {
            Polygon pg = poly(t); for (auto &c : w.clusters) if (c.id == L(t, 2)) c.ptr->setNewPoly(pg);
        } else if (k == "deleteCluster") {
            for (size_t i = 0; i < w.clusters.size(); ++i) if (w.clusters[i].id == L(t, 2)) { r->deleteCluster(w.clusters[i].ptr); w.clusters.erase(w.clusters.begin() + i); break; }
        } else if (k == "touchConn") conn(L(t, 2))->ptr->setRoutingType((ConnType) L(t, 5));
        else if (k == "transformPins") static_cast<ShapeRef *>(findObst(w, L(t, 2))->ptr)->transformConnectionPinPositions((ShapeTransformationType) L(t, 3));
        else if (k == "splitAtSegment") {
            std::pair<JunctionRef *, ConnRef *> x = conn(L(t, 2))->ptr->splitAtSegment((size_t) L(t, 7));
            if (x.first) { ObstM o; o.id = x.first->id(); o.junction = true; o.pendingAdd = o.pendingRemove = false; o.ptr = x.first; w.obst.push_back(o); }
            if (x.second) { ConnM cm; cm.id = x.second->id(); cm.ptr = x.second; cm.routerMade = false; cm.srcA = cm.dstA = cm.srcO = cm.dstO = -1; w.conns.push_back(cm); }
        } else if (k == "mergeJunction") {
            ObstM *o = findObst(w, L(t, 2));
            ConnRef *kept = static_cast<JunctionRef *>(o->ptr)->removeJunctionAndMergeConnectors();
            // (which of the two connectors survives depends on the pointer order of the junction's ConnEnd set)
            if (kept) { for (size_t i = 0; i < w.conns.size(); ++i) if ((w.conns[i].id == L(t, 5) || w.conns[i].id == L(t, 3)) && w.conns[i].ptr != kept) { w.conns.erase(w.conns.begin() + i); break; } o->pendingRemove = true; if (!w.consolidate) dropGone(); }
        } else if (k == "registerHyperedge") r->hyperedgeRerouter()->registerHyperedgeForRerouting(static_cast<JunctionRef *>(findObst(w, L(t, 2))->ptr));
        else if (k == "api" && t[2] == "router") {
            const std::string &f = t[3];
            int p = -1; if (t.size() > 4) for (int q = 0; q < lastRoutingParameterMarker; ++q) if (t[4] == paramName(q)) p = q;
            if (f == "setRoutingParameter") r->setRoutingParameter((RoutingParameter) p, D(t, 5));
            else if (f == "setRoutingPenalty") r->setRoutingPenalty((RoutingParameter) p);
            else if (f == "setRoutingOption") r->setRoutingOption((RoutingOption) L(t, 4), L(t, 5) == 1);
            else if (f == "abortTransactionAfter") { ProgressRouter *pr = static_cast<ProgressRouter *>(r); pr->abortAfter = L(t, 4); pr->calls = 0; }
            else if (f == "existsQueries") { (void) r->existsOrthogonalSegmentOverlap(); (void) r->existsOrthogonalTouchingPaths(); (void) r->existsCrossings(); (void) r->existsInvalidOrthogonalPaths(); }
            else if (f == "outputInstanceToSVG" || f == "outputDiagramText") {
                char base[128]; snprintf(base, sizeof base, "/var/tmp/c15-harness-%d", (int) getpid());
                if (f == "outputInstanceToSVG") r->outputInstanceToSVG(base); else r->outputDiagramText(base);
                unlink((std::string(base) + ".svg").c_str()); unlink((std::string(base) + ".txt").c_str());
            }
        } else if (k == "api" && t[2] == "conn") {
            ConnRef *c = conn(L(t, 3))->ptr; const std::string &f = t[4];
            if (f == "setRoutingType") c->setRoutingType((ConnType) L(t, 5));
            else if (f == "setFixedRoute") { PolyLine rt; size_t q = find(t, "@") + 1; for (; q + 1 < t.size(); q += 2) rt.ps.push_back(Point(D(t, q), D(t, q + 1))); c->setFixedRoute(rt); }
            else if (f == "setFixedExistingRoute") c->setFixedExistingRoute();
            else if (f == "clearFixedRoute") c->clearFixedRoute();
            else { (void) c->route().size(); (void) c->displayRoute().size(); }
        } else if (k == "api" && t[2] == "obst") {
            ObstM *o = findObst(w, L(t, 3));
            if (t[4] == "setPositionFixed" && o && o->junction) static_cast<JunctionRef *>(o->ptr)->setPositionFixed(L(t, 5) == 1);
        } else { printf("note script: unknown op %s\n", k.c_str()); flushLine(); abort(); }
    }
    void run(const std::vector<std::string> &lines) {
        size_t n = 0;
        while (n < lines.size()) {
            std::vector<std::string> t = split(lines[n]);
            // `setEndpoint c 0 P..` + `setEndpoint c 1 P..` + `api conn c setFixedRoute` are ONE call (ConnRef::setFixedRoute)
            bool fixedTriple = t.size() > 1 && t[0] == "op" && t[1] == "setEndpoint" && n + 2 < lines.size() && lines[n + 2].find(" setFixedRoute ") != std::string::npos;
            if (t.empty() || (t[0] != "op" && t[0] != "router")) { ++n; continue; }
            if (t[0] == "router") { printf("%s\n", lines[n].c_str()); flushLine(); w.r = new ProgressRouter((unsigned) L(t, 1)); ++n; continue; }
            if (!w.r) { ++n; continue; }
            if (fixedTriple) { printf("%s\n%s\n%s\n", lines[n].c_str(), lines[n + 1].c_str(), lines[n + 2].c_str()); flushLine(); op(split(lines[n + 2])); n += 3; }
            else { printf("%s\n", lines[n].c_str()); flushLine(); op(t); ++n; }
            if (w.r) observe(w);
        }
        if (w.r) { printf("op deleteRouter\n"); flushLine(); delete w.r; w.r = nullptr; }
    }
};
static void runScriptText(const char *text) {
    std::vector<std::string> lines; std::string cur;
    for (const char *p = text; *p; ++p) { if (*p == '\n') { lines.push_back(cur); cur.clear(); } else cur += *p; }
    if (!cur.empty()) lines.push_back(cur);
    Script sc; sc.run(lines);
}
static void runScriptFile(const char *path) {
    FILE *f = fopen(path, "r"); if (!f) { printf("note script: cannot open file\n"); return; }
    std::string text; char buf[4096]; size_t n; while ((n = fread(buf, 1, sizeof buf, f)) > 0) text.append(buf, n); fclose(f);
    runScriptText(text.c_str());
}

// ---------------------------------------------------------------- known-finding classes
static Rectangle R10(double x, double y) { return Rectangle(Point(x, y), Point(x + 10, y + 10)); }

static void kfCase(const std::string &name) {
    Router *r = new Router(PolyLineRouting);
    printf("router %u\n", (unsigned) PolyLineRouting);
    if (name == "kf-destroy-queued-add") {
        // K1: ~Router frees only the members of m_obstacles/connRefs; a shape whose ShapeAdd is still queued is neither
        Rectangle p = R10(0, 0);
        printf("op newShape 1\n"); flushLine();
        new ShapeRef(r, p, 1);
        printf("op deleteRouter\n"); flushLine();
        delete r;
    } else if (name == "kf-delete-queued-add") {
        // K2: COLA_ASSERT(no ShapeAdd queued) in Router::deleteShape (router.cpp:286)
        Rectangle p = R10(0, 0);
        printf("op newShape 1\n"); flushLine();
        ShapeRef *s = new ShapeRef(r, p, 1);
        printf("op deleteShape 1\n"); flushLine();
        r->deleteShape(s);
        printf("op processTransaction\n"); flushLine();
        r->processTransaction();
        printf("op deleteRouter\n"); flushLine();
        delete r;
    } else if (name == "kf-notrans-delete-junction") {
        // K3: processTransaction re-entered from ~ShapeConnectionPin via Router::modifyConnectionPin
        printf("op setTransactionUse 0\n"); flushLine();
        r->setTransactionUse(false);
        printf("op newJunction 1 2\n"); flushLine();
        JunctionRef *j = new JunctionRef(r, Point(10, 10), 1);
        printf("op deleteJunction 1\n"); flushLine();
        r->deleteJunction(j);
        printf("op deleteRouter\n"); flushLine();
        delete r;
    } else if (name == "kf-notrans-move-attached") {
        // K3: processTransaction re-entered from moveAttachedConns via Router::modifyConnector (unbounded recursion)
        printf("op setTransactionUse 0\n"); flushLine();
        r->setTransactionUse(false);
        Rectangle p = R10(0, 0);
        printf("op newShape 1\n"); flushLine();
        ShapeRef *s = new ShapeRef(r, p, 1);
        printf("op newPin 2 1 1\n"); flushLine();
        new ShapeConnectionPin(s, 1, 0.5, 0.5, true, 0, ConnDirAll);
        printf("op newConn 3 0 A 1 1 P 50 50\n"); flushLine();
        ConnRef *c = new ConnRef(r, 3); c->setEndpoints(ConnEnd(s, 1), ConnEnd(Point(50, 50)));
        printf("op moveShape 1\n"); flushLine();
        r->moveShape(s, 5, 5);
        printf("op deleteRouter\n"); flushLine();
        delete r;
    } else if (name == "kf-endpoint-to-deleted") {
        // K4: queued ConnEnd names a shape that is freed earlier in the same processActions
        Rectangle p = R10(0, 0);
        printf("op newShape 1\n"); flushLine();
        ShapeRef *s = new ShapeRef(r, p, 1);
        printf("op newPin 2 1 1\n"); flushLine();
        new ShapeConnectionPin(s, 1, 0.5, 0.5, true, 0, ConnDirAll);
        printf("op newConn 3 1 P -20 -20 P 50 50\n"); flushLine();
        ConnRef *c = new ConnRef(r, ConnEnd(Point(-20, -20)), ConnEnd(Point(50, 50)), 3);
        printf("op processTransaction\n"); flushLine();
        r->processTransaction();
        printf("op setEndpoint 3 0 A 1 1\n"); flushLine();
        c->setSourceEndpoint(ConnEnd(s, 1));
        printf("op deleteShape 1\n"); flushLine();
        r->deleteShape(s);
        printf("op processTransaction\n"); flushLine();
        r->processTransaction();
        printf("op deleteRouter\n"); flushLine();
        delete r;
    } else if (name == "kf-notrans-conn-ctor") {
        // K5: ConnRef(router, src, dst) calls setEndpoints (=> processTransaction) before m_reroute_flag_ptr is assigned
        printf("op setTransactionUse 0\n"); flushLine();
        r->setTransactionUse(false);
        printf("op newConn 1 1 P 0 0 P 50 50\n"); flushLine();
        new ConnRef(r, ConnEnd(Point(0, 0)), ConnEnd(Point(50, 50)), 1);
        printf("op deleteRouter\n"); flushLine();
        delete r;
    } else if (name == "kf-junction-halfconn-leak") {
        // K6: HyperedgeImprover::execute allocates a HyperedgeTreeNode for the non-junction end of a connector
        // attached to a junction and never links/frees it when the connector has no route yet
        printf("op setTransactionUse 0\n"); flushLine();
        r->setTransactionUse(false);
        printf("op newJunction 1 2\n"); flushLine();
        JunctionRef *j = new JunctionRef(r, Point(10, 10), 1);
        printf("op newConn 3 0 A 1 0 P 50 50\n"); flushLine();
        ConnRef *c = new ConnRef(r, 3); c->setEndpoints(ConnEnd(j), ConnEnd(Point(50, 50)));
        printf("op deleteRouter\n"); flushLine();
        delete r;
    } else if (name == "kf-conn-loop-on-junction") {
        // K7: both ends of one connector on the same junction: HyperedgeImprover::execute computes seenBack before
        // registering the front node, allocates a second node for the same junction and loses the first
        printf("op newJunction 1 2\n"); flushLine();
        JunctionRef *j = new JunctionRef(r, Point(10, 10), 1);
        printf("op newConn 3 1 A 1 0 A 1 0\n"); flushLine();
        new ConnRef(r, ConnEnd(j), ConnEnd(j), 3);
        printf("op processTransaction\n"); flushLine();
        r->processTransaction();
        printf("op deleteRouter\n"); flushLine();
        delete r;
    } else if (name == "kf-notrans-new-pin") {
        // K8: ShapeConnectionPin's constructor registers the pin (=> processTransaction with transactions off) before
        // m_vertex is created; a connector attached to that shape and class is rerouted through the null vertex
        printf("op setTransactionUse 0\n"); flushLine();
        r->setTransactionUse(false);
        Rectangle p = R10(0, 0);
        printf("op newShape 1\n"); flushLine();
        ShapeRef *s = new ShapeRef(r, p, 1);
        printf("op newPin 2 1 1\n"); flushLine();
        new ShapeConnectionPin(s, 1, 0.5, 0.5, true, 0, ConnDirAll);
        printf("op newConn 3 0 A 1 1 P 50 50\n"); flushLine();
        ConnRef *c = new ConnRef(r, 3); c->setEndpoints(ConnEnd(s, 1), ConnEnd(Point(50, 50)));
        printf("op newPin 4 1 1\n"); flushLine();
        new ShapeConnectionPin(s, 1, 0.25, 0.5, true, 0, ConnDirAll);
        printf("op deleteRouter\n"); flushLine();
        delete r;
    } else if (name == "kf-duplicate-pin") {
        // K9: two pins of one shape with equal class, offsets and directions: the second is not inserted into the
        // owner's std::set (ordered by value), so ~Obstacle never frees it
        Rectangle p = R10(0, 0);
        printf("op newShape 1\n"); flushLine();
        ShapeRef *s = new ShapeRef(r, p, 1);
        printf("op newPin 2 1 1\n"); flushLine();
        new ShapeConnectionPin(s, 1, 0.5, 0.5, true, 0, ConnDirAll);
        printf("op newPin 3 1 1\n"); flushLine();
        new ShapeConnectionPin(s, 1, 0.5, 0.5, true, 0, ConnDirAll);
        printf("op processTransaction\n"); flushLine();
        r->processTransaction();
        printf("op deleteRouter\n"); flushLine();
        delete r;
    } else if (name == "kf-cyclic-hyperedge") {
        // K10: two junctions joined by two connectors: "Skipping cyclic hyperedge" drops the root without freeing the tree
        printf("op newJunction 1 2\n"); flushLine();
        JunctionRef *j1 = new JunctionRef(r, Point(10, 10), 1);
        printf("op newJunction 3 4\n"); flushLine();
        JunctionRef *j2 = new JunctionRef(r, Point(60, 40), 3);
        printf("op newConn 5 1 A 1 0 A 3 0\n"); flushLine();
        new ConnRef(r, ConnEnd(j1), ConnEnd(j2), 5);
        printf("op newConn 6 1 A 3 0 A 1 0\n"); flushLine();
        new ConnRef(r, ConnEnd(j2), ConnEnd(j1), 6);
        printf("op processTransaction\n"); flushLine();
        r->processTransaction();
        printf("op deleteRouter\n"); flushLine();
        delete r;
    } else if (name == "kf-orth-junction-aligned-point") {
        // K11: orthogonal connector from a junction to a free point with the same x: A* start-up calls
        // determineEndPointLocation for a zero-length visibility edge (makepath.cpp:938 assertion)
        delete r; r = new Router(OrthogonalRouting);
        printf("op newJunction 1 2 @ 100 90\n"); flushLine();
        JunctionRef *j = new JunctionRef(r, Point(100, 90), 1);
        printf("op newConn 3 0 A 1 0 P 100 185\n"); flushLine();
        ConnRef *c = new ConnRef(r, 3); c->setEndpoints(ConnEnd(j), ConnEnd(Point(100, 185)));
        printf("op processTransaction\n"); flushLine();
        r->processTransaction();
        printf("op deleteRouter\n"); flushLine();
        delete r;
    } else if (name == "kf-hyperedge-leaf-junction") {
        // K12: registered hyperedge containing a junction with a single connector: COLA_ASSERT(treeRoot), hyperedge.cpp:333
        delete r; r = new Router(OrthogonalRouting);
        printf("op newJunction 4 5 @ 50 205\n"); flushLine();
        JunctionRef *j4 = new JunctionRef(r, Point(50, 205), 4);
        printf("op newConn 1 0 P -9 91 A 4 0\n"); flushLine();
        ConnRef *c1 = new ConnRef(r, 1); c1->setEndpoints(ConnEnd(Point(-9, 91)), ConnEnd(j4));
        printf("op newConn 6 0 P 151 -39 A 4 0\n"); flushLine();
        ConnRef *c6 = new ConnRef(r, 6); c6->setEndpoints(ConnEnd(Point(151, -39)), ConnEnd(j4));
        printf("op newJunction 7 8 @ 180 475\n"); flushLine();
        JunctionRef *j7 = new JunctionRef(r, Point(180, 475), 7);
        printf("op newConn 9 1 A 7 0 A 4 0\n"); flushLine();
        new ConnRef(r, ConnEnd(j7), ConnEnd(j4), 9);
        printf("op processTransaction\n"); flushLine();
        r->processTransaction();
        printf("op registerHyperedge 4\n"); flushLine();
        r->hyperedgeRerouter()->registerHyperedgeForRerouting(j4);
        printf("op processTransaction\n"); flushLine();
        r->processTransaction();
        printf("op deleteRouter\n"); flushLine();
        delete r;
    } else if (name == "kf-merge-junction-doc-delete") {
        // F6: junction.h used to tell the user to delete the junction after removeJunctionAndMergeConnectors() and the next
        // transaction although the method calls Router::deleteJunction itself (following the header freed the junction twice);
        // header corrected in /repo 66472ee.  The step replays the call as now documented: the router frees the junction.
        delete r; r = new Router(OrthogonalRouting);
        Rectangle a = R10(0, 0), b = R10(100, 60);
        printf("op newShape 1\n"); flushLine();
        ShapeRef *s1 = new ShapeRef(r, a, 1);
        printf("op newShape 2\n"); flushLine();
        ShapeRef *s2 = new ShapeRef(r, b, 2);
        printf("op newPin 100001 1 1\n"); flushLine();
        new ShapeConnectionPin(s1, 1, 0.5, 0.5, true, 0, ConnDirAll);
        printf("op newPin 100002 2 1\n"); flushLine();
        new ShapeConnectionPin(s2, 1, 0.5, 0.5, true, 0, ConnDirAll);
        printf("op newJunction 3 100003 @ 50 50\n"); flushLine();
        JunctionRef *j = new JunctionRef(r, Point(50, 50), 3);
        printf("op newConn 4 1 A 1 1 A 3 0\n"); flushLine();
        ConnRef *c4 = new ConnRef(r, ConnEnd(s1, 1), ConnEnd(j), 4);
        printf("op newConn 5 1 A 3 0 A 2 1\n"); flushLine();
        new ConnRef(r, ConnEnd(j), ConnEnd(s2, 1), 5);
        printf("op processTransaction\n"); flushLine();
        r->processTransaction();
        printf("note mergeJunction 3\n"); flushLine();
        ConnRef *kept = j->removeJunctionAndMergeConnectors();
        if (kept == c4) printf("op mergeJunction 3 4 1 5\n"); else printf("op mergeJunction 3 5 0 4\n");
        flushLine();
        printf("op processTransaction\n"); flushLine();
        r->processTransaction();
        printf("op deleteRouter\n"); flushLine();
        delete r;
    } else {
        printf("note unknown-mode\n");
        delete r;
    }
}


// round-6 findings as scripts (see Script): name, history
static const struct { const char *name; const char *text; } kfScripts[] = {
    // F1 ConnRef::splitAtSegment copies *m_dst_connend, which is null when the destination is a free point (connector.cpp:717)
    {"kf-split-free-dst-null",
     "router 2\nop newShape 1 @ 0 0 20 20\nop newPin 100001 1 1 @ 0.5 0.5 15 1 0 0 -1\nop newConn 3 1 A 1 1 P 150 130 @opts 0 0 -1\n"
     "op processTransaction\nop splitAtSegment 3 4 100002 5 @ 1\nop processTransaction\n"},
    // F2 splitAtSegment calls Router::addJunction for a junction whose constructor has already added it: with transactions off
    //    the junction is made active twice (obstacle.cpp:136)
    {"kf-split-notrans-assert",
     // (hyperedge improvement off: otherwise the junction-source connector routed half-built leaks, kf-junction-halfconn-leak)
     "router 2\nop api router setRoutingOption 1 0\nop setTransactionUse 0\nop newShape 1 @ 0 0 20 20\nop newShape 2 @ 100 60 120 80\nop newPin 100001 2 1 @ 0.5 0.5 15 1 0 0 -1\n"
     "op newConn 3 1 P -50 -31 A 2 1 @opts 0 0 -1\nop splitAtSegment 3 4 100002 5 @ 1\n"},
    // F3 ShapeRef::transformConnectionPinPositions rewrites the keys of the value-ordered pin set in place; a later erase(pin)
    //    misses, the freed pin stays in the set
    {"kf-transform-pins-set-order",
     "router 2\nop newShape 1 @ 0 0 20 20\nop newPin 100001 1 1 @ 0.25 0.5 15 1 0 0 -1\nop newPin 100002 1 1 @ 0.75 0.5 15 1 0 0 -1\n"
     "op newPin 100003 1 1 @ 0.5 0.25 15 1 0 0 -1\nop newConn 2 1 A 1 1 P 150 130 @opts 0 0 -1\nop processTransaction\n"
     "op transformPins 1 3\nop processTransaction\nop transformPins 1 0\nop processTransaction\nop deletePin 100001\nop processTransaction\n"
     "op deletePin 100002\nop processTransaction\nop deletePin 100003\nop processTransaction\n"},
    // F4 polyline connector + cluster-crossing penalty + a boundary point that is not a visibility-graph vertex (makepath.cpp:385)
    {"kf-cluster-polyline-nonvertex-assert",
     "router 1\nop newShape 1 @ 0 0 20 20\nop newShape 2 @ 100 0 120 20\nop newCluster 3 @ free rect : 30 -10 0 8 30 30 0 8 -10 30 0 8 -10 -10 0 8\n"
     "op newConn 4 1 P 10 -30 P 110 50 @opts 0 0 -1\nop processTransaction\n"},
    // F5 a ReferencingPolygon keeps raw pointers into the shapes it references; deleting such a shape leaves them dangling
    {"kf-cluster-refs-deleted-shape",
     "router 1\nop newShape 1 @ 0 0 20 20\nop newShape 2 @ 100 0 120 100\nop newShape 3 @ 200 0 220 20\nop processTransaction\n"
     "op newCluster 4 @ ref-one-shape : 20 0 1 0 20 20 1 1 0 20 1 2 0 0 1 3\nop newConn 5 1 P 50 50 P 160 50 @opts 0 0 -1\nop processTransaction\n"
     "op deleteShape 1\nop processTransaction\nop setEndpoint 5 1 P 170 60\nop processTransaction\n"},
    // F7 a candidate path that runs around a cluster boundary overflows c_path / p_path in ConnectorCrossings::countForSegment
    {"kf-cluster-crossings-overflow",
     "router 1\nop newShape 3 @ 430 105 480 155\nop newShape 4 @ 280 280 320 320\nop processTransaction\n"
     "op newCluster 10 @ ref-hull-of-two : 280 280 4 3 430 105 3 3 480 105 3 0 480 155 3 1 320 320 4 1 280 320 4 2\n"
     "op newConn 11 1 P 281 71 P 341 231 @dirs 15 9 @opts 0 0 -1\nop processTransaction\n"},
    // F12 (class router-hist-cp) polyline connector along a referencing cluster boundary: splitBranchingSegments ->
    //     midVertexNumber asserts an axis-parallel segment (connector.cpp:1526)
    {"kf-cluster-branching-midvertex-assert",
     "router 1\nop newJunction 1 100002 @ 140 290\nop newShape 3 @ 240 360 200 390\nop newShape 4 @ 280 360 240 400\nop moveShape 4 @ 0 -30 0 0 0 0\n"
     "op newConn 6 1 A 4 1 A 1 0 @opts 0 1 -1\nop processTransaction\nop deleteShape 4\nop newShape 9 @ 360 380 320 410\nop setTransactionUse 0\n"
     "op newCluster 10 @ ref-one-shape : 200 360 3 3 240 360 3 0 240 390 3 1 200 390 3 2\nop newPin 100011 9 2 @ 0.75 0.5 0 1 0 1 -1\n"
     "op setClusterPoly 10 @ ref-one-shape : 320 380 9 3 360 380 9 0 360 410 9 1 320 410 9 2\nop setEndpoint 6 1 A 1 0\n"},
    // F8 orthogonal routing with segmentPenalty 0 (makepath.cpp:796)
    {"kf-orth-zero-segment-penalty-assert",
     "router 2\nop api router setRoutingParameter segmentPenalty 0\nop newShape 1 @ 40 40 60 60\nop newConn 2 1 P 0 1 P 101 100 @opts 0 0 -1\nop processTransaction\n"},
    // F9 nudgeSharedPathsWithCommonEndPoint = false: UnsignedPair(id, id) for two neighbouring segments of one connector (orthogonal.cpp:76)
    {"kf-nudge-common-endpoint-same-conn-assert",
     "router 2\nop api router setRoutingOption 6 0\nop api router setRoutingOption 0 1\nop newConn 2 1 P -9 71 P 171 386 @dirs 12 4 @opts 0 0 -1\n"
     "op setRoutingCheckpoints 2 2 200001 200002 @ 467 -33 17 472\nop processTransaction\n"},
    // F10 idealNudgingDistance 0 makes a junction a zero-size rectangle (scanline.cpp:456 / orthogonal.cpp:702)
    {"kf-zero-nudging-distance-junction-assert",
     "router 1\nop api router setRoutingParameter idealNudgingDistance 0\nop setTransactionUse 0\nop newShape 3 @ 60 360 20 400\n"
     "op newJunction 7 100008 @ 0 365\nop newConn 13 1 P 81 296 A 7 0 @opts 0 0 -1\nop api obst 7 setPositionFixed 1\nop setEndpoint 13 0 P 471 366 @dirs 2\n"},
    // F11 removeJunctionAndMergeConnectors queues a copy of a live ConnEnd with its active-pin pointer; the pin is deleted
    //     before the transaction is processed
    {"kf-merge-copied-end-pin-deleted",
     "router 2\nop newShape 1 @ 0 0 20 20\nop newShape 2 @ 100 60 120 80\nop newPin 100001 1 1 @ 0.5 0.5 15 1 0 0 -1\nop newPin 100002 2 1 @ 0.5 0.5 15 1 0 0 -1\n"
     "op newJunction 3 100003 @ 50 50\nop newConn 4 1 A 1 1 A 3 0 @opts 0 0 -1\nop newConn 5 1 A 3 0 A 2 1 @opts 0 0 -1\nop processTransaction\n"
     "op mergeJunction 3 4 1 5\nop deletePin 100002\nop processTransaction\n"},
};

static void leakCheck(const char *tag) {
    if (__lsan_do_recoverable_leak_check() != 0) {
        printf("LEAK %s\n", tag); fflush(stdout);
        fprintf(stderr, "C15 harness: leak attributed to the case just finished (%s)\n", tag);
        abort();
    }
}

} // namespace

int main(int argc, char **argv) {
    vh::Args a = vh::parseArgs(argc, argv);
    bool big = a.tier == "thorough";
    if (a.mode.compare(0, 3, "kf-") == 0) {
        if (a.want(0)) {
            vh::beginCase(0, a.mode.c_str());
#ifdef HAVE_C15_LIBS
            // known-finding classes of the other four libraries (harness/c15_libs.h)
            struct { const char *mode; void (*fn)(void); } libKf[] = {
                {"kf-dialect-faces-negative-x-assert", c15::kf_dialect_faces_negative_x_assert},
                {"kf-dialect-hola-leak", c15::kf_dialect_hola_leak},
                {"kf-dialect-peel-edgeless", c15::kf_dialect_peel_edgeless},
                {"kf-cola-cml-rerun-leak", c15::kf_cola_cml_rerun_leak},
                {"kf-cola-cml-unsatinfo-leak", c15::kf_cola_cml_unsatinfo_leak},
                {"kf-cola-unsatinfo-internal-cc-uaf", c15::kf_cola_unsatinfo_internal_cc_uaf},
                {"kf-cola-unsatinfo-alignment-var-uaf", c15::kf_cola_unsatinfo_alignment_var_uaf},
                {"kf-cola-makefeasible-hang", c15::kf_cola_makefeasible_hang},
                {"kf-vpsc-addconstraint-oob", c15::kf_vpsc_addconstraint_oob},
                {"kf-vpsc-static-cycle-leak", c15::kf_vpsc_static_cycle_leak},
                {"kf-topology-endnode-visibility-assert", c15::kf_topology_endnode_visibility_assert}};
            bool isLib = false;
            for (size_t i = 0; i < sizeof(libKf) / sizeof(libKf[0]); ++i)
                if (a.mode == libKf[i].mode) { isLib = true; libKf[i].fn(); }
            if (isLib) { leakCheck(a.mode.c_str()); vh::endCase(); return 0; }
#endif
            bool isScript = false;
            for (size_t i = 0; i < sizeof(kfScripts) / sizeof(kfScripts[0]); ++i)
                if (a.mode == kfScripts[i].name) { isScript = true; runScriptText(kfScripts[i].text); }
            if (a.mode == "kf-script") { isScript = true; const char *f = getenv("C15_SCRIPT"); if (f) runScriptFile(f); else printf("note C15_SCRIPT not set\n"); }
            if (isScript) { leakCheck(a.mode.c_str()); vh::endCase(); return 0; }
            if (a.mode == "kf-hyperedge-mtst-assert") {
                // K13: replay of a generated history (seed 9, case 88, quick) with hyperedge registration enabled:
                // mtst.cpp:816 COLA_ASSERT(origTerminals.size() == 1)
                vh::Rng g = vh::caseRng(9, 88);
                routerHist(g, false, false, true);
            } else
            kfCase(a.mode);
            leakCheck(a.mode.c_str());
            vh::endCase();
        }
        return 0;
    }
    long nRouter = (big ? 700 : 150) * a.scale;
    long nLib = (big ? 150 : 40) * a.scale;
    if (a.n >= 0) { nRouter = a.n; nLib = a.n / 4; }
    // --mode router / --mode libs run one half only (same case indices), so that an abort in one half (e.g. the
    // known nudging assertion orthogonal.cpp:3041) does not cost the other half its cases
    if (a.mode == "router-cp") {
        // as router-hist, plus cluster boundaries that REFERENCE shape vertices with polyline connectors paying a cluster-crossing
        // penalty; in the plan once kf-cluster-branching-midvertex-assert is a known finding (check/props/C15.py)
        for (long i = 0; i < nRouter; ++i) {
            if (!a.want(i)) continue;
            vh::Rng g = vh::caseRng(a.seed ^ 0x5bd1e995u, (uint64_t) i);
            vh::beginCase(i, "router-hist-cp");
            routerHist(g, big, false, false, true);
            leakCheck("router-hist-cp");
            vh::endCase();
        }
        return 0;
    }
    bool doRouter = a.mode != "libs", doLibs = a.mode != "router";
    long k = 0;
    for (long i = 0; i < nRouter; ++i, ++k) {
        if (!doRouter || !a.want(k)) continue;
        vh::Rng g = vh::caseRng(a.seed, (uint64_t) k);
        vh::beginCase(k, "router-hist");
        routerHist(g, big);
        leakCheck("router-hist");
        vh::endCase();
    }
#ifdef HAVE_C15_LIBS
    typedef void (*LibFn)(vh::Rng &, bool);
    struct { const char *tag; LibFn fn; } libs[] = {
        {"vpsc-hist", c15::vpscHist}, {"cola-hist", c15::colaHist},
        {"topology-hist", c15::topologyHist}, {"dialect-hist", c15::dialectHist}};
    for (int c = 0; c < 4; ++c) {
        for (long i = 0; i < nLib; ++i, ++k) {
            if (!doLibs || !a.want(k)) continue;
            vh::Rng g = vh::caseRng(a.seed, (uint64_t) k);
            vh::beginCase(k, libs[c].tag);
            libs[c].fn(g, big);
            leakCheck(libs[c].tag);
            vh::endCase();
        }
    }
#endif
    return 0;
}
