// C19, exact tie of dialect::OrthoPlanariser with lean/AdaptaVerif/Model/Planarise.lean (builder K).
// Included by harness/c19.cpp after dumpRouted/dumpPlanar. Every `planx-*` case prints
//   kind planx
//   pn/pe   the routed input (node id, centre, dims; edge ends + exact route points, edge-id order)
//   pb i …  after planarise(): the bend nodes the library attached to edge i (id x y triples)
//   on/oe   the intermediate overlap-free graph (m_overlapFreeGraph, read through `#define private public`)
//   qn/qe   the planar graph (edges in edge-id order = order of the final m_edgeSegments)
// Generator classes (tag):
//   planx-grid       straight horizontal and vertical edges forming a grid of crossings
//   planx-ttouch     an end node / a bend of one route lying on the interior of a segment of another (all four sides)
//   planx-overlap    collinear segments overlapping, nested, abutting; parallel lines 0.25/0.5/0.75/1.0 apart
//   planx-short      jog segments of length 0.25 … 1.5 around the tolerances 0.5 / 0.8 / 1.0
//   planx-through    routes running straight through other nodes' centres / boxes
//   planx-multibend  staircases crossing the same edge several times
//   planx-random     random orthogonal routes, coarse pool (multiples of 8)
//   planx-near       random orthogonal routes, coordinates from a fine pool (quarter steps around few lines)
//   planx-bendmerge  bends of different edges 0 / 0.25 / 0.5 / 0.75 apart in x and y (NearbyObjectFinder threshold 0.5, open box)
#ifndef C19_PLANARISE_H
#define C19_PLANARISE_H

typedef std::vector<Avoid::Point> PxRoute;

struct PxSpec {
    std::vector<Avoid::Point> centres;
    std::vector<IP> edges;
    std::vector<PxRoute> routes;
    int addNode(double x, double y) { centres.push_back(Avoid::Point(x, y)); return (int) centres.size() - 1; }
    void addEdge(int u, int v, const PxRoute &mid) {
        PxRoute rt;
        rt.push_back(centres[u]);
        for (const Avoid::Point &p : mid) rt.push_back(p);
        rt.push_back(centres[v]);
        // drop zero-length moves
        PxRoute clean;
        for (const Avoid::Point &p : rt)
            if (clean.empty() || clean.back().x != p.x || clean.back().y != p.y) clean.push_back(p);
        if (clean.size() < 2) clean.push_back(centres[v]);
        edges.push_back(IP(u, v));
        routes.push_back(clean);
    }
};

static void pxRun(const PxSpec &s) {
    Graph_SP G = std::make_shared<Graph>();
    std::vector<Node_SP> nodes;
    for (const Avoid::Point &c : s.centres) {
        Node_SP u = Node::allocate(c.x, c.y, 16, 16);
        G->addNode(u);
        nodes.push_back(u);
    }
    std::vector<Edge_SP> es;
    for (size_t i = 0; i < s.edges.size(); ++i) {
        Edge_SP e = G->addEdge(nodes[s.edges[i].first], nodes[s.edges[i].second]);
        e->setRoute(s.routes[i]);
        es.push_back(e);
    }
    dumpRouted(*G);
    OrthoPlanariser op(G);
    Graph_SP Q = op.planarise();
    long i = 0;
    for (auto p : G->getEdgeLookup()) {
        printf("pb %ld", i++);
        for (Node_SP b : p.second->getBendNodes()) {
            Avoid::Point c = b->getCentre();
            printf(" %u %s %s", b->id(), vh::hx(c.x).c_str(), vh::hx(c.y).c_str());
        }
        printf("\n");
    }
    for (auto p : op.m_overlapFreeGraph->getNodeLookup()) {
        Avoid::Point c = p.second->getCentre();
        printf("on %u %s %s\n", p.first, vh::hx(c.x).c_str(), vh::hx(c.y).c_str());
    }
    for (auto p : op.m_overlapFreeGraph->getEdgeLookup())
        printf("oe %u %u\n", p.second->getSourceEnd()->id(), p.second->getTargetEnd()->id());
    dumpPlanar(*Q);
}

// orthogonal route from a to b through `m` random intermediate coordinates of the pools
static PxRoute pxRandomMid(vh::Rng &r, Avoid::Point a, Avoid::Point b, int m,
                           const std::vector<double> &xs, const std::vector<double> &ys) {
    PxRoute mid;
    bool horiz = r.coin();
    double x = a.x, y = a.y;
    for (int i = 0; i < m; ++i) {
        if (horiz) x = r.pick(xs); else y = r.pick(ys);
        mid.push_back(Avoid::Point(x, y));
        horiz = !horiz;
    }
    if (horiz) { if (y != b.y) mid.push_back(Avoid::Point(b.x, y)); }
    else { if (x != b.x) mid.push_back(Avoid::Point(x, b.y)); }
    if (horiz && y == b.y) { /* straight in */ }
    return mid;
}

static void pxGrid(vh::Rng &r, PxSpec &s) {
    int nh = (int) r.range(1, 5), nv = (int) r.range(1, 5);
    double step = 8.0 * r.range(1, 3);
    std::vector<int> rows, cols;
    for (int i = 0; i < 8; ++i) { rows.push_back(i); cols.push_back(i); }
    r.shuffle(rows); r.shuffle(cols);
    for (int i = 0; i < nh; ++i) {
        double y = step * rows[i];
        double x0 = step * r.range(-3, 2) - 4, x1 = step * r.range(3, 9) + 4;
        int u = s.addNode(x0, y), v = s.addNode(x1, y);
        if (r.coin()) s.addEdge(u, v, PxRoute()); else s.addEdge(v, u, PxRoute());
    }
    for (int i = 0; i < nv; ++i) {
        double x = step * cols[i];
        double y0 = step * r.range(-3, 2) - 4, y1 = step * r.range(3, 9) + 4;
        int u = s.addNode(x, y0), v = s.addNode(x, y1);
        if (r.coin()) s.addEdge(u, v, PxRoute()); else s.addEdge(v, u, PxRoute());
    }
}

static void pxTTouch(vh::Rng &r, PxSpec &s) {
    // a long base edge, and edges whose end node or bend lies exactly on its interior
    bool baseH = r.coin();
    double L = 80;
    int a = baseH ? s.addNode(0, 0) : s.addNode(0, 0), b = baseH ? s.addNode(L, 0) : s.addNode(0, L);
    if (r.coin()) s.addEdge(a, b, PxRoute()); else s.addEdge(b, a, PxRoute());
    int n = (int) r.range(1, 4);
    std::vector<int> slots; for (int i = 1; i < 10; ++i) slots.push_back(i); r.shuffle(slots);
    for (int i = 0; i < n; ++i) {
        double t = 8.0 * slots[i];
        double off = 8.0 * r.range(1, 4) * (r.coin() ? 1 : -1);
        int kind = (int) r.range(0, 2);
        Avoid::Point onBase = baseH ? Avoid::Point(t, 0) : Avoid::Point(0, t);
        Avoid::Point away = baseH ? Avoid::Point(t, off) : Avoid::Point(off, t);
        if (kind == 0) {            // end node on the base, other end away
            int u = s.addNode(onBase.x, onBase.y), v = s.addNode(away.x, away.y);
            if (r.coin()) s.addEdge(u, v, PxRoute()); else s.addEdge(v, u, PxRoute());
        } else if (kind == 1) {     // bend on the base: comes in perpendicular, leaves... perpendicular on the other side
            Avoid::Point far = baseH ? Avoid::Point(t + 8.0 * r.range(1, 3), -off) : Avoid::Point(-off, t + 8.0 * r.range(1, 3));
            int u = s.addNode(away.x, away.y), v = s.addNode(far.x, far.y);
            PxRoute mid; mid.push_back(onBase);
            mid.push_back(baseH ? Avoid::Point(far.x, 0) : Avoid::Point(0, far.y));   // runs along the base, then leaves
            if (r.coin()) s.addEdge(u, v, mid); else { std::reverse(mid.begin(), mid.end()); s.addEdge(v, u, mid); }
        } else {                    // crosses properly (control)
            Avoid::Point opp = baseH ? Avoid::Point(t, -off) : Avoid::Point(-off, t);
            int u = s.addNode(away.x, away.y), v = s.addNode(opp.x, opp.y);
            s.addEdge(u, v, PxRoute());
        }
    }
}

static void pxOverlap(vh::Rng &r, PxSpec &s) {
    // several edges along (nearly) the same line, plus one or two perpendicular crossers
    bool horiz = r.coin();
    int n = (int) r.range(2, 4);
    static const double offs[] = {0, 0, 0, 0.25, 0.5, 0.75, 1.0, 1.25};
    for (int i = 0; i < n; ++i) {
        double lo = 8.0 * r.range(0, 6), hi = lo + 8.0 * r.range(1, 6);
        double off = (i == 0) ? 0 : offs[r.range(0, 7)];
        int u = horiz ? s.addNode(lo, off) : s.addNode(off, lo), v = horiz ? s.addNode(hi, off) : s.addNode(off, hi);
        if (r.coin()) s.addEdge(u, v, PxRoute()); else s.addEdge(v, u, PxRoute());
    }
    int m = (int) r.range(0, 2);
    for (int i = 0; i < m; ++i) {
        double t = 8.0 * r.range(0, 12) + 4;
        int u = horiz ? s.addNode(t, -24) : s.addNode(-24, t), v = horiz ? s.addNode(t, 24) : s.addNode(24, t);
        s.addEdge(u, v, PxRoute());
    }
}

static void pxShort(vh::Rng &r, PxSpec &s) {
    // an edge with a jog of length d (H V H or V H V), crossed by long perpendicular edges near the jog
    static const double ds[] = {0.25, 0.5, 0.75, 1.0, 1.25, 1.5, 2.0};
    double d = ds[r.range(0, 6)] * (r.coin() ? 1 : -1);
    bool hvh = r.coin();
    double jog = 8.0 * r.range(2, 6);
    if (hvh) {
        int a = s.addNode(0, 0), b = s.addNode(80, d);
        PxRoute mid; mid.push_back(Avoid::Point(jog, 0)); mid.push_back(Avoid::Point(jog, d));
        if (r.coin()) s.addEdge(a, b, mid); else { std::reverse(mid.begin(), mid.end()); s.addEdge(b, a, mid); }
    } else {
        int a = s.addNode(0, 0), b = s.addNode(d, 80);
        PxRoute mid; mid.push_back(Avoid::Point(0, jog)); mid.push_back(Avoid::Point(d, jog));
        if (r.coin()) s.addEdge(a, b, mid); else { std::reverse(mid.begin(), mid.end()); s.addEdge(b, a, mid); }
    }
    int m = (int) r.range(1, 3);
    for (int i = 0; i < m; ++i) {
        bool horiz = r.coin();
        double t = r.coin() ? jog : 8.0 * r.range(1, 9);
        if (r.coin(1, 3)) t += 0.25 * r.range(-4, 4);
        double lo = -16.0 - 8.0 * r.range(0, 2), hi = 96.0 + 8.0 * r.range(0, 2);
        double c = horiz ? 8.0 * r.range(-2, 11) + 4 : t;
        int u = horiz ? s.addNode(lo, c) : s.addNode(c, lo), v = horiz ? s.addNode(hi, c) : s.addNode(c, hi);
        s.addEdge(u, v, PxRoute());
    }
}

static void pxThrough(vh::Rng &r, PxSpec &s) {
    // nodes on a grid; straight or one-bend routes that run over other nodes' centres and boxes
    int n = (int) r.range(3, 7);
    std::set<IP> used;
    for (int i = 0; i < n; ++i) {
        int gx, gy;
        do { gx = (int) r.range(0, 3); gy = (int) r.range(0, 3); } while (used.count(IP(gx, gy)));
        used.insert(IP(gx, gy));
        s.addNode(24.0 * gx, 24.0 * gy);
    }
    int m = (int) r.range(1, n + 1);
    for (int i = 0; i < m; ++i) {
        int u = (int) r.range(0, n - 1), v = (int) r.range(0, n - 1);
        if (u == v) continue;
        PxRoute mid;
        Avoid::Point A = s.centres[u], B = s.centres[v];
        if (A.x != B.x && A.y != B.y) mid.push_back(r.coin() ? Avoid::Point(B.x, A.y) : Avoid::Point(A.x, B.y));
        s.addEdge(u, v, mid);
    }
}

static void pxMultiBend(vh::Rng &r, PxSpec &s) {
    // a straight base edge and a staircase that crosses it k times
    bool baseH = r.coin();
    int a = baseH ? s.addNode(-8, 0) : s.addNode(0, -8), b = baseH ? s.addNode(120, 0) : s.addNode(0, 120);
    s.addEdge(a, b, PxRoute());
    int k = (int) r.range(2, 6);
    double amp = 8.0 * r.range(1, 3);
    PxRoute mid;
    double side = r.coin() ? 1 : -1;
    int u = baseH ? s.addNode(4, side * amp) : s.addNode(side * amp, 4);
    double t = 4;
    for (int i = 0; i < k; ++i) {
        t += 8.0 * r.range(1, 2);
        mid.push_back(baseH ? Avoid::Point(t, side * amp) : Avoid::Point(side * amp, t));
        side = -side;
        mid.push_back(baseH ? Avoid::Point(t, side * amp) : Avoid::Point(side * amp, t));
    }
    t += 8;
    int v = baseH ? s.addNode(t, side * amp) : s.addNode(side * amp, t);
    if (r.coin()) s.addEdge(u, v, mid); else { std::reverse(mid.begin(), mid.end()); s.addEdge(v, u, mid); }
    if (r.coin()) {   // a second straight edge parallel to the base, also crossed
        double off = amp / 2;
        int c = baseH ? s.addNode(-8, off) : s.addNode(off, -8), d = baseH ? s.addNode(120, off) : s.addNode(off, 120);
        s.addEdge(c, d, PxRoute());
    }
}

static void pxRandom(vh::Rng &r, PxSpec &s, bool fine, bool thorough) {
    std::vector<double> xs, ys;
    if (!fine) {
        for (int i = -2; i <= 12; ++i) { xs.push_back(8.0 * i); ys.push_back(8.0 * i); }
    } else {
        // few base lines, quarter steps around them
        for (int b = 0; b < 3; ++b)
            for (int q = -2; q <= 6; ++q) { xs.push_back(16.0 * b + 0.25 * q); ys.push_back(16.0 * b + 0.25 * q); }
    }
    int n = (int) r.range(2, thorough ? 10 : 6);
    for (int i = 0; i < n; ++i) s.addNode(r.pick(xs), r.pick(ys));
    int m = (int) r.range(1, thorough ? 12 : 6);
    for (int i = 0; i < m; ++i) {
        int u = (int) r.range(0, n - 1), v = (int) r.range(0, n - 1);
        if (u == v) continue;
        PxRoute mid = pxRandomMid(r, s.centres[u], s.centres[v], (int) r.range(0, 4), xs, ys);
        s.addEdge(u, v, mid);
    }
}

static void pxBendMerge(vh::Rng &r, PxSpec &s) {
    // H-then-V edges whose bends lie within quarter steps of one another around (40, 0)
    static const double offs[] = {0, 0.25, -0.25, 0.5, -0.5, 0.75, -0.75, 1.0};
    int n = (int) r.range(2, 5);
    for (int j = 0; j < n; ++j) {
        double dx = offs[r.range(0, 7)], dy = offs[r.range(0, 7)];
        if (j == 0) { dx = 0; dy = 0; }
        int u = s.addNode(-16.0 * (j + 1), dy), v = s.addNode(40 + dx, 40 + 16.0 * (j + 1));
        PxRoute mid; mid.push_back(Avoid::Point(40 + dx, dy));
        if (r.coin()) s.addEdge(u, v, mid); else s.addEdge(v, u, mid);
    }
}

// appended after every other class of harness/c19.cpp, so earlier case indices do not move
static long runPlanX(const vh::Args &a, long k, bool thorough) {
    static const char *tags[9] = {"planx-grid", "planx-ttouch", "planx-overlap", "planx-short",
                                  "planx-through", "planx-multibend", "planx-random", "planx-near", "planx-bendmerge"};
    // fixed witnesses of Props/C19Planarise.lean (short_segment_missorted, long_segment_sorted, short_segment_disconnects,
    // ttouch_asymmetric): the tie must be exact on them, so the library shows the same behaviour as the model
    for (int w = 0; w < 5; ++w, ++k) {
        if (!a.want(k)) continue;
        PxSpec s;
        if (w <= 1) {
            double d = (w == 0) ? 0.5 : 2.0;
            int A = s.addNode(0, 0), B = s.addNode(60, 40), C = s.addNode(-20, 20), D = s.addNode(100, 20);
            PxRoute mid; mid.push_back(Avoid::Point(20, 0)); mid.push_back(Avoid::Point(20, d)); mid.push_back(Avoid::Point(60, d));
            s.addEdge(A, B, mid); s.addEdge(C, D, PxRoute());
        } else if (w == 2) {
            int A = s.addNode(0, 0), B = s.addNode(60, 40), C = s.addNode(-20, 20), D = s.addNode(40, 20),
                E = s.addNode(-20, 30), F = s.addNode(40, 30);
            PxRoute mid; mid.push_back(Avoid::Point(20, 0)); mid.push_back(Avoid::Point(20, 0.5)); mid.push_back(Avoid::Point(60, 0.5));
            s.addEdge(A, B, mid); s.addEdge(C, D, PxRoute()); s.addEdge(E, F, PxRoute());
        } else {
            int A = s.addNode(0, 0), B = s.addNode(0, 40), C = s.addNode(w == 3 ? -20 : 20, 20), D = s.addNode(0, 20);
            s.addEdge(A, B, PxRoute()); s.addEdge(C, D, PxRoute());
        }
        vh::beginCase(k, "planx-jog-witness");
        printf("kind planx\nwitness %d\n", w);
        pxRun(s);
        vh::endCase();
    }
    long nX = (thorough ? 4500 : 900) * a.scale;
    if (a.n >= 0) nX = a.n / 4;
    for (long c = 0; c < nX; ++c, ++k) {
        if (!a.want(k)) continue;
        vh::Rng r = vh::caseRng(a.seed, k);
        int cls = (int) (c % 9);
        PxSpec s;
        switch (cls) {
        case 0: pxGrid(r, s); break;
        case 1: pxTTouch(r, s); break;
        case 2: pxOverlap(r, s); break;
        case 3: pxShort(r, s); break;
        case 4: pxThrough(r, s); break;
        case 5: pxMultiBend(r, s); break;
        case 6: pxRandom(r, s, false, thorough); break;
        case 7: pxRandom(r, s, true, thorough); break;
        default: pxBendMerge(r, s); break;
        }
        vh::beginCase(k, tags[cls]);
        printf("kind planx\n");
        pxRun(s);
        vh::endCase();
    }
    return k;
}
#endif
