// C13 harness: libtopology — layout steps never pull an edge through a node.
//
// Two kinds of cases (line protocol of AGENT_GUIDE.md):
//  * tri-*   : TriConstraint::slackAtInitial / slackAtFinal / maxSafeAlpha of the real library on
//              enumerated and random inputs (tie to Model/Tri.lean).
//              line:  t <p> <g> <leftOf> <u1> <u2> <v1> <v2> <w1> <w2> <slackI> <slackF> <msa>
//  * scene-* : a scene of non-overlapping rectangles with tight routes, then a history of layout
//              steps; after every step the complete state (rectangles + paths) is printed.
//              lines: N <n>                    number of nodes
//                     E <e> <src> <dst>        original end nodes of edge e
//                     D <dim> <d0> <w0> ...    desired positions/weights handed to the solver (input)
//                     Z <id> <x> <X> <y> <Y>   resize request (input)
//                     S <kind> <dim>           a new state begins; dim 0/1 = only that axis moved
//                                              since the previous state, 2 = both / unknown;
//                                              kind "construct" = what the TopologyConstraints constructor
//                                              left (nothing moved, PruneDegenerate may have removed path points)
//                     R <id> <minX> <maxX> <minY> <maxY>
//                     P <e> (<node> <ri> <x> <y>)*      ri: TR=0 BR=1 BL=2 TL=3 CENTRE=4
//                     KD/KS/KB                 after a `construct` / `solve` state: the Straight/BendConstraints the
//                                              TopologyConstraints instance now holds (c13_cons.h)
//  * prune-rule : constructed (degenerate) paths handed to the TopologyConstraints constructor, tie of
//              PruneDegenerate / validTurn to Model/TopoPrune.lean (format: see pruneRuleCase).
// Inputs are printed before the library is called, so that a sanitizer abort leaves them in
// the stream.
#include "common.h"
#include <memory>
#include <set>
#include <functional>
#include <csignal>
#include <unistd.h>
#include <sys/wait.h>
#include "libvpsc/rectangle.h"
#include "libvpsc/variable.h"
#include "libvpsc/constraint.h"
#include "libcola/cola.h"
#include "libtopology/topology_graph.h"
#include "libtopology/topology_constraints.h"
#include "libtopology/topology_log.h"
#include "libtopology/cola_topology_addon.h"
#include "libavoid/libavoid.h"

using vh::hx;
typedef topology::EdgePoint EP;

// ------------------------------------------------------------------ TriConstraint tie

struct TriRig {
    vpsc::Rectangle *r[3];
    vpsc::Variable *var[3];
    topology::Node *n[3];
    TriRig() {
        for (int i = 0; i < 3; ++i) {
            r[i] = new vpsc::Rectangle(-1, 1, -1, 1);
            var[i] = new vpsc::Variable(i);
            n[i] = new topology::Node(i, r[i], var[i]);
        }
    }
    ~TriRig() { for (int i = 0; i < 3; ++i) { delete n[i]; delete var[i]; delete r[i]; } }
    void set(int i, double ini, double fin) {
        r[i]->reset(0, ini - 1, ini + 1);       // centre == ini exactly for the dyadic inputs used
        var[i]->finalPosition = fin;
    }
};

// The TriConstraint constructor asserts  fabs(p)>1e7 || slackAtInitial()>-1e-3  (valid API use),
// so inputs outside that precondition are not submitted.
static bool triOne(TriRig &rig, double p, double g, bool left, const double x[6]) {
    rig.set(0, x[0], x[1]); rig.set(1, x[2], x[3]); rig.set(2, x[4], x[5]);
    double u1 = rig.n[0]->initialPos(vpsc::XDIM), v1 = rig.n[1]->initialPos(vpsc::XDIM),
           w1 = rig.n[2]->initialPos(vpsc::XDIM);
    double rhs = u1 + p * (v1 - u1) + g, sI = left ? rhs - w1 : w1 - rhs;
    if (!(std::fabs(p) > 1e7 || sI > -1e-3)) return false;
    // msa<0 branch asserts iSlack>=fSlack; that is a consequence of the code's own arithmetic, not
    // an input precondition, so nothing is filtered for it.
    printf("t %s %s %d %s %s %s %s %s %s", hx(p).c_str(), hx(g).c_str(), (int) left,
           hx(u1).c_str(), hx(x[1]).c_str(), hx(v1).c_str(), hx(x[3]).c_str(), hx(w1).c_str(), hx(x[5]).c_str());
    fflush(stdout);
    topology::TriConstraint c(vpsc::XDIM, rig.n[0], rig.n[1], rig.n[2], p, g, left);
    double a = c.slackAtInitial(), b = c.slackAtFinal(), m = c.maxSafeAlpha();
    printf(" %s %s %s\n", hx(a).c_str(), hx(b).c_str(), hx(m).c_str());
    return true;
}

static void triEnumCase(long chunk) {
    // p x g x leftOf fixed by the chunk; positions enumerate a small grid
    static const double ps[] = {0, 0.25, 0.5, 0.75, 1, -0.5, 1.5};
    static const double gs[] = {-2, 0, 1.5};
    static const double xs[] = {-3, 0, 1, 2.5};
    double p = ps[chunk % 7], g = gs[(chunk / 7) % 3];
    bool left = (chunk / 21) % 2;
    TriRig rig;
    int idx[6];
    for (idx[0] = 0; idx[0] < 4; ++idx[0]) for (idx[1] = 0; idx[1] < 4; ++idx[1])
    for (idx[2] = 0; idx[2] < 4; ++idx[2]) for (idx[3] = 0; idx[3] < 4; ++idx[3])
    for (idx[4] = 0; idx[4] < 4; ++idx[4]) for (idx[5] = 0; idx[5] < 4; ++idx[5]) {
        double x[6];
        for (int i = 0; i < 6; ++i) x[i] = xs[idx[i]];
        triOne(rig, p, g, left, x);
    }
}

static double dyadic(vh::Rng &r, long mag, int fracBits) {
    long m = mag * (1L << fracBits);
    return (double) r.range(-m, m) / (double) (1L << fracBits);
}

static void triRandCase(vh::Rng &r, bool exactInputs) {
    TriRig rig;
    for (int i = 0; i < 300; ++i) {
        double p, g, x[6];
        if (exactInputs) {
            p = dyadic(r, 2, 6); if (r.coin(1, 4)) p = r.range(0, 8) / 8.0;
            g = dyadic(r, 64, 4);
            for (int j = 0; j < 6; ++j) x[j] = dyadic(r, 512, 4);
        } else {
            // arbitrary doubles (p is a quotient in the library)
            p = (double) r.range(-3000, 4000) / (double) r.range(1000, 3000);
            g = (double) r.range(-100000, 100000) / 977.0;
            for (int j = 0; j < 6; ++j) x[j] = (double) r.range(-1000000, 1000000) / 1013.0;
        }
        bool left = r.coin();
        int cls = (int) r.range(0, 5);
        // shape the sample so that the interesting branches are all frequent:
        double rhsI = x[0] + p * (x[2] - x[0]) + g;
        if (cls <= 2) {            // feasible at initial, w1 placed at distance s>=0 on the right side
            double s = (cls == 0) ? 0 : std::fabs(dyadic(r, 64, 4));
            x[4] = left ? rhsI - s : rhsI + s;
        } else if (cls == 3) {     // no movement at all / pure translation: denominator 0
            x[4] = left ? rhsI + 0.000244140625 : rhsI - 0.000244140625;   // slack -2^-12 > -1e-3
            double d = r.coin() ? 0 : dyadic(r, 16, 2);
            x[1] = x[0] + d; x[3] = x[2] + d; x[5] = x[4] + d;
        } else if (cls == 4) {     // slightly infeasible at initial
            x[4] = left ? rhsI + 0.00048828125 : rhsI - 0.00048828125;
        }
        triOne(rig, p, g, left, x);
    }
}

// ------------------------------------------------------------------ scenes

struct Scene {
    std::vector<vpsc::Rectangle *> rs;
    topology::Nodes nodes;
    topology::Edges edges;
    std::vector<std::pair<unsigned, unsigned> > ends;
    ~Scene() {
        for (size_t i = 0; i < edges.size(); ++i) delete edges[i];
        for (size_t i = 0; i < nodes.size(); ++i) delete nodes[i];
        for (size_t i = 0; i < rs.size(); ++i) delete rs[i];
    }
    void addNode(double x, double X, double y, double Y) {
        vpsc::Rectangle *r = new vpsc::Rectangle(x, X, y, Y);
        rs.push_back(r);
        nodes.push_back(new topology::Node(nodes.size(), r));
    }
};

// ids of edges that were built as closed paths (cluster boundaries)
static std::set<unsigned> g_cyclic;

// consistency of the doubly linked segment list of a closed path:
//   C <e> <nSegments> <walked> <reachedLast> <closed> <ring> <ringClosed>
// walked = segments met from firstSegment following end->outSegment up to lastSegment; closed =
// lastSegment->end == firstSegment->start; ring = steps from firstSegment->start along outSegment links
// until the start point is met again (ringClosed) or the chain ends / exceeds the cap.
static void printCycleInfo(const topology::Edge *e) {
    size_t cap = e->nSegments + 8, walked = 0, ring = 0;
    bool reachedLast = false;
    for (topology::Segment *sg = e->firstSegment; sg && walked < cap;) {
        ++walked;
        if (sg == e->lastSegment) { reachedLast = true; break; }
        sg = sg->end->outSegment;
    }
    bool closed = e->lastSegment->end == e->firstSegment->start;
    topology::EdgePoint *start = e->firstSegment->start, *pt = start;
    do { topology::Segment *o = pt->outSegment; if (!o) break; pt = o->end; ++ring; } while (pt != start && ring < cap);
    printf("C %u %zu %zu %d %d %zu %d\n", e->id, e->nSegments, walked, (int) reachedLast, (int) closed, ring, (int) (pt == start));
}

static void printState(const char *kind, int dim, const topology::Nodes &nodes, const topology::Edges &edges) {
    printf("S %s %d\n", kind, dim);
    for (size_t i = 0; i < nodes.size(); ++i) {
        const vpsc::Rectangle *r = nodes[i]->rect;
        printf("R %u %s %s %s %s\n", nodes[i]->id, hx(r->getMinX()).c_str(), hx(r->getMaxX()).c_str(),
               hx(r->getMinY()).c_str(), hx(r->getMaxY()).c_str());
    }
    for (size_t e = 0; e < edges.size(); ++e) {
        topology::ConstEdgePoints path;
        edges[e]->getPath(path);
        printf("P %u", edges[e]->id);
        for (size_t j = 0; j < path.size(); ++j)
            printf(" %u %d %s %s", path[j]->node->id, (int) path[j]->rectIntersect,
                   hx(path[j]->posX()).c_str(), hx(path[j]->posY()).c_str());
        printf("\n");
        if (g_cyclic.count(edges[e]->id)) printCycleInfo(edges[e]);
    }
    fflush(stdout);
}

#include "c13_cons.h"

// does the closed segment meet the interior of the rectangle shrunk by eps? (generator-side filter
// for the precondition "initial routes do not pass through nodes"; the verdict is Lean's)
static bool segHitsRect(double x1, double y1, double x2, double y2, const vpsc::Rectangle *r, double eps) {
    double lo = 0, hi = 1;
    double a[4] = {x1 - (r->getMinX() + eps), (r->getMaxX() - eps) - x1, y1 - (r->getMinY() + eps), (r->getMaxY() - eps) - y1};
    double d[4] = {x2 - x1, -(x2 - x1), y2 - y1, -(y2 - y1)};
    for (int i = 0; i < 4; ++i) {        // need a + t d > 0
        if (d[i] == 0) { if (a[i] <= 0) return false; }
        else if (d[i] > 0) lo = std::max(lo, -a[i] / d[i]);
        else hi = std::min(hi, -a[i] / d[i]);
    }
    if (lo < hi) return true;
    if (lo == hi) { for (int i = 0; i < 4; ++i) if (a[i] + lo * d[i] <= 0) return false; return true; }
    return false;
}

static bool rectsOverlap(const vpsc::Rectangle *a, const vpsc::Rectangle *b, double gap) {
    return a->getMinX() < b->getMaxX() + gap && b->getMinX() < a->getMaxX() + gap &&
           a->getMinY() < b->getMaxY() + gap && b->getMinY() < a->getMaxY() + gap;
}

static void genRects(vh::Rng &r, Scene &sc, int n, long field, long gap, long maxSize) {
    int tries = 0;
    while ((int) sc.rs.size() < n && tries < 4000) {
        ++tries;
        long w = r.range(4, maxSize), h = r.range(4, maxSize);
        long x = r.range(0, field), y = r.range(0, field);
        vpsc::Rectangle cand(x, x + w, y, y + h);
        bool ok = true;
        for (size_t i = 0; i < sc.rs.size() && ok; ++i) ok = !rectsOverlap(&cand, sc.rs[i], (double) gap);
        if (ok) sc.addNode(x, x + w, y, y + h);
    }
}

static int cornerOf(const vpsc::Rectangle *r, double x, double y) {
    if (x == r->getMaxX() && y == r->getMaxY()) return EP::TR;
    if (x == r->getMaxX() && y == r->getMinY()) return EP::BR;
    if (x == r->getMinX() && y == r->getMinY()) return EP::BL;
    if (x == r->getMinX() && y == r->getMaxY()) return EP::TL;
    return -1;
}

// a candidate path as (node, ri) list; accepted iff no segment meets the interior of a node other
// than the two nodes the segment is attached to (what the library's own precondition check
// assertNoSegmentRectIntersection demands) and not even those for non-end nodes of the edge
static bool pathValid(const Scene &sc, const std::vector<std::pair<unsigned, int> > &pts) {
    if (pts.size() < 2) return false;
    std::vector<double> xs, ys;
    for (size_t i = 0; i < pts.size(); ++i) {
        EP tmp(sc.nodes[pts[i].first], (EP::RectIntersect) pts[i].second);
        xs.push_back(tmp.posX()); ys.push_back(tmp.posY());
    }
    unsigned s = pts.front().first, t = pts.back().first;
    for (size_t i = 0; i + 1 < pts.size(); ++i) {
        if (pts[i] == pts[i + 1]) return false;
        for (size_t k = 0; k < sc.nodes.size(); ++k) {
            if (k == s || k == t) continue;
            if (segHitsRect(xs[i], ys[i], xs[i + 1], ys[i + 1], sc.rs[k], 1e-6)) return false;
        }
    }
    return true;
}

static void addEdge(Scene &sc, const std::vector<std::pair<unsigned, int> > &pts, double ideal) {
    topology::EdgePoints eps;
    for (size_t i = 0; i < pts.size(); ++i) eps.push_back(new EP(sc.nodes[pts[i].first], (EP::RectIntersect) pts[i].second));
    unsigned id = sc.edges.size();
    sc.edges.push_back(new topology::Edge(id, ideal, eps));
    sc.ends.push_back(std::make_pair(pts.front().first, pts.back().first));
}

// tight routes from libavoid polyline routing with zero buffer (as libtopology/tests/beautify.cpp)
static int routeWithAvoid(Scene &sc, const std::vector<std::pair<unsigned, unsigned> > &want, double ideal) {
    int dropped = 0;
    Avoid::Router router(Avoid::PolyLineRouting);
    router.UseLeesAlgorithm = true;
    router.InvisibilityGrph = false;
    for (size_t i = 0; i < sc.rs.size(); ++i) {
        vpsc::Rectangle *r = sc.rs[i];
        Avoid::Rectangle shp(Avoid::Point(r->getMinX(), r->getMinY()), Avoid::Point(r->getMaxX(), r->getMaxY()));
        new Avoid::ShapeRef(&router, shp, i + 1);
    }
    std::vector<Avoid::ConnRef *> conns;
    for (size_t i = 0; i < want.size(); ++i) {
        vpsc::Rectangle *a = sc.rs[want[i].first], *b = sc.rs[want[i].second];
        conns.push_back(new Avoid::ConnRef(&router, Avoid::ConnEnd(Avoid::Point(a->getCentreX(), a->getCentreY())),
                                           Avoid::ConnEnd(Avoid::Point(b->getCentreX(), b->getCentreY())),
                                           sc.rs.size() + 1 + i));
    }
    router.processTransaction();
    for (size_t i = 0; i < want.size(); ++i) {
        const Avoid::Polygon &route = conns[i]->route();
        std::vector<std::pair<unsigned, int> > pts;
        bool ok = route.size() >= 2;
        pts.push_back(std::make_pair(want[i].first, (int) EP::CENTRE));
        for (size_t j = 1; ok && j + 1 < route.size(); ++j) {
            const Avoid::Point &p = route.ps[j];
            if (p.id < 1 || p.id > sc.rs.size()) { ok = false; break; }
            int ri = cornerOf(sc.rs[p.id - 1], p.x, p.y);
            if (ri < 0) { ok = false; break; }
            pts.push_back(std::make_pair((unsigned) (p.id - 1), ri));
        }
        pts.push_back(std::make_pair(want[i].second, (int) EP::CENTRE));
        if (ok && pathValid(sc, pts)) addEdge(sc, pts, ideal); else ++dropped;
    }
    return dropped;
}

static const topology::Nodes *g_nodes;
static const topology::Edges *g_edges;
static int g_dim;
static void printHeader(const Scene &sc) {
    g_nodes = &sc.nodes; g_edges = &sc.edges; g_dim = 2;
    printf("N %zu\n", sc.nodes.size());
    for (size_t e = 0; e < sc.edges.size(); ++e) printf("E %zu %u %u\n", e, sc.ends[e].first, sc.ends[e].second);
    for (size_t e = 0; e < sc.edges.size(); ++e) if (g_cyclic.count(sc.edges[e]->id)) printf("Y %zu\n", e);
    printState("init", 2, sc.nodes, sc.edges);
}

static std::vector<std::pair<unsigned, unsigned> > randomPairs(vh::Rng &r, unsigned n, int m) {
    std::vector<std::pair<unsigned, unsigned> > out;
    for (int i = 0; i < m; ++i) {
        unsigned a = r.range(0, n - 1), b = r.range(0, n - 1);
        if (a != b) out.push_back(std::make_pair(a, b));
    }
    return out;
}

// One phase = one TopologyConstraints instance in one axis with `rounds` sets of desired positions.
static void solvePhase(vh::Rng &r, Scene &sc, vpsc::Dim dim, int rounds, long amp, int &budget) {
    unsigned n = sc.nodes.size();
    vpsc::Variables vs;
    for (unsigned i = 0; i < n; ++i) vs.push_back(new vpsc::Variable(i, sc.rs[i]->getCentreD(dim)));
    topology::setNodeVariables(sc.nodes, vs);
    vpsc::Constraints cs;
    g_dim = (int) dim;
    {
        topology::TopologyConstraints t(dim, sc.nodes, sc.edges, nullptr, vs, cs);
        printState("construct", (int) dim, sc.nodes, sc.edges);
        printConstraints(t, sc.edges, (int) dim, &cs);
        for (int round = 0; round < rounds && budget > 0; ++round) {
            int mode = (int) r.range(0, 3);
            unsigned drag = r.range(0, n - 1);
            printf("D %d", (int) dim);
            for (unsigned i = 0; i < n; ++i) {
                double cur = sc.rs[i]->getCentreD(dim), d = cur, w = 1;
                if (mode == 0) d = cur + (double) r.range(-4 * amp, 4 * amp) / 4.0;            // everybody moves
                else if (mode == 1) { if (i == drag) { d = cur + (double) r.range(-3 * amp, 3 * amp); w = 10000; } }
                else if (mode == 2) d = (double) r.range(0, 2 * amp);                              // scramble
                else { d = 60 + (cur - 60) * (r.coin() ? 0.25 : 2.0); }                            // contract / expand
                vs[i]->desiredPosition = d; vs[i]->weight = w;
                printf(" %s %s", hx(d).c_str(), hx(w).c_str());
            }
            printf("\n"); fflush(stdout);
            int loop = 100;
            bool again;
            do {
                again = t.solve();
                printState("solve", (int) dim, sc.nodes, sc.edges);
                printConstraints(t, sc.edges, (int) dim);
                printFinalPositions(vs, (int) dim);
                --budget;
            } while (again && --loop > 0 && budget > 0);
        }
    }
    for (size_t i = 0; i < cs.size(); ++i) delete cs[i];
    for (size_t i = 0; i < vs.size(); ++i) delete vs[i];
    for (unsigned i = 0; i < n; ++i) sc.nodes[i]->var = nullptr;
}

static void resizeStep(vh::Rng &r, Scene &sc) {
    unsigned n = sc.nodes.size();
    int k = (int) r.range(1, 2);
    std::set<unsigned> ids;
    for (int i = 0; i < k; ++i) ids.insert((unsigned) r.range(0, n - 1));
    std::vector<vpsc::Rectangle *> targets;
    topology::ResizeMap resizes;
    for (std::set<unsigned>::iterator it = ids.begin(); it != ids.end(); ++it) {
        vpsc::Rectangle *o = sc.rs[*it];
        double w = std::max(1.0, o->width() + (double) r.range(-6, 16)), h = std::max(1.0, o->height() + (double) r.range(-6, 16));
        double cx = o->getCentreX() + (double) r.range(-4, 4) / 2.0, cy = o->getCentreY() + (double) r.range(-4, 4) / 2.0;
        vpsc::Rectangle *tr = new vpsc::Rectangle(cx - w / 2, cx + w / 2, cy - h / 2, cy + h / 2);
        targets.push_back(tr);
        printf("Z %u %s %s %s %s\n", *it, hx(tr->getMinX()).c_str(), hx(tr->getMaxX()).c_str(), hx(tr->getMinY()).c_str(), hx(tr->getMaxY()).c_str());
        resizes.insert(std::make_pair(*it, topology::ResizeInfo(sc.nodes[*it], tr)));
    }
    fflush(stdout);
    g_dim = 2;
    vpsc::Variables xvs, yvs;
    vpsc::Constraints xcs, ycs;
    for (unsigned i = 0; i < n; ++i) { xvs.push_back(new vpsc::Variable(i, sc.rs[i]->getCentreX())); yvs.push_back(new vpsc::Variable(i, sc.rs[i]->getCentreY())); }
    topology::applyResizes(sc.nodes, sc.edges, nullptr, resizes, xvs, xcs, yvs, ycs);
    printState("resize", 2, sc.nodes, sc.edges);
    for (size_t i = 0; i < xvs.size(); ++i) delete xvs[i];
    for (size_t i = 0; i < yvs.size(); ++i) delete yvs[i];
    for (size_t i = 0; i < xcs.size(); ++i) delete xcs[i];
    for (size_t i = 0; i < ycs.size(); ++i) delete ycs[i];
    for (size_t i = 0; i < targets.size(); ++i) delete targets[i];
    for (unsigned i = 0; i < n; ++i) sc.nodes[i]->var = nullptr;
}

// fixed scenes of libtopology/tests/simple_bend.cpp (hand-made paths with bends at corners)
static void simpleBendScene(Scene &sc, int which) {
    struct N { double x, y, w, h; };
    if (which == 0) {
        N ns[] = {{400, 170, 50, 30}, {420, 65, 50, 30}, {280, 220, 50, 30}};
        for (int i = 0; i < 3; ++i) sc.addNode(ns[i].x, ns[i].x + ns[i].w, ns[i].y, ns[i].y + ns[i].h);
        std::vector<std::pair<unsigned, int> > p; p.push_back(std::make_pair(2u, 4)); p.push_back(std::make_pair(1u, 4));
        if (pathValid(sc, p)) addEdge(sc, p, 210);
    } else if (which == 1 || which == 2) {
        N ns[] = {{0, 0, 54, 34}, {100, 100, 54, 34}, {which == 1 ? 0.0 : 100.0, 50, 54, 34}};
        for (int i = 0; i < 3; ++i) sc.addNode(ns[i].x, ns[i].x + ns[i].w, ns[i].y, ns[i].y + ns[i].h);
        std::vector<std::pair<unsigned, int> > p; p.push_back(std::make_pair(0u, 4)); p.push_back(std::make_pair(1u, 4));
        if (pathValid(sc, p)) addEdge(sc, p, 210);
    } else if (which == 3) {
        N ns[] = {{455.95, 324.166331, 54, 34}, {416.252794, 290.166331, 54, 34}, {620.342448, 342.224389, 54, 34}};
        for (int i = 0; i < 3; ++i) sc.addNode(ns[i].x, ns[i].x + ns[i].w, ns[i].y, ns[i].y + ns[i].h);
        std::vector<std::pair<unsigned, int> > p; p.push_back(std::make_pair(2u, 4)); p.push_back(std::make_pair(0u, 1)); p.push_back(std::make_pair(1u, 4));
        if (pathValid(sc, p)) addEdge(sc, p, 210);
    } else {
        N ns[] = {{0, 0, 10, 10}, {40, 50, 10, 10}, {10, 20, 10, 10}, {20, 20, 10, 10}, {15, 30, 10, 10}, {25, 30, 10, 10}};
        for (int i = 0; i < 6; ++i) sc.addNode(ns[i].x, ns[i].x + ns[i].w, ns[i].y, ns[i].y + ns[i].h);
        std::vector<std::pair<unsigned, int> > p;
        p.push_back(std::make_pair(0u, 4)); p.push_back(std::make_pair(2u, 1)); p.push_back(std::make_pair(3u, 3));
        p.push_back(std::make_pair(4u, 1)); p.push_back(std::make_pair(5u, 3)); p.push_back(std::make_pair(1u, 4));
        if (pathValid(sc, p)) addEdge(sc, p, 210);
    }
}

// straight edges only, built by hand (no libavoid): kept iff the straight segment is free
static void straightEdges(vh::Rng &r, Scene &sc, int m) {
    std::vector<std::pair<unsigned, unsigned> > want = randomPairs(r, sc.nodes.size(), m);
    for (size_t i = 0; i < want.size(); ++i) {
        std::vector<std::pair<unsigned, int> > p;
        p.push_back(std::make_pair(want[i].first, (int) EP::CENTRE));
        p.push_back(std::make_pair(want[i].second, (int) EP::CENTRE));
        if (pathValid(sc, p)) addEdge(sc, p, 40);
    }
}

static void sceneSolveCase(vh::Rng &r, int cls, bool thorough) {
    Scene sc;
    long amp = 60;
    if (cls == 0) {                       // hand: simple_bend scenes
        simpleBendScene(sc, (int) r.range(0, 4));
        amp = 150;
    } else if (cls == 1) {                // hand: straight edges
        genRects(r, sc, (int) r.range(3, 8), 90, r.range(0, 2), 28);
        straightEdges(r, sc, (int) r.range(1, 6));
    } else {                              // libavoid-tight routes; cls 3 = crowded (touching allowed)
        int n = (int) r.range(4, thorough ? 14 : 10);
        genRects(r, sc, n, cls == 3 ? 60 : 110, cls == 3 ? 0 : r.range(1, 3), cls == 3 ? 22 : 30);
        int dropped = routeWithAvoid(sc, randomPairs(r, sc.nodes.size(), (int) r.range(1, thorough ? 10 : 7)), 40);
        printf("X dropped %d\n", dropped);
    }
    printHeader(sc);
    if (sc.nodes.size() < 2) return;
    int budget = thorough ? 260 : 120;
    int phases = (int) r.range(2, thorough ? 10 : 6);
    vpsc::Dim dim = r.coin() ? vpsc::XDIM : vpsc::YDIM;
    bool withResize = (cls >= 1) && r.coin(1, 3);
    for (int ph = 0; ph < phases && budget > 0; ++ph) {
        solvePhase(r, sc, dim, (int) r.range(1, 3), amp, budget);
        dim = (dim == vpsc::XDIM) ? vpsc::YDIM : vpsc::XDIM;
        if (withResize && r.coin(1, 3)) { resizeStep(r, sc); budget -= 10; }
    }
}


// Deterministic witnesses of defect classes found by the random scenes (kept as regression inputs;
// their tags let the lead register them as known findings).
//  witness-endnode-visibility: three well separated nodes. Edge 0 runs from the centre of node 0
//  up-left to node 2; node 1 sits to the right of node 0 sharing scan lines with it. At node 1's
//  closing scan line the segment is still inside node 0, left of node 0's centre, so
//  NodeEvent::createStraightConstraints skips the StraightConstraint ("segment is not visible from
//  this node") - but node 0 is the segment's own end node and blocks nothing. Dragging node 2 to the
//  right sweeps the segment across node 1 unhindered.
static void witnessSolve(Scene &sc, vpsc::Dim dim, const std::vector<double> &des, const std::vector<double> &wts) {
    printHeader(sc);
    unsigned n = sc.nodes.size();
    vpsc::Variables vs;
    for (unsigned i = 0; i < n; ++i) vs.push_back(new vpsc::Variable(i, sc.rs[i]->getCentreD(dim)));
    topology::setNodeVariables(sc.nodes, vs);
    vpsc::Constraints cs;
    g_dim = (int) dim;
    {
        topology::TopologyConstraints t(dim, sc.nodes, sc.edges, nullptr, vs, cs);
        printState("construct", (int) dim, sc.nodes, sc.edges);
        printConstraints(t, sc.edges, (int) dim, &cs);
        printf("D %d", (int) dim);
        for (unsigned i = 0; i < n; ++i) {
            vs[i]->desiredPosition = des[i]; vs[i]->weight = wts[i];
            printf(" %s %s", hx(des[i]).c_str(), hx(wts[i]).c_str());
        }
        printf("\n"); fflush(stdout);
        int loop = 100; bool again;
        do { again = t.solve(); printState("solve", (int) dim, sc.nodes, sc.edges); printConstraints(t, sc.edges, (int) dim); printFinalPositions(vs, (int) dim); } while (again && --loop > 0);
    }
    for (size_t i = 0; i < cs.size(); ++i) delete cs[i];
    for (size_t i = 0; i < vs.size(); ++i) delete vs[i];
    for (unsigned i = 0; i < n; ++i) sc.nodes[i]->var = nullptr;
}

static void witnessEndnodeVisibility(int variant) {
    Scene sc;
    sc.addNode(0, 20, 0, 20);
    if (variant == 0) sc.addNode(22, 35, 5, 18);
    else sc.addNode(22, 40, 21, 34);      // control: shares no scan line with node 0 -> constraint exists, edge bends
    sc.addNode(-40, -20, 40, 60);
    std::vector<std::pair<unsigned, int> > p;
    p.push_back(std::make_pair(0u, (int) EP::CENTRE)); p.push_back(std::make_pair(2u, (int) EP::CENTRE));
    if (pathValid(sc, p)) addEdge(sc, p, 40);
    std::vector<double> des, wts;
    for (unsigned i = 0; i < 3; ++i) { des.push_back(sc.rs[i]->getCentreX()); wts.push_back(1); }
    des[2] = 100; wts[2] = 10000;
    witnessSolve(sc, vpsc::XDIM, des, wts);
}

//  witness-parallel-segment-bend: the library's own scene test5 of tests/simple_bend.cpp (touching
//  rectangles, the path runs along their shared sides, i.e. has segments parallel to the x axis and
//  a corner shared by two bends) with other desired x positions, all weights 1. After the first
//  solve() the bend at node 4's BR corner turns away from node 4 (assertConvexBend: "turn not
//  tight: C6"): two bends become degenerate at the same alpha but only one is removed.
static void witnessParallelSegmentBend() {
    Scene sc;
    simpleBendScene(sc, 4);
    static const double d[] = {25.25, 3.75, 66, 107.75, 19.5, 92.5};
    std::vector<double> des(d, d + 6), wts(6, 1.0);
    witnessSolve(sc, vpsc::XDIM, des, wts);
}


// ------------------------------------------------------------------ resize-focused strict class
//
// scene-resize-corners: a node R with one edge routed tightly round one or two of its corners, small
// bystander nodes next to the segments incident to those bends (the region the segments sweep when a
// side of R moves), then applyResizes() requests that move each of R's four sides separately or in
// combination. The canonical picture (edge round R.BR [and R.TR]) is mapped through the 8 symmetries
// of the square, so every corner and both axes are hit.
struct Sym {
    bool tr, mx, my;
    void pt(double &x, double &y) const { if (tr) std::swap(x, y); if (mx) x = -x; if (my) y = -y; }
    // canonical rectangle -> actual (minX,maxX,minY,maxY)
    void rect(double x0, double x1, double y0, double y1, double out[4]) const {
        double ax = x0, ay = y0, bx = x1, by = y1;
        pt(ax, ay); pt(bx, by);
        out[0] = std::min(ax, bx); out[1] = std::max(ax, bx); out[2] = std::min(ay, by); out[3] = std::max(ay, by);
    }
    int corner(int ri) const {
        bool xmax = (ri == EP::TR || ri == EP::BR), ymax = (ri == EP::TR || ri == EP::TL);
        if (tr) std::swap(xmax, ymax);
        if (mx) xmax = !xmax;
        if (my) ymax = !ymax;
        return xmax ? (ymax ? EP::TR : EP::BR) : (ymax ? EP::TL : EP::BL);
    }
};

static void popNode(Scene &sc) {
    delete sc.nodes.back(); sc.nodes.pop_back();
    delete sc.rs.back(); sc.rs.pop_back();
}

static void resizeExact(Scene &sc, unsigned id, double x0, double x1, double y0, double y1) {
    unsigned n = sc.nodes.size();
    vpsc::Rectangle target(x0, x1, y0, y1);
    printf("Z %u %s %s %s %s\n", id, hx(x0).c_str(), hx(x1).c_str(), hx(y0).c_str(), hx(y1).c_str());
    fflush(stdout);
    topology::ResizeMap resizes;
    resizes.insert(std::make_pair(id, topology::ResizeInfo(sc.nodes[id], &target)));
    g_dim = 2;
    vpsc::Variables xvs, yvs;
    vpsc::Constraints xcs, ycs;
    for (unsigned i = 0; i < n; ++i) { xvs.push_back(new vpsc::Variable(i, sc.rs[i]->getCentreX())); yvs.push_back(new vpsc::Variable(i, sc.rs[i]->getCentreY())); }
    topology::applyResizes(sc.nodes, sc.edges, nullptr, resizes, xvs, xcs, yvs, ycs);
    printState("resize", 2, sc.nodes, sc.edges);
    for (size_t i = 0; i < xvs.size(); ++i) delete xvs[i];
    for (size_t i = 0; i < yvs.size(); ++i) delete yvs[i];
    for (size_t i = 0; i < xcs.size(); ++i) delete xcs[i];
    for (size_t i = 0; i < ycs.size(); ++i) delete ycs[i];
    for (unsigned i = 0; i < n; ++i) sc.nodes[i]->var = nullptr;
}

static void sceneResizeCornersCase(vh::Rng &r, bool thorough) {
    Scene sc;
    Sym sym = {r.coin(), r.coin(), r.coin()};
    double q[4];
    // canonical frame: S lower-left, R in the middle, edge S -> R.BR (-> R.TR) -> T
    double rw = (double) r.range(12, 30), rh = (double) r.range(30, 70);
    double Rx0 = 100, Rx1 = 100 + rw, Ry0 = 40, Ry1 = 40 + rh;
    double sx = (double) r.range(-20, 40), sy = (double) r.range(-20, 20);
    bool twoBends = r.coin(2, 3);
    double tx, ty;
    if (twoBends) { tx = (double) r.range(30, 90); ty = Ry1 + (double) r.range(30, 70); }
    else {
        double dx = (double) r.range(12, 60), dy = (double) r.range(40, 120);
        // the turn at R.BR must be a left turn (round R): slope of BR->T steeper than slope of S->BR
        if ((Rx1 - sx) * dy - (Ry0 - sy) * dx <= 0) dy = (Ry0 - sy) * dx / (Rx1 - sx) + 20;
        tx = Rx1 + dx; ty = Ry0 + std::floor(dy);
    }
    sym.rect(sx - 10, sx + 10, sy - 10, sy + 10, q); sc.addNode(q[0], q[1], q[2], q[3]);     // 0 = S
    sym.rect(tx - 10, tx + 10, ty - 10, ty + 10, q); sc.addNode(q[0], q[1], q[2], q[3]);     // 1 = T
    sym.rect(Rx0, Rx1, Ry0, Ry1, q);               sc.addNode(q[0], q[1], q[2], q[3]);     // 2 = R
    std::vector<std::pair<unsigned, int> > pts;
    pts.push_back(std::make_pair(0u, (int) EP::CENTRE));
    pts.push_back(std::make_pair(2u, sym.corner(EP::BR)));
    if (twoBends) pts.push_back(std::make_pair(2u, sym.corner(EP::TR)));
    pts.push_back(std::make_pair(1u, (int) EP::CENTRE));
    // canonical polyline, for placing bystanders next to its legs
    std::vector<std::pair<double, double> > poly;
    poly.push_back(std::make_pair(sx, sy)); poly.push_back(std::make_pair(Rx1, Ry0));
    if (twoBends) poly.push_back(std::make_pair(Rx1, Ry1));
    poly.push_back(std::make_pair(tx, ty));
    int want = (int) r.range(1, thorough ? 6 : 4), tries = 0;
    while ((int) sc.nodes.size() < 3 + want && tries++ < 200) {
        size_t leg = (size_t) r.range(0, (long) poly.size() - 2);
        double t = (double) r.range(10, 90) / 100.0;
        double ax = poly[leg].first, ay = poly[leg].second, bx = poly[leg + 1].first, by = poly[leg + 1].second;
        double len = std::sqrt((bx - ax) * (bx - ax) + (by - ay) * (by - ay));
        double half = (double) r.range(3, 5);
        double off = (half * 1.5 + (double) r.range(1, 28)) * (r.coin() ? 1 : -1);
        double cx = std::floor(ax + t * (bx - ax) - off * (by - ay) / len), cy = std::floor(ay + t * (by - ay) + off * (bx - ax) / len);
        sym.rect(cx - half, cx + half, cy - half, cy + half, q);
        vpsc::Rectangle cand(q[0], q[1], q[2], q[3]);
        bool ok = true;
        for (size_t i = 0; i < sc.rs.size() && ok; ++i) ok = !rectsOverlap(&cand, sc.rs[i], 1.0);
        if (!ok) continue;
        sc.addNode(q[0], q[1], q[2], q[3]);
        if (!pathValid(sc, pts)) popNode(sc);
    }
    if (pathValid(sc, pts)) addEdge(sc, pts, 100);
    printHeader(sc);
    if (sc.edges.empty()) return;
    int rounds = (int) r.range(1, 3);
    for (int round = 0; round < rounds; ++round) {
        vpsc::Rectangle *R = sc.rs[2];
        int mask = (int) r.range(1, 15);
        double d[4];
        for (int i = 0; i < 4; ++i) d[i] = (mask >> i & 1) ? (double) (r.coin(3, 4) ? r.range(2, 35) : -r.range(1, 8)) : 0;
        double x0 = R->getMinX() - d[0], x1 = R->getMaxX() + d[1], y0 = R->getMinY() - d[2], y1 = R->getMaxY() + d[3];
        if (x1 - x0 < 4) { x0 = R->getMinX(); x1 = R->getMaxX(); }
        if (y1 - y0 < 4) { y0 = R->getMinY(); y1 = R->getMaxY(); }
        resizeExact(sc, 2, x0, x1, y0, y1);
    }
    if (r.coin(1, 3)) { int budget = 40; solvePhase(r, sc, r.coin() ? vpsc::XDIM : vpsc::YDIM, 1, 40, budget); }
}


// ------------------------------------------------------------------ grid-aligned ties
//
// scene-grid-ties: node sides lie on a 10-grid, so that a node side is EXACTLY on the scan line of
// another node's corner (the `c->pos==mid` tie of transferStraightConstraintChoose, the `==` event
// ties of CompareEvents). Within ONE TopologyConstraints instance several nodes are dragged (weight
// 10000) across edges; solve() is looped as in ColaTopologyAddon::moveTo and the state is dumped after
// every call. Every scene is passed through a random symmetry of the square (transposition swaps the
// pass dimension), so XDIM and YDIM passes see the same geometry.
//  kind 0 "kiss": edge A->B rising to the right, node W below it with its left side on x=m, node X
//                 above it with its right side on the same x=m; W is pushed up, X down, both beyond
//                 the edge: W's TL corner bends the edge at x=m, then X's BR corner arrives at that bend.
//  kind 1 random: 10x10 / 10x20 / 20x10 nodes in distinct, non-adjacent grid cells, straight edges,
//                 2-4 nodes dragged by multiples of 5 in the pass dimension.
static void dragPass(Scene &sc, vpsc::Dim dim, const std::vector<double> &des, const std::vector<double> &wts, int &budget) {
    unsigned n = sc.nodes.size();
    vpsc::Variables vs;
    for (unsigned i = 0; i < n; ++i) vs.push_back(new vpsc::Variable(i, sc.rs[i]->getCentreD(dim)));
    topology::setNodeVariables(sc.nodes, vs);
    vpsc::Constraints cs;
    g_dim = (int) dim;
    {
        printf("D %d", (int) dim);
        for (unsigned i = 0; i < n; ++i) printf(" %s %s", hx(des[i]).c_str(), hx(wts[i]).c_str());
        printf("\n"); fflush(stdout);
        topology::TopologyConstraints t(dim, sc.nodes, sc.edges, nullptr, vs, cs);
        // the constructor has run PruneDegenerate over every path: nothing moved, paths may have lost points
        printState("construct", (int) dim, sc.nodes, sc.edges);
        printConstraints(t, sc.edges, (int) dim, &cs);
        for (unsigned i = 0; i < n; ++i) { vs[i]->desiredPosition = des[i]; vs[i]->weight = wts[i]; }
        int loop = 100; bool again;
        do { again = t.solve(); printState("solve", (int) dim, sc.nodes, sc.edges); printConstraints(t, sc.edges, (int) dim); printFinalPositions(vs, (int) dim); --budget; } while (again && --loop > 0 && budget > 0);
    }
    for (size_t i = 0; i < cs.size(); ++i) delete cs[i];
    for (size_t i = 0; i < vs.size(); ++i) delete vs[i];
    for (unsigned i = 0; i < n; ++i) sc.nodes[i]->var = nullptr;
}

static void sceneGridTiesCase(vh::Rng &r, bool thorough) {
    Scene sc;
    Sym sym = {r.coin(), r.coin(), r.coin()};
    vpsc::Dim canonDim = vpsc::YDIM;                       // canonical pass is vertical
    double q[4];
    int kind = r.coin(1, 2) ? 0 : 1;
    std::vector<double> desC;                               // desired canonical-y centre per node (kind 0)
    std::vector<double> wts;
    int budget = thorough ? 200 : 120;
    if (kind == 0) {
        long bx = 10 * r.range(4, 9), by = 10 * r.range(2, 5);
        long m = 10 * r.range(2, bx / 10 - 2);
        double em = (double) by * (double) m / (double) bx;                 // height of the edge at x=m
        double shift = r.coin(1, 6) ? 0.5 : 0;                              // occasional non-tied control
        double wTop = std::floor(em) - (double) r.range(1, 6), xBot = std::ceil(em) + (double) r.range(5, 20);
        long ww = 10 * r.range(1, 2), xw = 10 * r.range(1, 2);
        double rect[4][4] = {{-5, 5, -5, 5}, {(double) bx - 5, (double) bx + 5, (double) by - 5, (double) by + 5},
                             {(double) m, (double) (m + ww), wTop - 10, wTop},
                             {(double) (m - xw) - shift, (double) m - shift, xBot, xBot + 10}};
        for (int i = 0; i < 4; ++i) { sym.rect(rect[i][0], rect[i][1], rect[i][2], rect[i][3], q); sc.addNode(q[0], q[1], q[2], q[3]); }
        double dW = (wTop - 5) + (em - wTop) + (double) r.range(3, 15), dX = (xBot + 5) - (xBot - em) - (double) r.range(3, 15);
        double d[4] = {0, (double) by, dW, dX};
        for (int i = 0; i < 4; ++i) { desC.push_back(d[i]); wts.push_back(i >= 2 ? 10000.0 : 1.0); }
        std::vector<std::pair<unsigned, int> > p;
        p.push_back(std::make_pair(0u, (int) EP::CENTRE)); p.push_back(std::make_pair(1u, (int) EP::CENTRE));
        if (pathValid(sc, p)) addEdge(sc, p, 10);
    } else {
        int n = (int) r.range(4, thorough ? 9 : 7), tries = 0;
        std::set<std::pair<long, long> > used;
        while ((int) sc.rs.size() < n && tries++ < 400) {
            long cx = r.range(0, 9), cy = r.range(0, 9), w = r.coin(1, 4) ? 2 : 1, h = (w == 1 && r.coin(1, 4)) ? 2 : 1;
            bool ok = true;
            for (long i = -1; i <= w && ok; ++i) for (long j = -1; j <= h && ok; ++j) ok = !used.count(std::make_pair(cx + i, cy + j));
            if (!ok) continue;
            for (long i = 0; i < w; ++i) for (long j = 0; j < h; ++j) used.insert(std::make_pair(cx + i, cy + j));
            sym.rect(10.0 * cx, 10.0 * (cx + w), 10.0 * cy, 10.0 * (cy + h), q);
            sc.addNode(q[0], q[1], q[2], q[3]);
        }
        straightEdges(r, sc, (int) r.range(1, 5));
    }
    printHeader(sc);
    if (sc.nodes.size() < 2 || sc.edges.empty()) return;
    vpsc::Dim dim = sym.tr ? (canonDim == vpsc::YDIM ? vpsc::XDIM : vpsc::YDIM) : canonDim;
    unsigned n = sc.nodes.size();
    if (kind == 0) {
        // canonical y -> actual coordinate in the pass dimension
        std::vector<double> des(n);
        for (unsigned i = 0; i < n; ++i) {
            double x = 0, y = desC[i];
            // only the y component matters: transform (0,y) and read the pass-dimension coordinate
            sym.pt(x, y);
            des[i] = (dim == vpsc::XDIM) ? x : y;
        }
        dragPass(sc, dim, des, wts, budget);
    }
    int passes = (kind == 0) ? (int) r.range(0, 2) : (int) r.range(2, thorough ? 6 : 4);
    for (int ps = 0; ps < passes && budget > 0; ++ps) {
        if (kind == 1 || ps > 0) dim = r.coin() ? vpsc::XDIM : vpsc::YDIM;
        std::vector<double> des(n), w(n, 1.0);
        for (unsigned i = 0; i < n; ++i) des[i] = sc.rs[i]->getCentreD(dim);
        int drags = (int) r.range(2, 4);
        for (int j = 0; j < drags; ++j) {
            unsigned id = (unsigned) r.range(0, n - 1);
            des[id] = std::floor(des[id]) + 5.0 * (double) r.range(-8, 8);
            w[id] = 10000;
        }
        dragPass(sc, dim, des, w, budget);
    }
}


// ------------------------------------------------------------------ closed boundary paths
//
// scene-cycles: a cyclic topology::Edge - the convex hull of the corners of 2-4 member nodes, as
// ColaTopologyAddon::makeFeasible builds for a ConvexCluster (last EdgePoint == first EdgePoint) -
// listed counter-clockwise starting from a random hull corner (the join point of the list varies),
// plus 1-3 outside nodes. History: members are dragged inward (hull bends straighten and are pruned,
// the join-point bend included), then outside nodes are dragged against / across the boundary.
static double cross2(double ax, double ay, double bx, double by, double cx, double cy) { return (bx - ax) * (cy - ay) - (cx - ax) * (by - ay); }

struct HullPt { double x, y; unsigned node; int ri; };
static bool hullLess(const HullPt &a, const HullPt &b) { return a.x < b.x || (a.x == b.x && a.y < b.y); }

static std::vector<HullPt> hullOfMembers(const Scene &sc, unsigned members) {
    std::vector<HullPt> pts;
    for (unsigned i = 0; i < members; ++i) for (int ri = 0; ri < 4; ++ri) {
        EP tmp(sc.nodes[i], (EP::RectIntersect) ri);
        HullPt h = {tmp.posX(), tmp.posY(), i, ri};
        pts.push_back(h);
    }
    std::sort(pts.begin(), pts.end(), hullLess);
    std::vector<HullPt> h(2 * pts.size());
    size_t k = 0;
    for (size_t i = 0; i < pts.size(); ++i) {            // lower hull, strict (collinear points dropped)
        while (k >= 2 && cross2(h[k - 2].x, h[k - 2].y, h[k - 1].x, h[k - 1].y, pts[i].x, pts[i].y) <= 0) --k;
        h[k++] = pts[i];
    }
    for (size_t i = pts.size() - 1, t = k + 1; i > 0; --i) {
        while (k >= t && cross2(h[k - 2].x, h[k - 2].y, h[k - 1].x, h[k - 1].y, pts[i - 1].x, pts[i - 1].y) <= 0) --k;
        h[k++] = pts[i - 1];
    }
    h.resize(k - 1);                                      // counter-clockwise (y up), no repeated first point
    return h;
}

static bool insidePoly(const std::vector<HullPt> &h, double x, double y) {
    bool in = false;
    for (size_t i = 0, j = h.size() - 1; i < h.size(); j = i++)
        if ((h[i].y > y) != (h[j].y > y) && x < (h[j].x - h[i].x) * (y - h[i].y) / (h[j].y - h[i].y) + h[i].x) in = !in;
    return in;
}

static void sceneCyclesCase(vh::Rng &r, bool thorough) {
    Scene sc;
    g_cyclic.clear();
    int members = (int) r.range(2, 4);
    genRects(r, sc, members, 90, r.range(2, 6), 20);
    members = (int) sc.rs.size();
    if (members < 2) { printHeader(sc); return; }
    std::vector<HullPt> hull = hullOfMembers(sc, (unsigned) members);
    // outside nodes
    int outs = (int) r.range(1, 3), tries = 0;
    while ((int) sc.rs.size() < members + outs && tries++ < 300) {
        long w = r.range(4, 12), hgt = r.range(4, 12), x = r.range(-40, 140), y = r.range(-40, 140);
        vpsc::Rectangle cand(x, x + w, y, y + hgt);
        bool ok = !insidePoly(hull, x + w / 2.0, y + hgt / 2.0);
        for (size_t i = 0; i < hull.size() && ok; ++i) {
            const HullPt &a = hull[i], &b = hull[(i + 1) % hull.size()];
            ok = !segHitsRect(a.x, a.y, b.x, b.y, &cand, -1.5);
        }
        for (size_t i = 0; i < sc.rs.size() && ok; ++i) ok = !rectsOverlap(&cand, sc.rs[i], 1.0);
        if (ok) sc.addNode(x, x + w, y, y + hgt);
    }
    // the closed path, listed from a random hull corner
    size_t rot = (size_t) r.range(0, (long) hull.size() - 1);
    topology::EdgePoints eps;
    for (size_t i = 0; i < hull.size(); ++i) {
        const HullPt &hp = hull[(i + rot) % hull.size()];
        eps.push_back(new EP(sc.nodes[hp.node], (EP::RectIntersect) hp.ri));
    }
    eps.push_back(eps[0]);
    sc.edges.push_back(new topology::Edge(0, 300, eps));
    sc.ends.push_back(std::make_pair(eps[0]->node->id, eps[0]->node->id));
    g_cyclic.insert(0);
    printHeader(sc);
    unsigned n = sc.nodes.size();
    int budget = thorough ? 160 : 90;
    int inward = (int) r.range(1, 3), outward = (int) r.range(1, 3);
    unsigned joinNode = hull[rot].node;
    for (int ps = 0; ps < inward + outward && budget > 0; ++ps) {
        vpsc::Dim dim = r.coin() ? vpsc::XDIM : vpsc::YDIM;
        std::vector<double> des(n), w(n, 1.0);
        for (unsigned i = 0; i < n; ++i) des[i] = sc.rs[i]->getCentreD(dim);
        if (ps < inward) {
            // a member (often the node carrying the join point) moves towards the centroid of the others
            unsigned id = r.coin() ? joinNode : (unsigned) r.range(0, members - 1);
            double c = 0; int cnt = 0;
            for (int i = 0; i < members; ++i) if ((unsigned) i != id) { c += sc.rs[i]->getCentreD(dim); ++cnt; }
            des[id] = std::floor(c / cnt) + (double) r.range(-6, 6);
            w[id] = 10000;
        } else if (n > (unsigned) members) {
            // an outside node is pushed across the cluster
            unsigned id = (unsigned) r.range(members, n - 1);
            double c = 0;
            for (int i = 0; i < members; ++i) c += sc.rs[i]->getCentreD(dim);
            c /= members;
            des[id] = r.coin() ? std::floor(2 * c - des[id]) : std::floor(c) + (double) r.range(-10, 10);
            w[id] = 10000;
        }
        dragPass(sc, dim, des, w, budget);
    }
}

// ------------------------------------------------------------------ corner-on-corner end states
//
// scene-corner-coincide: two nodes in TOUCHING rows - N lies in the row directly above M
// (N.minY == M.maxY exactly), so N can slide over M - and an edge A -> B that passes the point
// X = M.TL. N is dragged along its row to grid positions; the position in which N's BR corner lies
// EXACTLY on X (N.maxX == M.minX: a corner on a corner, the two bend points of the path coincide,
// the segment between them has length zero) is chosen with high probability. Every pass constructs
// a fresh TopologyConstraints (as ColaTopologyAddon::moveTo does), so PruneDegenerate sees the
// degenerate state the previous pass ended in; passes in the other axis, passes in which nothing
// moves and passes that drag M are mixed in. The state the constructor leaves is dumped
// ("S construct") and compared with Model/TopoPrune.lean by the driver.
//   geometry 0: the turn A -> X -> B goes round M (initial path A -> M.TL -> B); a bend at N.BR is
//               only genuine while N straddles X
//   geometry 1: the turn goes round N (initial path A -> N.BR -> B); a bend at M.TL is only genuine
//               while N.BR is to the right of X
//   start 0: N to the left of X   start 1: N.BR on X, path A -> M.TL -> N.BR -> B built directly
//   start 2: N straddles X, path A -> M.TL -> N.BR -> B
// With probability 1/2 a second edge A' -> B' passes the same point X (own turn direction, own listing order).
// The canonical picture goes through a random symmetry of the square (all four diagonal
// arrangements of the two nodes, both slide axes) and the path is listed from A or from B (which of
// the two coincident points comes first).
struct SymInv {
    Sym s;
    void inv(double &x, double &y) const { if (s.my) y = -y; if (s.mx) x = -x; if (s.tr) std::swap(x, y); }
    // actual rectangle -> canonical (minX,maxX,minY,maxY)
    void rect(const vpsc::Rectangle *r, double out[4]) const {
        double ax = r->getMinX(), ay = r->getMinY(), bx = r->getMaxX(), by = r->getMaxY();
        inv(ax, ay); inv(bx, by);
        out[0] = std::min(ax, bx); out[1] = std::max(ax, bx); out[2] = std::min(ay, by); out[3] = std::max(ay, by);
    }
    vpsc::Dim dim(int canon) const { return ((canon == 0) != s.tr) ? vpsc::XDIM : vpsc::YDIM; }
    // canonical coordinate v on canonical axis `canon` -> actual coordinate on dim(canon)
    double coord(int canon, double v) const {
        double x = canon == 0 ? v : 0, y = canon == 0 ? 0 : v;
        s.pt(x, y);
        return dim(canon) == vpsc::XDIM ? x : y;
    }
};

static void sceneCornerCoincideCase(vh::Rng &r, bool thorough) {
    Scene sc;
    SymInv si; si.s.tr = r.coin(); si.s.mx = r.coin(); si.s.my = r.coin();
    const Sym &sym = si.s;
    double q[4];
    int geom = r.coin() ? 0 : 1, start = (int) r.range(0, 2);
    bool reversed = r.coin();
    double mh = 10.0 * r.range(2, 4), mw = 10.0 * r.range(3, 6), nw = 10.0 * r.range(2, 5), nh = 10.0 * r.range(2, 3);
    double n1 = start == 0 ? 100 - 10.0 * r.range(1, 4) : start == 1 ? 100 : 100 + 5.0 * r.range(1, 3);   // N.maxX
    // centres of the two end nodes of an edge whose turn at X goes round M (g == 0) or round N (g == 1)
    auto sampleEnds = [&](int g, double &ax, double &ay, double &bx, double &by) -> bool {
        for (int tries = 0; tries < 200; ++tries) {
            ax = 5.0 * r.range(4, 17); ay = 5.0 * r.range(-12, (long) (mh - 10) / 5);
            bx = 100 + 5.0 * r.range(6, 30); by = mh + nh + 10 + 5.0 * r.range(0, 16);
            double turn = (100 - ax) * (by - mh) - (mh - ay) * (bx - 100);        // < 0: right turn at X (round M)
            bool ok = g == 0 ? turn < 0 : turn > 0;
            // g == 1, N to the left of X: the initial bend is at N.BR = (n1, mh), it has to be a left turn there as well
            if (ok && g == 1 && start == 0) ok = (n1 - ax) * (by - mh) - (mh - ay) * (bx - n1) > 0 && ax + 10 <= n1 - 5;
            if (ok) return true;
        }
        return false;
    };
    auto pathOf = [&](int g, unsigned a, unsigned b, bool rev) {
        std::vector<std::pair<unsigned, int> > pts;
        pts.push_back(std::make_pair(a, (int) EP::CENTRE));
        if (start > 0 || g == 0) pts.push_back(std::make_pair(2u, sym.corner(EP::TL)));
        if (start > 0 || g == 1) pts.push_back(std::make_pair(3u, sym.corner(EP::BR)));
        pts.push_back(std::make_pair(b, (int) EP::CENTRE));
        if (rev) std::reverse(pts.begin(), pts.end());
        return pts;
    };
    double ax = 0, ay = 0, bx = 0, by = 0;
    bool found = sampleEnds(geom, ax, ay, bx, by);
    sym.rect(ax - 10, ax + 10, ay - 10, ay + 10, q); sc.addNode(q[0], q[1], q[2], q[3]);     // 0 = A
    sym.rect(bx - 10, bx + 10, by - 10, by + 10, q); sc.addNode(q[0], q[1], q[2], q[3]);     // 1 = B
    sym.rect(100, 100 + mw, 0, mh, q);               sc.addNode(q[0], q[1], q[2], q[3]);     // 2 = M
    sym.rect(n1 - nw, n1, mh, mh + nh, q);           sc.addNode(q[0], q[1], q[2], q[3]);     // 3 = N
    std::vector<std::pair<unsigned, int> > pts = pathOf(geom, 0, 1, reversed);
    // second edge A' -> B' past the same point X (its own turn direction, its own listing order): the constructor then
    // has to prune in two paths at once
    int geom2 = -1;
    std::vector<std::pair<unsigned, int> > pts2;
    if (found && r.coin()) {
        int g2 = r.coin() ? 0 : 1;
        bool rev2 = r.coin();
        for (int tries = 0; tries < 20 && geom2 < 0; ++tries) {
            double ax2, ay2, bx2, by2;
            if (!sampleEnds(g2, ax2, ay2, bx2, by2)) break;
            sym.rect(ax2 - 10, ax2 + 10, ay2 - 10, ay2 + 10, q); sc.addNode(q[0], q[1], q[2], q[3]);     // 4 = A'
            sym.rect(bx2 - 10, bx2 + 10, by2 - 10, by2 + 10, q); sc.addNode(q[0], q[1], q[2], q[3]);     // 5 = B'
            pts2 = pathOf(g2, 4, 5, rev2);
            bool ok = !rectsOverlap(sc.rs[4], sc.rs[0], 0) && !rectsOverlap(sc.rs[5], sc.rs[1], 0) && pathValid(sc, pts) && pathValid(sc, pts2);
            if (ok) geom2 = g2; else { popNode(sc); popNode(sc); }
        }
    }
    if (found && pathValid(sc, pts)) { addEdge(sc, pts, 100); if (geom2 >= 0) addEdge(sc, pts2, 100); }
    printf("X geom %d start %d reversed %d sym %d%d%d geom2 %d\n", geom, start, (int) reversed, (int) sym.tr, (int) sym.mx, (int) sym.my, geom2);
    printHeader(sc);
    if (sc.edges.empty()) return;
    unsigned n = sc.nodes.size();
    int budget = thorough ? 200 : 120;
    int passes = (int) r.range(2, thorough ? 7 : 5);
    for (int ps = 0; ps < passes && budget > 0; ++ps) {
        int kind = (int) r.range(0, 9);          // 0-5 slide N, 6 no-op, 7 other-axis N, 8-9 drag M / A / B
        int canon = 0;
        unsigned id = 3;
        double target = 0;                        // canonical centre coordinate on axis `canon`
        bool move = true;
        double c[4];
        if (kind <= 5) {
            si.rect(sc.rs[2], c); double mLeft = c[0];
            si.rect(sc.rs[3], c);
            double off = r.coin(2, 5) ? 0 : 5.0 * r.range(-6, 6);
            if (ps == 0 && start == 1) off = 5.0 * r.range(-6, 6);      // leave the coincidence straight away
            target = mLeft + off - (c[1] - c[0]) / 2;
        } else if (kind == 6) {
            move = false; canon = r.coin() ? 0 : 1;
        } else {
            canon = kind == 7 ? 1 : (int) r.range(0, 1);
            id = kind == 7 ? 3u : r.coin(1, 4) ? (unsigned) r.range(0, n - 1) : (unsigned) r.range(0, 2);
            si.rect(sc.rs[id], c);
            double cur = canon == 0 ? (c[0] + c[1]) / 2 : (c[2] + c[3]) / 2;
            target = cur + 5.0 * r.range(-6, 6);
        }
        vpsc::Dim dim = si.dim(canon);
        std::vector<double> des(n), w(n, 1.0);
        for (unsigned i = 0; i < n; ++i) des[i] = sc.rs[i]->getCentreD(dim);
        if (move) { des[id] = si.coord(canon, target); w[id] = 10000; }
        dragPass(sc, dim, des, w, budget);
    }
}


// ------------------------------------------------------------------ PruneDegenerate rule tie
//
// prune-rule: many small constructed paths per case, each handed to a fresh TopologyConstraints
// (whose constructor runs PruneDegenerate); only the pruning is observed.
//   q <dim> <k> (<x> <y> <cx> <cy>)^k        one line per path, before the constructor is called
//   kept <m> <i_1> ... <i_m>                 one line per path, in the same order, afterwards
// = the path as the rule sees it (position of each EdgePoint and centre of its node's rectangle) and
// the indices of the points that survive the constructor. Shapes (canonical frame, then a random
// symmetry of the square, listed from either end, either axis):
//   pair      A -> M.TL -> N.BR -> B with N.BR exactly on M.TL (N in the row above M), the turn at X
//             going round M or round N (the other bend is stale); A anywhere below-left (also straight
//             below X), B anywhere above-right (also level with X)
//   apart     the same with N.BR 5 or 10 to the right of M.TL (no coincidence: nothing to prune)
//   collinear A -> M.TL -> N.BR -> K.BR -> B with a third node K in N's row: three bend points on one
//             line parallel to the x axis (pruned in an x pass only)
// One to three edges (own end nodes, own listing order) pass the same corner(s), so the constructor's prune list
// holds several points of several paths.
// Generator-side filter (precondition, not a verdict): node rectangles do not overlap, no leg cuts a
// node, and in a coincident pair exactly one of the two points is a tight strict turn (the states a
// layout pass can end in; otherwise the library's own COLA_ASSERTs reject the input).
static bool hValidTurn(const EP *u, const EP *v, const EP *w) {
    double c = cross2(u->posX(), u->posY(), v->posX(), v->posY(), w->posX(), w->posY());
    if (c == 0) return true;
    double rx = v->node->rect->getCentreX(), ry = v->node->rect->getCentreY();
    return c * cross2(u->posX(), u->posY(), v->posX(), v->posY(), rx, ry) > 0 &&
           c * cross2(v->posX(), v->posY(), w->posX(), w->posY(), rx, ry) > 0;
}

// every bend that is not part of a coincident pair has to be a proper bend; of a coincident pair exactly one
static bool pruneRuleInputOk(const topology::Edge *e) {
    topology::ConstEdgePoints path;
    e->getPath(path);
    size_t k = path.size();
    for (size_t i = 1; i + 1 < k; ++i) {
        bool inZ = path[i - 1]->posX() == path[i]->posX() && path[i - 1]->posY() == path[i]->posY();
        bool outZ = path[i + 1]->posX() == path[i]->posX() && path[i + 1]->posY() == path[i]->posY();
        if (inZ && i >= 2) {
            const EP *n = path[i - 2], *o = path[i - 1], *pp = path[i], *qq = path[i + 1];
            double c = cross2(n->posX(), n->posY(), pp->posX(), pp->posY(), qq->posX(), qq->posY());
            if (!(c != 0 && (hValidTurn(n, o, qq) != hValidTurn(n, pp, qq)))) return false;
        } else if (!inZ && !outZ) {
            if (!hValidTurn(path[i - 1], path[i], path[i + 1])) return false;
        }
    }
    return true;
}

static void pruneRuleCase(vh::Rng &r) {
    int done = 0;
    for (int attempt = 0; attempt < 400 && done < 40; ++attempt) {
        Scene sc;
        Sym sym = {r.coin(), r.coin(), r.coin()};
        double q[4];
        int shape = (int) r.range(0, 5);            // 0-3 pair, 4 apart, 5 collinear
        double mh = 10.0 * r.range(2, 4), mw = 10.0 * r.range(3, 9), nw = 10.0 * r.range(2, 5), nh = 10.0 * r.range(2, 3);
        double s = shape <= 3 ? 0 : 5.0 * r.range(1, 2);
        sym.rect(100, 100 + mw, 0, mh, q);               sc.addNode(q[0], q[1], q[2], q[3]);     // 0 = M
        sym.rect(100 + s - nw, 100 + s, mh, mh + nh, q); sc.addNode(q[0], q[1], q[2], q[3]);     // 1 = N
        std::vector<std::pair<unsigned, int> > mid;
        mid.push_back(std::make_pair(0u, sym.corner(EP::TL)));
        mid.push_back(std::make_pair(1u, sym.corner(EP::BR)));
        if (shape == 5) {
            double k0 = 100 + s + 5.0 * r.range(0, 3), kw = 10.0 * r.range(1, 3);
            sym.rect(k0, k0 + kw, mh, mh + 10.0 * r.range(1, 3), q); sc.addNode(q[0], q[1], q[2], q[3]);   // 2 = K
            mid.push_back(std::make_pair(2u, sym.corner(EP::BR)));
        }
        // one to three edges past the same corner(s), each with its own end nodes and listing order
        int wantEdges = (int) r.range(1, 3);
        std::vector<std::vector<std::pair<unsigned, int> > > paths;
        for (int e = 0; e < wantEdges; ++e) {
            for (int tries = 0; tries < 30; ++tries) {
                double ax = 5.0 * r.range(4, 20), ay = 5.0 * r.range(-12, (long) (mh - 10) / 5);
                double bx = 100 + 5.0 * r.range(0, 30), by = mh + 5.0 * r.range(0, 24);
                unsigned a = sc.nodes.size();
                sym.rect(ax - 10, ax + 10, ay - 10, ay + 10, q); sc.addNode(q[0], q[1], q[2], q[3]);
                sym.rect(bx - 10, bx + 10, by - 10, by + 10, q); sc.addNode(q[0], q[1], q[2], q[3]);
                bool ok = true;
                for (size_t i = 0; i < sc.rs.size() && ok; ++i) for (size_t j = std::max<size_t>(i + 1, a); j < sc.rs.size() && ok; ++j) ok = !rectsOverlap(sc.rs[i], sc.rs[j], 0);
                std::vector<std::pair<unsigned, int> > pts;
                pts.push_back(std::make_pair(a, (int) EP::CENTRE));
                pts.insert(pts.end(), mid.begin(), mid.end());
                pts.push_back(std::make_pair(a + 1, (int) EP::CENTRE));
                if (r.coin()) std::reverse(pts.begin(), pts.end());
                // pathValid rejects repeated (node, corner) pairs only; coincident points of different nodes are what we want
                ok = ok && pathValid(sc, pts);
                for (size_t f = 0; f < paths.size() && ok; ++f) ok = pathValid(sc, paths[f]);       // the new end nodes are not in the way
                if (ok) {
                    topology::EdgePoints eps;
                    for (size_t i = 0; i < pts.size(); ++i) eps.push_back(new EP(sc.nodes[pts[i].first], (EP::RectIntersect) pts[i].second));
                    topology::Edge probe(0, 100, eps);
                    ok = pruneRuleInputOk(&probe);
                }
                if (ok) { paths.push_back(pts); break; }
                popNode(sc); popNode(sc);
            }
        }
        if (paths.empty()) continue;
        for (size_t f = 0; f < paths.size(); ++f) addEdge(sc, paths[f], 100);
        vpsc::Dim dim = r.coin() ? vpsc::XDIM : vpsc::YDIM;
        std::vector<std::vector<std::pair<unsigned, int> > > ids(sc.edges.size());
        for (size_t f = 0; f < sc.edges.size(); ++f) {
            topology::ConstEdgePoints path;
            sc.edges[f]->getPath(path);
            printf("q %d %zu", (int) dim, path.size());
            for (size_t i = 0; i < path.size(); ++i) {
                const vpsc::Rectangle *rc = path[i]->node->rect;
                printf(" %s %s %s %s", hx(path[i]->posX()).c_str(), hx(path[i]->posY()).c_str(), hx(rc->getCentreX()).c_str(), hx(rc->getCentreY()).c_str());
                ids[f].push_back(std::make_pair(path[i]->node->id, (int) path[i]->rectIntersect));
            }
            printf("\n");
        }
        fflush(stdout);                                  // (the library may print diagnostics of its own to stdout)
        g_nodes = &sc.nodes; g_edges = &sc.edges; g_dim = (int) dim;
        unsigned n = sc.nodes.size();
        vpsc::Variables vs;
        for (unsigned i = 0; i < n; ++i) vs.push_back(new vpsc::Variable(i, sc.rs[i]->getCentreD(dim)));
        topology::setNodeVariables(sc.nodes, vs);
        vpsc::Constraints cs;
        {
            topology::TopologyConstraints t(dim, sc.nodes, sc.edges, nullptr, vs, cs);
            for (size_t f = 0; f < sc.edges.size(); ++f) {
                topology::ConstEdgePoints after;
                sc.edges[f]->getPath(after);
                printf("kept %zu", after.size());
                size_t from = 0;
                for (size_t j = 0; j < after.size(); ++j) {
                    std::pair<unsigned, int> id = std::make_pair(after[j]->node->id, (int) after[j]->rectIntersect);
                    size_t i = from;
                    while (i < ids[f].size() && ids[f][i] != id) ++i;
                    printf(" %zu", i);                      // k = not a point of the input path
                    if (i < ids[f].size()) from = i + 1;
                }
                printf("\n");
            }
        }
        g_nodes = nullptr; g_edges = nullptr;
        for (size_t i = 0; i < cs.size(); ++i) delete cs[i];
        for (size_t i = 0; i < vs.size(); ++i) delete vs[i];
        for (unsigned i = 0; i < n; ++i) sc.nodes[i]->var = nullptr;
        ++done;
    }
}


// ------------------------------------------------------------------ ConstrainedFDLayout + addon

struct SnapAddon : public topology::ColaTopologyAddon {
    SnapAddon(topology::Nodes &ns, topology::Edges &es) : topology::ColaTopologyAddon(ns, es) {}
    cola::TopologyAddonInterface *clone(void) const { return new SnapAddon(*this); }
    void moveTo(const vpsc::Dim dim, vpsc::Variables &vs, vpsc::Constraints &cs, std::valarray<double> &coords,
                cola::RootCluster *ch) {
        g_dim = (int) dim;
        topology::ColaTopologyAddon::moveTo(dim, vs, cs, coords, ch);
        printState("fd-move", (int) dim, topologyNodes, topologyRoutes);
    }
    double applyForcesAndConstraints(cola::ConstrainedFDLayout *layout, const vpsc::Dim dim, std::valarray<double> &g,
                                     vpsc::Variables &vs, vpsc::Constraints &cs, std::valarray<double> &coords,
                                     cola::DesiredPositionsInDim &des, double oldStress) {
        g_dim = (int) dim;
        double s = topology::ColaTopologyAddon::applyForcesAndConstraints(layout, dim, g, vs, cs, coords, des, oldStress);
        printState("fd-force", (int) dim, topologyNodes, topologyRoutes);
        return s;
    }
    void handleResizes(const cola::Resizes &rl, unsigned n, std::valarray<double> &X, std::valarray<double> &Y,
                       cola::CompoundConstraints &ccs, vpsc::Rectangles &bbs, cola::RootCluster *ch) {
        g_dim = 2;
        topology::ColaTopologyAddon::handleResizes(rl, n, X, Y, ccs, bbs, ch);
        printState("fd-resize", 2, topologyNodes, topologyRoutes);
    }
};

struct CountDone : public cola::TestConvergence {
    unsigned maxIt, it;
    CountDone(unsigned m) : cola::TestConvergence(1e-9, m), maxIt(m), it(0) {}
    bool operator()(const double, std::valarray<double> &, std::valarray<double> &) { return ++it >= maxIt; }
};

struct DragPre : public cola::PreIteration {
    cola::Locks lk; cola::Resizes rz;
    bool drag; unsigned id; double x, y, dx, dy; unsigned iter;
    DragPre() : cola::PreIteration(lk, rz), drag(false), id(0), x(0), y(0), dx(0), dy(0), iter(0) {}
    bool operator()() {
        if (iter > 0) rz.clear();               // a resize request is applied once
        if (drag) { x += dx; y += dy; lk.clear(); lk.push_back(cola::Lock(id, x, y)); }
        changed = true;
        ++iter;
        return true;
    }
};

static void sceneFdCase(vh::Rng &r, bool thorough) {
    Scene sc;
    int n = (int) r.range(4, thorough ? 12 : 9);
    genRects(r, sc, n, 110, r.range(1, 3), 30);
    std::vector<std::pair<unsigned, unsigned> > want = randomPairs(r, sc.nodes.size(), (int) r.range(2, 8));
    int dropped = routeWithAvoid(sc, want, 40);
    printf("X dropped %d\n", dropped);
    printHeader(sc);
    if (sc.nodes.size() < 2 || sc.edges.empty()) return;
    std::vector<cola::Edge> ces;
    for (size_t e = 0; e < sc.ends.size(); ++e) ces.push_back(std::make_pair(sc.ends[e].first, sc.ends[e].second));
    double ideal = (double) r.range(20, 70);
    unsigned iters = (unsigned) r.range(1, thorough ? 6 : 3);
    bool overlaps = r.coin();
    DragPre pre;
    if (r.coin(1, 2)) {
        pre.drag = true; pre.id = (unsigned) r.range(0, sc.nodes.size() - 1);
        pre.x = sc.rs[pre.id]->getCentreX(); pre.y = sc.rs[pre.id]->getCentreY();
        pre.dx = (double) r.range(-12, 12); pre.dy = (double) r.range(-12, 12);
    }
    if (r.coin(1, 4)) {
        unsigned id = (unsigned) r.range(0, sc.nodes.size() - 1);
        vpsc::Rectangle *o = sc.rs[id];
        double w = o->width() + (double) r.range(0, 20), h = o->height() + (double) r.range(0, 20);
        pre.rz.push_back(cola::Resize(id, o->getCentreX() - w / 2, o->getCentreY() - h / 2, w, h));
        printf("Z %u %s %s %s %s\n", id, hx(o->getCentreX() - w / 2).c_str(), hx(o->getCentreX() + w / 2).c_str(),
               hx(o->getCentreY() - h / 2).c_str(), hx(o->getCentreY() + h / 2).c_str());
    }
    printf("F %s %u %d %d %u %s %s\n", hx(ideal).c_str(), iters, (int) overlaps, (int) pre.drag, pre.id, hx(pre.dx).c_str(), hx(pre.dy).c_str());
    fflush(stdout);
    {
        CountDone done(iters);
        cola::ConstrainedFDLayout alg(sc.rs, ces, ideal, cola::StandardEdgeLengths, &done, &pre);
        if (overlaps) alg.setAvoidNodeOverlaps(true);
        SnapAddon addon(sc.nodes, sc.edges);
        alg.setTopology(&addon);
        alg.run(true, true);
        printState("fd-done", 2, sc.nodes, sc.edges);
    }
    for (size_t i = 0; i < sc.nodes.size(); ++i) sc.nodes[i]->var = nullptr;
}


// ------------------------------------------------------------------ per-case process isolation
//
// libtopology checks its own invariants with COLA_ASSERT (abort). Every scene case runs in a forked
// child so that one abort does not end the whole run; on abort the child dumps the state it had
// reached ("S abort"), the parent appends
//     ABORT <exit-code|signal> <first diagnostic line of stderr>
// and the Lean driver turns that into the verdict of the case.
static void onAbort(int) {
    signal(SIGABRT, SIG_DFL);
    // assertNoSegmentRectIntersection shrinks the static border by 1e-6 and aborts before restoring it
    vpsc::Rectangle::setXBorder(0); vpsc::Rectangle::setYBorder(0);
    if (g_nodes && g_edges) printState("abort", g_dim, *g_nodes, *g_edges);
    fflush(stdout);
    _exit(66);
}

static void runIsolated(const std::function<void()> &body) {
    fflush(stdout); fflush(stderr);
    char tmpl[] = "/tmp/c13-stderr-XXXXXX";
    int efd = mkstemp(tmpl);
    pid_t pid = fork();
    if (pid == 0) {
        if (efd >= 0) { dup2(efd, 2); close(efd); }
        signal(SIGABRT, onAbort);
        alarm(120);
        body();
        fflush(stdout);
        exit(0);                 // normal exit: LeakSanitizer runs
    }
    int status = 0;
    if (pid > 0) waitpid(pid, &status, 0);
    std::string diag;
    if (efd >= 0) {
        lseek(efd, 0, SEEK_SET);
        std::string all; char buf[4096]; ssize_t n;
        while ((n = read(efd, buf, sizeof buf)) > 0 && all.size() < (1u << 20)) all.append(buf, n);
        close(efd); unlink(tmpl);
        // keep stderr visible for replays, pick the most informative line for the stream
        if (!all.empty()) fputs(all.c_str(), stderr);
        const char *keys[] = {"Assertion", "ASSERTION", "runtime error:", "ERROR: AddressSanitizer", "ERROR: LeakSanitizer", "terminate called"};
        for (size_t i = 0; i < 6 && diag.empty(); ++i) {
            size_t p = all.find(keys[i]);
            if (p != std::string::npos) {
                size_t b = all.rfind('\n', p); b = (b == std::string::npos) ? 0 : b + 1;
                size_t e = all.find('\n', p);
                diag = all.substr(b, (e == std::string::npos ? all.size() : e) - b);
            }
        }
    }
    bool bad = pid <= 0 || !WIFEXITED(status) || WEXITSTATUS(status) != 0;
    if (bad) {
        for (size_t i = 0; i < diag.size(); ++i) if (diag[i] == '\r' || diag[i] == '\t') diag[i] = ' ';
        if (WIFSIGNALED(status)) printf("ABORT signal%d %s\n", WTERMSIG(status), diag.c_str());
        else printf("ABORT exit%d %s\n", WIFEXITED(status) ? WEXITSTATUS(status) : -1, diag.c_str());
    }
}

// ------------------------------------------------------------------ main

int main(int argc, char **argv) {
    vh::Args a = vh::parseArgs(argc, argv);
    bool thorough = a.tier == "thorough";
    setvbuf(stdout, nullptr, _IOLBF, 0);        // the library prints diagnostics to stdout right before it asserts
    topology::FILELog::ReportingLevel() = topology::logERROR;   // the library's default is DEBUG1 to stderr
    long k = 0;
    // exhaustive small grid of TriConstraint inputs: 42 chunks x 4^6 tuples
    for (long c = 0; c < 42; ++c, ++k) {
        if (!a.want(k)) continue;
        vh::beginCase(k, "tri-enum");
        runIsolated([&]() { triEnumCase(c); });
        vh::endCase();
    }
    long nTri = (thorough ? 60 : 16) * a.scale;
    for (long c = 0; c < nTri; ++c, ++k) {
        if (!a.want(k)) continue;
        vh::Rng r = vh::caseRng(a.seed, k);
        bool exact = (c % 2 == 0);
        vh::beginCase(k, exact ? "tri-dyadic" : "tri-float");
        runIsolated([&]() { triRandCase(r, exact); });
        vh::endCase();
    }
    for (int v = 0; v < 3; ++v, ++k) {
        if (!a.want(k)) continue;
        vh::beginCase(k, v == 0 ? "witness-endnode-visibility" : v == 1 ? "control-shared-scanline" : "witness-parallel-segment-bend");
        runIsolated([&]() { if (v < 2) witnessEndnodeVisibility(v); else witnessParallelSegmentBend(); });
        vh::endCase();
    }
    long nScene = (thorough ? 900 : 150) * a.scale;
    if (a.n >= 0) nScene = a.n;
    static const char *tags[] = {"scene-simplebend", "scene-straight", "scene-avoid", "scene-crowded", "scene-fd"};
    for (long c = 0; c < nScene; ++c, ++k) {
        if (!a.want(k)) continue;
        vh::Rng r = vh::caseRng(a.seed, k);
        int cls;
        long m = c % 10;
        if (m == 0) cls = 0; else if (m <= 2) cls = 1; else if (m <= 5) cls = 2; else if (m <= 7) cls = 3; else cls = 4;
        vh::beginCase(k, tags[cls]);
        runIsolated([&]() { if (cls == 4) sceneFdCase(r, thorough); else sceneSolveCase(r, cls, thorough); });
        vh::endCase();
    }
    // resize-focused strict class (appended so that the indices / seeds of the classes above stay put)
    long nResize = (thorough ? 300 : 60) * a.scale;
    for (long c = 0; c < nResize; ++c, ++k) {
        if (!a.want(k)) continue;
        vh::Rng r = vh::caseRng(a.seed, k);
        vh::beginCase(k, "scene-resize-corners");
        runIsolated([&]() { sceneResizeCornersCase(r, thorough); });
        vh::endCase();
    }
    long nGrid = (thorough ? 400 : 80) * a.scale;
    for (long c = 0; c < nGrid; ++c, ++k) {
        if (!a.want(k)) continue;
        vh::Rng r = vh::caseRng(a.seed, k);
        vh::beginCase(k, "scene-grid-ties");
        runIsolated([&]() { sceneGridTiesCase(r, thorough); });
        vh::endCase();
    }
    long nCyc = (thorough ? 400 : 80) * a.scale;
    for (long c = 0; c < nCyc; ++c, ++k) {
        if (!a.want(k)) continue;
        vh::Rng r = vh::caseRng(a.seed, k);
        vh::beginCase(k, "scene-cycles");
        runIsolated([&]() { sceneCyclesCase(r, thorough); });
        vh::endCase();
    }
    long nCoin = (thorough ? 300 : 100) * a.scale;
    for (long c = 0; c < nCoin; ++c, ++k) {
        if (!a.want(k)) continue;
        // caseRng streams of neighbouring case indices are shifts of one another (splitmix state + k*gamma):
        // reseed from a mixed output so that the cases of this class are independent
        vh::Rng r0 = vh::caseRng(a.seed, k);
        vh::Rng r(r0.next() ^ (r0.next() << 1));
        vh::beginCase(k, "scene-corner-coincide");
        runIsolated([&]() { sceneCornerCoincideCase(r, thorough); });
        vh::endCase();
    }
    long nRule = (thorough ? 80 : 30) * a.scale;
    for (long c = 0; c < nRule; ++c, ++k) {
        if (!a.want(k)) continue;
        // caseRng streams of neighbouring case indices are shifts of one another (splitmix state + k*gamma):
        // reseed from a mixed output so that the cases of this class are independent
        vh::Rng r0 = vh::caseRng(a.seed, k);
        vh::Rng r(r0.next() ^ (r0.next() << 1));
        vh::beginCase(k, "prune-rule");
        runIsolated([&]() { pruneRuleCase(r); });
        vh::endCase();
    }
    return 0;
}
